import Spdc.Model.Beam
import Spdc.Real.Index
import Mathlib.Algebra.Order.Floor.Ring
import Mathlib.Analysis.SpecialFunctions.Trigonometric.Inverse
import Mathlib.Analysis.SpecialFunctions.Log.Basic
import Mathlib.Analysis.Calculus.Deriv.MeanValue
import Mathlib.Analysis.Real.Pi.Bounds
/-!
# ℝ-side lemmas for the beam model (C13): `fmod` over ℝ, `rem_euclid`, angle normalisation,
the beam invariant, requested-angle bookkeeping.
-/
namespace Spdc.Units

/-- truncation toward zero -/
noncomputable def truncR (q : ℝ) : ℝ := if 0 ≤ q then (⌊q⌋ : ℝ) else (⌈q⌉ : ℝ)

/-- C `fmod` over ℝ: `x − y·trunc(x/y)` -/
noncomputable instance : FMod ℝ := ⟨fun x y => x - y * truncR (x / y)⟩

theorem fmod_def (x y : ℝ) : FMod.fmod x y = x - y * truncR (x / y) := rfl

theorem twoPi_eq : (twoPi : ℝ) = 2 * Real.pi := by simp only [twoPi, Spdc.lit_two, Transc.pi]

theorem twoPi_pos : 0 < (twoPi : ℝ) := by rw [twoPi_eq]; positivity

/-- `rem_euclid(x, y)` for `y > 0` lies in `[0, y)` and differs from `x` by an integer multiple of `y` -/
theorem remEuclid_spec (x y : ℝ) (hy : 0 < y) :
    0 ≤ remEuclid x y ∧ remEuclid x y < y ∧ ∃ k : ℤ, remEuclid x y = x + k * y := by
  have hxy : x = y * (x / y) := by field_simp
  simp only [remEuclid, fmod_def, truncR, Spdc.lit_zero, Transc.abs, abs_of_pos hy]
  by_cases hq : 0 ≤ x / y
  · simp only [hq, if_true]
    have h1 := Int.floor_le (x / y)
    have h2 := Int.lt_floor_add_one (x / y)
    have hr : 0 ≤ x - y * (⌊x / y⌋ : ℝ) := by
      have : x - y * (⌊x / y⌋ : ℝ) = y * (x / y - ⌊x / y⌋) := by rw [mul_sub, ← hxy]
      rw [this]; exact mul_nonneg hy.le (by linarith)
    rw [if_neg (not_lt.mpr hr)]
    refine ⟨hr, ?_, -⌊x / y⌋, by push_cast; ring⟩
    have : x - y * (⌊x / y⌋ : ℝ) = y * (x / y - ⌊x / y⌋) := by rw [mul_sub, ← hxy]
    rw [this]
    calc y * (x / y - ⌊x / y⌋) < y * 1 := by apply mul_lt_mul_of_pos_left _ hy; linarith
      _ = y := mul_one y
  · simp only [hq, if_false]
    have hq' : x / y < 0 := not_le.mp hq
    have h1 := Int.le_ceil (x / y)
    have h2 := Int.ceil_lt_add_one (x / y)
    have e : x - y * (⌈x / y⌉ : ℝ) = y * (x / y - ⌈x / y⌉) := by rw [mul_sub, ← hxy]
    have hle : x - y * (⌈x / y⌉ : ℝ) ≤ 0 := by
      rw [e]; exact mul_nonpos_of_nonneg_of_nonpos hy.le (by linarith)
    have hgt : -y < x - y * (⌈x / y⌉ : ℝ) := by
      rw [e]
      have : y * (-1) < y * (x / y - ⌈x / y⌉) := by apply mul_lt_mul_of_pos_left _ hy; linarith
      linarith
    by_cases hneg : x - y * (⌈x / y⌉ : ℝ) < 0
    · rw [if_pos hneg]
      refine ⟨by linarith, by linarith, -⌈x / y⌉ + 1, by push_cast; ring⟩
    · rw [if_neg hneg]
      refine ⟨not_lt.mp hneg, by linarith, -⌈x / y⌉, by push_cast; ring⟩

/-- congruence modulo 2π -/
def Cong (a b : ℝ) : Prop := ∃ k : ℤ, a = b + k * (2 * Real.pi)

theorem Cong.refl (a : ℝ) : Cong a a := ⟨0, by simp⟩
theorem Cong.trans {a b c : ℝ} (h1 : Cong a b) (h2 : Cong b c) : Cong a c := by
  obtain ⟨k, hk⟩ := h1; obtain ⟨l, hl⟩ := h2
  exact ⟨k + l, by rw [hk, hl]; push_cast; ring⟩
theorem Cong.symm {a b : ℝ} (h : Cong a b) : Cong b a := by
  obtain ⟨k, hk⟩ := h
  exact ⟨-k, by rw [hk]; push_cast; ring⟩

theorem normalizeAngle_spec (x : ℝ) :
    0 ≤ normalizeAngle x ∧ normalizeAngle x < 2 * Real.pi ∧ Cong (normalizeAngle x) x := by
  have h := remEuclid_spec x twoPi twoPi_pos
  rw [twoPi_eq] at h
  simpa only [normalizeAngle, twoPi_eq, Cong] using h

theorem normalizeAngleSigned_spec (x : ℝ) :
    -Real.pi < normalizeAngleSigned x ∧ normalizeAngleSigned x ≤ Real.pi ∧
      Cong (normalizeAngleSigned x) x := by
  obtain ⟨h0, h1, k, hk⟩ := remEuclid_spec x twoPi twoPi_pos
  have hpi := Real.pi_pos
  simp only [normalizeAngleSigned, Transc.pi]
  rw [twoPi_eq] at h0 h1 hk ⊢
  by_cases hgt : Real.pi < remEuclid x (2 * Real.pi)
  · rw [if_pos hgt]
    refine ⟨by linarith, by linarith, k - 1, ?_⟩
    rw [hk]; push_cast; ring
  · rw [if_neg hgt]
    exact ⟨by linarith, not_lt.mp hgt, k, hk⟩

theorem normalizeAngle_zero : normalizeAngle (0 : ℝ) = 0 := by
  simp [normalizeAngle, remEuclid, fmod_def, truncR, Spdc.lit_zero]

theorem normalizeAngleSigned_zero : normalizeAngleSigned (0 : ℝ) = 0 := by
  have hpi := Real.pi_pos
  simp only [normalizeAngleSigned, remEuclid, fmod_def, truncR, Spdc.lit_zero, Transc.pi, zero_div,
    le_refl, if_true, Int.floor_zero, Int.cast_zero, mul_zero, sub_zero, lt_irrefl, if_false]
  rw [if_neg (not_lt.mpr hpi.le)]

end Spdc.Units

namespace Spdc.Beam
open Spdc Spdc.Units Spdc.Index

theorem polarVector_normSq (φ θ : ℝ) : (polarVector φ θ).normSq = 1 := by
  simp only [polarVector, Vec3.normSq, Vec3.dot, Transc.sin, Transc.cos]
  have h1 := Real.sin_sq_add_cos_sq θ
  have h2 := Real.sin_sq_add_cos_sq φ
  linear_combination (Real.sin θ ^ 2) * h2 + h1

theorem normalize_of_unit (v : Vec3 ℝ) (h : v.normSq = 1) : normalize v = v := by
  simp only [normalize, h, Transc.sqrt, Real.sqrt_one, div_one]

/-- over ℝ the normalisation in `direction_from_polar` is the identity -/
theorem directionFromPolar_eq (φ θ : ℝ) : directionFromPolar φ θ = polarVector φ θ :=
  normalize_of_unit _ (polarVector_normSq φ θ)

/-- the state invariant of the statement (half-open azimuth range over ℝ) -/
structure Inv (b : Beam ℝ) : Prop where
  dir : b.direction = polarVector b.phi b.theta
  phi_lo : 0 ≤ b.phi
  phi_hi : b.phi < 2 * Real.pi
  theta_lo : -Real.pi < b.theta
  theta_hi : b.theta ≤ Real.pi

theorem inv_setAngles (b : Beam ℝ) (φ θ : ℝ) : Inv (setAngles b φ θ) := by
  obtain ⟨a1, a2, _⟩ := normalizeAngle_spec φ
  obtain ⟨b1, b2, _⟩ := normalizeAngleSigned_spec θ
  exact ⟨directionFromPolar_eq _ _, a1, a2, b1, b2⟩

/-- what the history last asked for: `(φ, θ)` -/
def reqStep (r : ℝ × ℝ) : Op ℝ → ℝ × ℝ
  | .setPhi φ => (φ, r.2)
  | .setThetaInternal θ => (r.1, θ)
  | .setAngles φ θ => (φ, θ)
  | .setThetaExternal t => (r.1, t)
  | .intoPump => (0, 0)
  | _ => r

def requested (φ θ : ℝ) (ops : List (Op ℝ)) : ℝ × ℝ := ops.foldl reqStep (φ, θ)

theorem cong_step (b : Beam ℝ) (r : ℝ × ℝ) (h1 : Cong b.phi r.1) (h2 : Cong b.theta r.2) (op : Op ℝ) :
    Cong (step b op).phi (reqStep r op).1 ∧ Cong (step b op).theta (reqStep r op).2 := by
  cases op with
  | setPhi φ => exact ⟨(normalizeAngle_spec φ).2.2, h2⟩
  | setThetaInternal θ => exact ⟨h1, (normalizeAngleSigned_spec θ).2.2⟩
  | setAngles φ θ => exact ⟨(normalizeAngle_spec φ).2.2, (normalizeAngleSigned_spec θ).2.2⟩
  | setThetaExternal t =>
    refine ⟨((normalizeAngle_spec b.phi).2.2).trans h1, ?_⟩
    have := (normalizeAngleSigned_spec ((1.0 : ℝ) * t)).2.2
    simpa only [step, setAngles, updateDirection, reqStep, lit_one, one_mul] using this
  | intoPump =>
    refine ⟨?_, ?_⟩
    · have := (normalizeAngle_spec ((0.0 : ℝ))).2.2
      simpa only [step, setAngles, updateDirection, reqStep, lit_zero] using this
    · have := (normalizeAngleSigned_spec ((0.0 : ℝ))).2.2
      simpa only [step, setAngles, updateDirection, reqStep, lit_zero] using this
  | setFrequency ω => exact ⟨h1, h2⟩
  | setVacuumWavelength l => exact ⟨h1, h2⟩
  | setPolarization p => exact ⟨h1, h2⟩
  | withPolarization p => exact ⟨h1, h2⟩
  | setWaist x y => exact ⟨h1, h2⟩

end Spdc.Beam
