import Spdc.Model.Sweep
import Spdc.Real.Config
/-!
# ℝ-side definitions and lemmas for the sweep model (C18)
-/
namespace Spdc.Sweep
open Spdc Spdc.Cfg Spdc.Grid

/-- values for which the statement promises read-back of the very value: the beam angles are kept
in their canonical interval by the `Beam` setters -/
def InRange (p : Path) (v : ℝ) : Prop :=
  match p with
  | .signalPhi | .idlerPhi => 0 ≤ v ∧ v < 360
  | .signalTheta | .idlerTheta => -180 < v ∧ v ≤ 180
  | _ => True

/-- `Beam` invariant used by `set_theta_external` (which re-normalises the azimuth) -/
def WellFormed (s : Setup ℝ) : Prop :=
  normAngle s.signal.phi = s.signal.phi ∧ normAngle s.idler.phi = s.idler.phi

/-- the value the named field must read, in the field's unit, by the statement:
the requested value; for `*.frequency_thz` the wavelength c/(v·10¹² Hz) in nm; for
`*.theta_external_deg` the (normalised) Snell-internal angle in degrees; for the poling period the
magnitude (the sign is derived) -/
noncomputable def target (ext : Ext ℝ) (p : Path) (s : Setup ℝ) (v : ℝ) : Outcome ℝ :=
  match p with
  | .signalFrequency | .idlerFrequency | .pumpFrequency => .ok (299792458 / (v * 10 ^ 12) / nano)
  | .signalThetaExternal =>
    (ext.snell s.signal |v * deg| s.crystal).map fun th => normAngleSigned th / deg
  | .idlerThetaExternal =>
    (ext.snell s.idler |v * deg| s.crystal).map fun th => normAngleSigned th / deg
  | .polingPeriod => (computeSign ext s.signal s.pump s.crystal).map fun _ => |v|
  | _ => .ok v

/-- how the named field is rounded: 4 decimals; an azimuth that rounds up to 360.0000 is written
as 0 -/
noncomputable def fieldRound (p : Path) (x : ℝ) : ℝ :=
  match p with
  | .signalPhi | .idlerPhi => wrap360 (sigfigs x)
  | _ => sigfigs x

theorem poling_new_period (p : ℝ) (neg : Bool) (apod : Apod ℝ) :
    Poling.toCfg (Poling.new (signMul neg (Transc.abs p)) apod)
      = .config (.param (sigfigs (|p| / micro))) (Apod.toCfg apod) := by
  unfold Poling.new signMul
  rw [abs_eq, lit_zero]
  have h0 : 0 ≤ |p| := abs_nonneg p
  cases neg
  · simp only [Bool.false_eq_true, if_false, lit_one, mul_one]
    by_cases hp : 0 < |p|
    · simp [hp, Poling.toCfg]
    · have : |p| = 0 := le_antisymm (not_lt.mp hp) h0
      simp [this, Poling.toCfg]
  · simp only [if_true]
    have : ¬ (0 < |p| * -(1.0 : ℝ)) := by rw [lit_one]; simp
    simp only [this, if_false, Poling.toCfg]
    rw [lit_one]; simp

theorem abs_mul_micro (v : ℝ) : |v * micro| / micro = |v| := by
  rw [abs_mul, abs_of_pos micro_pos]; exact micro_roundtrip _

/-- the configuration view of `with_period(sign · |v µm|)`: magnitude in µm, apodization kept -/
theorem withPeriod_toCfg (pp : Poling ℝ) (neg : Bool) (v : ℝ) :
    (pp.withPeriod (signMul neg (Transc.abs (v * micro)))).toCfg
      = (match pp.toCfg with
          | .off => .config (.param (sigfigs |v|)) .off
          | .config _ a => .config (.param (sigfigs |v|)) a) := by
  cases pp with
  | off =>
    simp only [Poling.withPeriod]
    rw [poling_new_period, abs_mul_micro]
    simp [Poling.toCfg, Apod.toCfg]
  | on per n a =>
    simp only [Poling.withPeriod]
    rw [poling_new_period, abs_mul_micro]
    simp [Poling.toCfg]

end Spdc.Sweep
