import Spdc.Model.Grid
import Mathlib.Algebra.Field.Basic
import Mathlib.Algebra.CharZero.Defs
import Mathlib.Algebra.Order.Field.Basic
import Mathlib.Algebra.BigOperators.Group.List.Basic
import Mathlib.Data.List.Range
import Mathlib.Data.List.Flatten
import Mathlib.Tactic.FieldSimp
import Mathlib.Tactic.Ring
import Mathlib.Tactic.NormNum
import Mathlib.Tactic.Linarith
/-!
# Helper lemmas for C14 / C15 (grids, index maps, producers)

Scalar lemmas are over an arbitrary field `K` of characteristic 0 (so they hold at `ℝ`, `ℚ`, `ℂ`);
list-structure lemmas are over an arbitrary scalar type.
-/
set_option linter.unusedSectionVars false
namespace Spdc.Grid

/-! ## literals -/
section lits
variable {K : Type} [Field K] [CharZero K]
theorem klit_zero : (0.0 : K) = 0 := by norm_num
theorem klit_one : (1.0 : K) = 1 := by norm_num
theorem klit_two : (2.0 : K) = 2 := by norm_num
theorem klit_three : (3.0 : K) = 3 := by norm_num
theorem klit_quarter : (0.25 : K) = 1 / 4 := by norm_num
end lits

/-! ## `Steps.value` over a field -/
section value
variable {K : Type} [Field K] [CharZero K]

theorem cast_pred_ne_zero {n : Nat} (h : 1 < n) : ((n - 1 : Nat) : K) ≠ 0 := by
  have : n - 1 ≠ 0 := by omega
  exact_mod_cast this

theorem Steps.value_of_gt (s : Steps K) (h : 1 < s.n) (i : Nat) :
    s.value i = (s.a * (((s.n - 1 : Nat) : K) - (i : K)) + s.b * (i : K)) / ((s.n - 1 : Nat) : K) := by
  simp only [Steps.value, gt_iff_lt, h, if_true]

theorem Steps.value_of_le (s : Steps K) (h : s.n ≤ 1) (i : Nat) : s.value i = s.a := by
  have : ¬ (1 < s.n) := by omega
  simp only [Steps.value, gt_iff_lt, this, if_false]

/-- the constant step `(b − a)/(n − 1)` -/
def Steps.h (s : Steps K) : K := (s.b - s.a) / ((s.n - 1 : Nat) : K)

/-- spec form of `Steps.value`: `a + i·h` -/
theorem Steps.value_affine (s : Steps K) (hn : 1 < s.n) (i : Nat) :
    s.value i = s.a + (i : K) * s.h := by
  have hd := cast_pred_ne_zero (K := K) hn
  rw [s.value_of_gt hn, Steps.h]
  field_simp
  ring

theorem Steps.b_eq (s : Steps K) (hn : 1 < s.n) : s.b = s.a + ((s.n - 1 : Nat) : K) * s.h := by
  have hd := cast_pred_ne_zero (K := K) hn
  rw [Steps.h]
  field_simp
  ring

theorem Steps.value_zero (s : Steps K) : s.value 0 = s.a := by
  by_cases hn : 1 < s.n
  · rw [s.value_affine hn]; simp
  · exact s.value_of_le (by omega) 0

theorem Steps.value_last (s : Steps K) (hn : 2 ≤ s.n) : s.value (s.n - 1) = s.b := by
  have hn' : 1 < s.n := by omega
  rw [s.value_affine hn', ← s.b_eq hn']

theorem Steps.value_succ_sub (s : Steps K) (hn : 2 ≤ s.n) (i : Nat) :
    s.value (i + 1) - s.value i = (s.b - s.a) / ((s.n - 1 : Nat) : K) := by
  have hn' : 1 < s.n := by omega
  rw [s.value_affine hn', s.value_affine hn', Steps.h]
  push_cast
  ring

theorem Steps.divisionWidth_eq (s : Steps K) : s.divisionWidth = s.h := rfl

end value

/-! ## `Steps.collect` and draining, any scalar type -/
section collect
variable {α : Type} [Add α] [Sub α] [Mul α] [Div α] [NatCast α]

theorem Steps.collect_length (s : Steps α) : s.collect.length = s.n := by
  simp [Steps.collect]

theorem Steps.collect_getElem (s : Steps α) (i : Nat) (h : i < s.collect.length) :
    s.collect[i] = s.value i := by
  simp [Steps.collect]

theorem Steps.collect_zero (s : Steps α) (h : s.n = 0) : s.collect = [] := by
  simp [Steps.collect, h]

/-- items of the drained output pulled from one side (`false` = front, `true` = back), in pull order -/
def pulls {β : Type} (sc : List Bool) (out : List (Option β)) (side : Bool) : List β :=
  ((sc.zip out).filter (fun p => p.1 == side)).filterMap (fun p => p.2)

theorem pulls_cons_same {β : Type} (c : Bool) (sc : List Bool) (v : Option β) (out : List (Option β)) :
    pulls (c :: sc) (v :: out) c = (match v with | some x => [x] | none => []) ++ pulls sc out c := by
  cases v <;> simp [pulls]

theorem pulls_cons_other {β : Type} (c d : Bool) (hcd : c ≠ d) (sc : List Bool) (v : Option β)
    (out : List (Option β)) : pulls (c :: sc) (v :: out) d = pulls sc out d := by
  have : (c == d) = false := by cases c <;> cases d <;> simp_all
  simp [pulls, this]

/-- State-machine invariant of `Iterator1D`: from state `(i, j)` with `i ≤ j`, any script of pulls
delivers, from the front, the values at `i, i+1, …` and, from the back, those at `j−1, j−2, …`;
together `min (#pulls) (j − i)` values — every index at most once, none skipped. -/
theorem Iter1.drain_spec (s : Steps α) (sc : List Bool) : ∀ (i j : Nat), i ≤ j →
    ∃ f b, f + b = min sc.length (j - i) ∧
      pulls sc ((⟨s, i, j⟩ : Iter1 α).drain sc) false = (List.range' i f).map s.value ∧
      pulls sc ((⟨s, i, j⟩ : Iter1 α).drain sc) true = ((List.range' (j - b) b).map s.value).reverse ∧
      ((⟨s, i, j⟩ : Iter1 α).drain sc).length = sc.length := by
  induction sc with
  | nil => intro i j _; exact ⟨0, 0, by simp, by simp [Iter1.drain, pulls], by simp [Iter1.drain, pulls], rfl⟩
  | cons c r ih =>
    intro i j hij
    cases c with
    | false =>
      by_cases hge : i ≥ j
      · obtain ⟨f, b, hfb, hf, hb, hl⟩ := ih i j hij
        refine ⟨f, b, ?_, ?_, ?_, ?_⟩
        · have : j - i = 0 := by omega
          simp only [this, List.length_cons] at hfb ⊢; omega
        · simp only [Iter1.drain, Iter1.next, hge, if_true]
          rw [pulls_cons_same]; simpa using hf
        · simp only [Iter1.drain, Iter1.next, hge, if_true]
          rw [pulls_cons_other false true (by decide)]; exact hb
        · simp only [Iter1.drain, Iter1.next, hge, if_true, List.length_cons, hl]
      · obtain ⟨f, b, hfb, hf, hb, hl⟩ := ih (i + 1) j (by omega)
        refine ⟨f + 1, b, ?_, ?_, ?_, ?_⟩
        · simp only [List.length_cons]; omega
        · simp only [Iter1.drain, Iter1.next, hge, if_false]
          rw [pulls_cons_same, hf]; simp [List.range'_succ]
        · simp only [Iter1.drain, Iter1.next, hge, if_false]
          rw [pulls_cons_other false true (by decide)]; exact hb
        · simp only [Iter1.drain, Iter1.next, hge, if_false, List.length_cons, hl]
    | true =>
      by_cases hle : j ≤ i
      · obtain ⟨f, b, hfb, hf, hb, hl⟩ := ih i j hij
        refine ⟨f, b, ?_, ?_, ?_, ?_⟩
        · have : j - i = 0 := by omega
          simp only [this, List.length_cons] at hfb ⊢; omega
        · simp only [Iter1.drain, Iter1.nextBack, hle, if_true]
          rw [pulls_cons_other true false (by decide)]; exact hf
        · simp only [Iter1.drain, Iter1.nextBack, hle, if_true]
          rw [pulls_cons_same]; simpa using hb
        · simp only [Iter1.drain, Iter1.nextBack, hle, if_true, List.length_cons, hl]
      · obtain ⟨f, b, hfb, hf, hb, hl⟩ := ih i (j - 1) (by omega)
        refine ⟨f, b + 1, ?_, ?_, ?_, ?_⟩
        · simp only [List.length_cons]; omega
        · simp only [Iter1.drain, Iter1.nextBack, hle, if_false]
          rw [pulls_cons_other true false (by decide)]; exact hf
        · simp only [Iter1.drain, Iter1.nextBack, hle, if_false]
          rw [pulls_cons_same, hb]
          have hb' : b ≤ j - 1 - i := by omega
          have e1 : j - (b + 1) = j - 1 - b := by omega
          have e2 : j - 1 - b + b = j - 1 := by omega
          rw [e1, List.range'_1_concat, List.map_append, List.reverse_append, e2]
          simp
        · simp only [Iter1.drain, Iter1.nextBack, hle, if_false, List.length_cons, hl]

/-- draining only from the back yields the reverse of the forward traversal -/
theorem Iter1.drain_all_back (s : Steps α) : ∀ j : Nat,
    (⟨s, 0, j⟩ : Iter1 α).drain (List.replicate j true) = (((List.range j).map s.value).reverse).map some := by
  intro j
  induction j with
  | zero => simp [Iter1.drain]
  | succ j ih =>
    have : ¬ (j + 1 ≤ 0) := by omega
    simp only [List.replicate_succ, Iter1.drain, Iter1.nextBack, this, if_false, Nat.add_sub_cancel]
    rw [ih, List.range_succ]
    simp

/-- draining only from the front yields the forward traversal -/
theorem Iter1.drain_all_front (s : Steps α) (j : Nat) : ∀ m i : Nat, i + m = j →
    (⟨s, i, j⟩ : Iter1 α).drain (List.replicate m false) = ((List.range' i m).map s.value).map some := by
  intro m
  induction m with
  | zero => intro i _; simp [Iter1.drain]
  | succ m ih =>
    intro i h
    have : ¬ (i ≥ j) := by omega
    simp only [List.replicate_succ, Iter1.drain, Iter1.next, this, if_false]
    rw [ih (i + 1) (by omega)]
    simp [List.range'_succ]

end collect

/-! ## `Steps2D` -/
section steps2d
variable {K : Type} [Field K] [CharZero K]

theorem lerp_eq (a b t : K) : lerp a b t = a * (1 - t) + b * t := by
  simp only [lerp, klit_one]

/-- a 2-D grid point is the pair of the 1-D values of its column and row (first axis fastest) -/
theorem Steps2D.value_eq (s : Steps2D K) (k : Nat) :
    s.value k = (s.x.value (k % s.x.n), s.y.value (k / s.x.n)) := by
  simp only [Steps2D.value, get2dIndices, lerp_eq, klit_zero]
  congr 1
  · by_cases h : 1 < s.x.n
    · have hd := cast_pred_ne_zero (K := K) h
      simp only [gt_iff_lt, h, if_true, s.x.value_of_gt h]
      field_simp
    · simp only [gt_iff_lt, h, if_false, s.x.value_of_le (by omega)]
      ring
  · by_cases h : 1 < s.y.n
    · have hd := cast_pred_ne_zero (K := K) h
      simp only [gt_iff_lt, h, if_true, s.y.value_of_gt h]
      field_simp
    · simp only [gt_iff_lt, h, if_false, s.y.value_of_le (by omega)]
      ring

end steps2d

section steps2d_any
variable {α : Type} [Add α] [Sub α] [Mul α] [Div α] [NatCast α] [OfScientific α]

theorem Steps2D.collect_length (s : Steps2D α) : s.collect.length = s.x.n * s.y.n := by
  simp [Steps2D.collect, Steps2D.len]

theorem Steps2D.collect_getElem (s : Steps2D α) (k : Nat) (h : k < s.collect.length) :
    s.collect[k] = s.value k := by
  simp [Steps2D.collect]

theorem Steps2D.producer_collect (s : Steps2D α) : s.producer.collect = s.collect := by
  simp [Steps2D.producer, Prod2.collect, Steps2D.collect]

end steps2d_any

/-! ## transpose, flat arrays -/
section transpose
variable {β : Type}

theorem flatten_length (m : Nat → Nat → β) (rows cols : Nat) :
    (flatten m rows cols).length = rows * cols := by
  induction rows with
  | zero => simp [flatten]
  | succ r ih =>
    have : flatten m (r + 1) cols = flatten m r cols ++ (List.range cols).map (fun c => m r c) := by
      simp [flatten, List.range_succ]
    rw [this, List.length_append, ih]
    simp [Nat.succ_mul]

theorem flatten_succ (m : Nat → Nat → β) (r cols : Nat) :
    flatten m (r + 1) cols = flatten m r cols ++ (List.range cols).map (fun c => m r c) := by
  simp [flatten, List.range_succ]

/-- element `(r, c)` of a `rows × cols` matrix sits at flat index `r·cols + c` -/
theorem flatten_getElem? (m : Nat → Nat → β) (rows cols r c : Nat) (hr : r < rows) (hc : c < cols) :
    (flatten m rows cols)[r * cols + c]? = some (m r c) := by
  induction rows with
  | zero => omega
  | succ R ih =>
    rw [flatten_succ]
    by_cases h : r < R
    · have hlt : r * cols + c < (flatten m R cols).length := by
        rw [flatten_length]
        calc r * cols + c < r * cols + cols := by omega
          _ = (r + 1) * cols := by rw [Nat.succ_mul]
          _ ≤ R * cols := Nat.mul_le_mul_right _ (by omega)
      rw [List.getElem?_append_left hlt]
      exact ih h
    · have hrR : r = R := by omega
      subst hrR
      have hge : (flatten m r cols).length ≤ r * cols + c := by rw [flatten_length]; omega
      rw [List.getElem?_append_right hge, flatten_length]
      simp [hc]

theorem div_ceil_mul (rows cols : Nat) (hc : 0 < cols) : (rows * cols + cols - 1) / cols = rows := by
  have h1 : rows * cols + cols - 1 = (cols - 1) + cols * rows := by
    rw [Nat.mul_comm]; omega
  rw [h1, Nat.add_mul_div_left _ _ hc, Nat.div_eq_of_lt (by omega)]
  omega

/-- `transpose_vec` (as coded) of a flattened `rows × cols` matrix is the flattened transpose,
for every shape with at least one column -/
theorem transposeVec_flatten (m : Nat → Nat → β) (rows cols : Nat) (hc : 0 < cols) :
    transposeVec (flatten m rows cols) cols = .ok (transposeSpec m rows cols) := by
  have hc0 : cols ≠ 0 := by omega
  simp only [transposeVec, hc0, if_false, flatten_length, div_ceil_mul rows cols hc, transposeSpec]
  congr 1
  apply List.flatMap_congr
  intro c hcm
  have hc' : c < cols := List.mem_range.mp hcm
  rw [← List.filterMap_eq_map]
  apply List.filterMap_congr
  intro r hrm
  have hr' : r < rows := List.mem_range.mp hrm
  simp [flatten_getElem? m rows cols r c hr' hc']

/-- `chunks_exact(2)` of the flat `[s₀,i₀,s₁,i₁,…]` list built from a list of pairs gives the pairs back -/
theorem chunks2_flat (l : List (β × β)) : chunks2 (l.flatMap fun p => [p.1, p.2]) = l := by
  induction l with
  | nil => simp [chunks2]
  | cons p r ih => simp [chunks2, ih]

end transpose

/-! ## conversions -/
section conv
variable {K : Type} [Field K] [CharZero K]

theorem recip_recip (c x : K) (hc : c ≠ 0) (hx : x ≠ 0) : recip c (recip c x) = x := by
  simp only [recip]; field_simp

theorem convRecip_convRecip (c : K) (s : Steps2D K) (hc : c ≠ 0) (h1 : s.x.a ≠ 0) (h2 : s.x.b ≠ 0)
    (h3 : s.y.a ≠ 0) (h4 : s.y.b ≠ 0) : convRecip c (convRecip c s) = s := by
  obtain ⟨⟨xa, xb, xn⟩, ⟨ya, yb, yn⟩⟩ := s
  simp only [convRecip, recip_recip c _ hc h1, recip_recip c _ hc h2, recip_recip c _ hc h3,
    recip_recip c _ hc h4]

theorem fromSumDiff_toSumDiff_x_a (f : Steps2D K) :
    (fromSumDiff (toSumDiff f)).x.a = (3 * f.x.a + f.x.b + f.y.a - f.y.b) / 4 := by
  simp only [fromSumDiff, toSumDiff, klit_two, klit_three, klit_quarter]; ring
theorem fromSumDiff_toSumDiff_x_b (f : Steps2D K) :
    (fromSumDiff (toSumDiff f)).x.b = (f.x.a + 3 * f.x.b - f.y.a + f.y.b) / 4 := by
  simp only [fromSumDiff, toSumDiff, klit_two, klit_three, klit_quarter]; ring
theorem fromSumDiff_toSumDiff_y_a (f : Steps2D K) :
    (fromSumDiff (toSumDiff f)).y.a = (f.x.a - f.x.b + 3 * f.y.a + f.y.b) / 4 := by
  simp only [fromSumDiff, toSumDiff, klit_two, klit_three, klit_quarter]; ring
theorem fromSumDiff_toSumDiff_y_b (f : Steps2D K) :
    (fromSumDiff (toSumDiff f)).y.b = (- f.x.a + f.x.b + f.y.a + 3 * f.y.b) / 4 := by
  simp only [fromSumDiff, toSumDiff, klit_two, klit_three, klit_quarter]; ring

end conv

/-! ## producers and split trees -/
section split1
variable {K : Type} [Field K] [CharZero K]

theorem split1_ok (p : Steps K) (k : Nat) (hk : k ≤ p.n) :
    split1 p k = .ok (⟨p.a, if k = 0 then p.a else p.value (k - 1), k⟩, ⟨p.value k, p.b, p.n - k⟩) := by
  have : ¬ (k > p.n) := by omega
  simp only [split1, this, if_false]

theorem split1_left_value (p : Steps K) (k j : Nat) (hk : k ≤ p.n) (hj : j < k) :
    (⟨p.a, if k = 0 then p.a else p.value (k - 1), k⟩ : Steps K).value j = p.value j := by
  have hk0 : k ≠ 0 := by omega
  simp only [hk0, if_false]
  by_cases hk1 : 1 < k
  · have hn : 1 < p.n := by omega
    have hd := cast_pred_ne_zero (K := K) hk1
    rw [Steps.value_of_gt _ hk1, p.value_affine hn, p.value_affine hn]
    simp only
    have e : ((k - 1 : Nat) : K) ≠ 0 := hd
    field_simp
    ring
  · have hj0 : j = 0 := by omega
    subst hj0
    rw [Steps.value_of_le _ (by simp only; omega), p.value_zero]

theorem split1_right_value (p : Steps K) (k j : Nat) (hk : k ≤ p.n) (hj : j < p.n - k) :
    (⟨p.value k, p.b, p.n - k⟩ : Steps K).value j = p.value (k + j) := by
  by_cases hm : 1 < p.n - k
  · have hn : 1 < p.n := by omega
    have hd := cast_pred_ne_zero (K := K) hm
    have hcast : ((p.n - 1 : Nat) : K) = ((p.n - k - 1 : Nat) : K) + (k : K) := by
      have : p.n - 1 = (p.n - k - 1) + k := by omega
      rw [this]; push_cast; ring
    rw [Steps.value_of_gt _ hm, p.value_affine hn, p.value_affine hn]
    simp only
    rw [p.b_eq hn, hcast]
    push_cast
    field_simp
    ring
  · have hj0 : j = 0 := by omega
    subst hj0
    rw [Steps.value_of_le _ (by simp only; omega)]
    simp

/-- the two halves of a split, drained in order, are the sequential traversal -/
theorem split1_collect (p : Steps K) (k : Nat) (hk : k ≤ p.n) :
    (⟨p.a, if k = 0 then p.a else p.value (k - 1), k⟩ : Steps K).collect
      ++ (⟨p.value k, p.b, p.n - k⟩ : Steps K).collect = p.collect := by
  have hn : p.n = k + (p.n - k) := by omega
  have hr : List.range p.n = List.range k ++ (List.range (p.n - k)).map (k + ·) := by
    conv_lhs => rw [hn]
    exact List.range_add
  simp only [Steps.collect]
  rw [hr, List.map_append, List.map_map]
  congr 1
  · apply List.map_congr_left
    intro j hj
    exact split1_left_value p k j hk (List.mem_range.mp hj)
  · apply List.map_congr_left
    intro j hj
    exact split1_right_value p k j hk (List.mem_range.mp hj)

end split1

section split2
variable {α : Type} [Add α] [Sub α] [Mul α] [Div α] [NatCast α] [OfScientific α]

theorem split2_ok (p : Prod2 α) (k : Nat) (hk : p.lo + k ≤ p.hi) :
    split2 p k = .ok (⟨p.steps, p.lo, p.lo + k⟩, ⟨p.steps, p.lo + k, p.hi⟩) := by
  have : ¬ (p.lo + k > p.hi) := by omega
  simp only [split2, this, if_false]

/-- the two halves of a 2-D split are *syntactically* the sequential values: no arithmetic on scalars -/
theorem split2_collect (p : Prod2 α) (k : Nat) (hk : p.lo + k ≤ p.hi) :
    (⟨p.steps, p.lo, p.lo + k⟩ : Prod2 α).collect ++ (⟨p.steps, p.lo + k, p.hi⟩ : Prod2 α).collect
      = p.collect := by
  have hn : p.hi - p.lo = k + (p.hi - (p.lo + k)) := by omega
  simp only [Prod2.collect]
  rw [hn, List.range_add, List.map_append, List.map_map]
  congr 1
  · congr 2; omega
  · apply List.map_congr_left
    intro j _
    simp only [Function.comp]
    congr 1; omega

end split2

/-! ## split trees -/
section trees1
variable {K : Type} [Field K] [CharZero K]

theorem valid_validC (t : SplitTree) : ∀ n, t.Valid n → t.ValidC n := by
  induction t with
  | leaf => intro _ _; trivial
  | node k l r ihl ihr =>
    intro n h
    obtain ⟨_, h2, hl, hr⟩ := h
    exact ⟨by omega, ihl _ hl, ihr _ hr⟩

theorem leaves1_eq_collect (t : SplitTree) :
    ∀ p : Steps K, t.ValidC p.n → leaves1 p t = some p.collect := by
  induction t with
  | leaf => intro p _; rfl
  | node k l r ihl ihr =>
    intro p h
    obtain ⟨hk, hl, hr⟩ := h
    simp only [leaves1, split1_ok p k hk]
    rw [ihl _ hl, ihr _ hr]
    simp only [split1_collect p k hk]

theorem leafProds1_spec (t : SplitTree) : ∀ p : Steps K, t.ValidC p.n →
    ∃ ps, leafProds1 p t = some ps ∧ leafLens t p.n = some (ps.map (·.n)) ∧
      (ps.map Steps.collect).flatten = p.collect := by
  induction t with
  | leaf => intro p _; exact ⟨[p], rfl, rfl, by simp⟩
  | node k l r ihl ihr =>
    intro p h
    obtain ⟨hk, hl, hr⟩ := h
    obtain ⟨psl, h1, h2, h3⟩ := ihl ⟨p.a, if k = 0 then p.a else p.value (k - 1), k⟩ hl
    obtain ⟨psr, g1, g2, g3⟩ := ihr ⟨p.value k, p.b, p.n - k⟩ hr
    refine ⟨psl ++ psr, ?_, ?_, ?_⟩
    · simp only [leafProds1, split1_ok p k hk, h1, g1]
    · simp only at h2 g2
      simp only [leafLens, hk, if_true, h2, g2, List.map_append]
    · rw [List.map_append, List.flatten_append, h3, g3, split1_collect p k hk]

theorem reduce1_eq_sum {M : Type} [AddMonoid M] (f : K → M) (t : SplitTree) :
    ∀ p : Steps K, t.ValidC p.n → reduce1 (· + ·) 0 f p t = some ((p.collect.map f).sum) := by
  induction t with
  | leaf => intro p _; simp only [reduce1, List.sum_eq_foldl]
  | node k l r ihl ihr =>
    intro p h
    obtain ⟨hk, hl, hr⟩ := h
    simp only [reduce1, split1_ok p k hk]
    rw [ihl _ hl, ihr _ hr]
    simp only [← List.sum_append, ← List.map_append, split1_collect p k hk]

end trees1

section trees2
variable {α : Type} [Add α] [Sub α] [Mul α] [Div α] [NatCast α] [OfScientific α]

theorem leaves2_eq_collect (t : SplitTree) :
    ∀ p : Prod2 α, p.lo ≤ p.hi → t.ValidC (p.hi - p.lo) → leaves2 p t = some p.collect := by
  induction t with
  | leaf => intro p _ _; rfl
  | node k l r ihl ihr =>
    intro p hp h
    obtain ⟨hk, hl, hr⟩ := h
    have hk' : p.lo + k ≤ p.hi := by omega
    simp only [leaves2, split2_ok p k hk']
    rw [ihl ⟨p.steps, p.lo, p.lo + k⟩ (by simp) (by simpa using hl),
      ihr ⟨p.steps, p.lo + k, p.hi⟩ hk' (by
        have : p.hi - (p.lo + k) = p.hi - p.lo - k := by omega
        simpa [this] using hr)]
    simp only [split2_collect p k hk']

theorem leafProds2_spec (t : SplitTree) : ∀ p : Prod2 α, p.lo ≤ p.hi → t.ValidC (p.hi - p.lo) →
    ∃ ps, leafProds2 p t = some ps ∧ leafLens t (p.hi - p.lo) = some (ps.map Prod2.len) ∧
      (ps.map Prod2.collect).flatten = p.collect := by
  induction t with
  | leaf => intro p _ _; exact ⟨[p], rfl, rfl, by simp⟩
  | node k l r ihl ihr =>
    intro p hp h
    obtain ⟨hk, hl, hr⟩ := h
    have hk' : p.lo + k ≤ p.hi := by omega
    have e1 : p.lo + k - p.lo = k := by omega
    have e2 : p.hi - (p.lo + k) = p.hi - p.lo - k := by omega
    obtain ⟨psl, h1, h2, h3⟩ := ihl ⟨p.steps, p.lo, p.lo + k⟩ (by simp) (by simpa using hl)
    obtain ⟨psr, g1, g2, g3⟩ := ihr ⟨p.steps, p.lo + k, p.hi⟩ hk' (by simpa [e2] using hr)
    refine ⟨psl ++ psr, ?_, ?_, ?_⟩
    · simp only [leafProds2, split2_ok p k hk', h1, g1]
    · simp only [e1] at h2
      simp only [e2] at g2
      simp only [leafLens, hk, if_true, h2, g2, List.map_append]
    · rw [List.map_append, List.flatten_append, h3, g3, split2_collect p k hk']

theorem reduce2_eq_sum {M : Type} [AddMonoid M] (f : α × α → M) (t : SplitTree) :
    ∀ p : Prod2 α, p.lo ≤ p.hi → t.ValidC (p.hi - p.lo) →
      reduce2 (· + ·) 0 f p t = some ((p.collect.map f).sum) := by
  induction t with
  | leaf => intro p _ _; simp only [reduce2, List.sum_eq_foldl]
  | node k l r ihl ihr =>
    intro p hp h
    obtain ⟨hk, hl, hr⟩ := h
    have hk' : p.lo + k ≤ p.hi := by omega
    have e2 : p.hi - (p.lo + k) = p.hi - p.lo - k := by omega
    simp only [reduce2, split2_ok p k hk']
    rw [ihl ⟨p.steps, p.lo, p.lo + k⟩ (by simp) (by simpa using hl),
      ihr ⟨p.steps, p.lo + k, p.hi⟩ hk' (by simpa [e2] using hr)]
    simp only [← List.sum_append, ← List.map_append, split2_collect p k hk']

end trees2

end Spdc.Grid
