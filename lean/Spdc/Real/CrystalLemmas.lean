import Spdc.Model.Crystals
import Spdc.Real.Inst
import Mathlib.Tactic.NormNum
import Mathlib.Tactic.Ring
import Mathlib.Tactic.Linarith
import Mathlib.Tactic.Positivity
import Mathlib.Tactic.FieldSimp
import Mathlib.Analysis.SpecialFunctions.Sqrt
import Mathlib.Order.Monotone.Basic
import Mathlib.Order.Interval.Set.Basic
/-!
# Helper definitions and lemmas for C01 (crystal layer at the ℝ instance)
-/
namespace Spdc.Crystals

/-- reference temperature of the linear thermo-optic laws: 20 °C in kelvin -/
noncomputable def Tref : ℝ := 293.15
/-- reference temperature of the LiNb_MgO law (Gayer et al.): 24.5 °C in kelvin -/
noncomputable def TrefMgO : ℝ := 297.65
/-- the statement's temperature range −50 … 200 °C in kelvin -/
noncomputable def Tmin : ℝ := 223.15
noncomputable def Tmax : ℝ := 473.15

open Set

theorem div_lt_div_same_sign {P u v : ℝ} (hP : 0 < P) (huv : u < v) (h : 0 < u * v) :
    P / v < P / u := by
  have hu : u ≠ 0 := by rintro rfl; simp at h
  have hv : v ≠ 0 := by rintro rfl; simp at h
  have : P / u - P / v = P * (v - u) / (u * v) := by field_simp
  have hpos : 0 < P * (v - u) / (u * v) := by
    apply div_pos _ h
    exact mul_pos hP (by linarith)
  linarith

theorem mul_div_sub_eq {B C x : ℝ} (h : x - C ≠ 0) : B * x / (x - C) = B + B * C / (x - C) := by
  field_simp; ring

theorem sq_lt_of_lt {a l l' : ℝ} (ha : 0 < a) (hl : a ≤ l) (h : l < l') : l * l < l' * l' := by
  nlinarith

theorem sq_ge_of_ge {a l : ℝ} (ha : 0 < a) (hl : a ≤ l) : a * a ≤ l * l := by nlinarith

theorem sq_le_of_le {b l : ℝ} (hl0 : 0 ≤ l) (hl : l ≤ b) : l * l ≤ b * b := by nlinarith

/-- shape A: pole below the window -/
theorem sellA_anti {A P C D a b : ℝ} (hP : 0 < P) (hD : 0 ≤ D) (ha : 0 < a) (hC : C < a * a) :
    StrictAntiOn (fun l => sellA A P C D (sqr l)) (Icc a b) := by
  intro l hl l' hl' hll'
  have hx := sq_ge_of_ge ha hl.1
  have hxy := sq_lt_of_lt ha hl.1 hll'
  simp only [sellA, sqr]
  have h1 : P / (l' * l' - C) < P / (l * l - C) :=
    div_lt_div_same_sign hP (by linarith) (mul_pos (by linarith) (by linarith))
  have h2 : D * (l * l) ≤ D * (l' * l') := mul_le_mul_of_nonneg_left hxy.le hD
  linarith

theorem sellP_anti {A P C a b : ℝ} (hP : 0 < P) (ha : 0 < a) (hC : C < a * a) :
    StrictAntiOn (fun l => sellP A P C (sqr l)) (Icc a b) := by
  intro l hl l' hl' hll'
  have hx := sq_ge_of_ge ha hl.1
  have hxy := sq_lt_of_lt ha hl.1 hll'
  simp only [sellP, sqr]
  have h1 : P / (l' * l' - C) < P / (l * l - C) :=
    div_lt_div_same_sign hP (by linarith) (mul_pos (by linarith) (by linarith))
  linarith

theorem sellB_anti {A B C D a b : ℝ} (hB : 0 < B) (hC0 : 0 < C) (hD : 0 ≤ D) (ha : 0 < a)
    (hC : C < a * a) : StrictAntiOn (fun l => sellB A B C D (sqr l)) (Icc a b) := by
  intro l hl l' hl' hll'
  have hx := sq_ge_of_ge ha hl.1
  have hxy := sq_lt_of_lt ha hl.1 hll'
  simp only [sellB, sqr]
  rw [mul_div_sub_eq (by linarith : l * l - C ≠ 0), mul_div_sub_eq (by linarith : l' * l' - C ≠ 0)]
  have h1 : B * C / (l' * l' - C) < B * C / (l * l - C) :=
    div_lt_div_same_sign (mul_pos hB hC0) (by linarith) (mul_pos (by linarith) (by linarith))
  have h2 : D * (l * l) ≤ D * (l' * l') := mul_le_mul_of_nonneg_left hxy.le hD
  linarith

/-- KDP shape: one pole above the window (`C1`), one below (`C2`) -/
theorem sellK_anti {A B C1 P C2 a b : ℝ} (hB : 0 < B) (hC1 : 0 < C1) (hP : 0 < P) (ha : 0 < a)
    (hC2 : C2 < a * a) (hb : b * b < C1) :
    StrictAntiOn (fun l => sellK A B C1 P C2 (sqr l)) (Icc a b) := by
  intro l hl l' hl' hll'
  have hx := sq_ge_of_ge ha hl.1
  have hxy := sq_lt_of_lt ha hl.1 hll'
  have hy : l' * l' ≤ b * b := sq_le_of_le (by linarith [hl'.1]) hl'.2
  simp only [sellK, sqr]
  rw [mul_div_sub_eq (by linarith : l * l - C1 ≠ 0), mul_div_sub_eq (by linarith : l' * l' - C1 ≠ 0)]
  have h1 : B * C1 / (l' * l' - C1) < B * C1 / (l * l - C1) :=
    div_lt_div_same_sign (mul_pos hB hC1) (by linarith) (mul_pos_of_neg_of_neg (by linarith) (by linarith))
  have h2 : P / (l' * l' - C2) < P / (l * l - C2) :=
    div_lt_div_same_sign hP (by linarith) (mul_pos (by linarith) (by linarith))
  linarith

/-- AgGaSe2 shape in `l`: `c1 < a` (pole below), `b < c2` (pole above) -/
theorem sellInv_anti {A B1 c1 B2 c2 a b : ℝ} (hB1 : 0 < B1) (hB2 : 0 < B2) (hc1 : 0 < c1)
    (hc2 : 0 < c2) (ha : c1 < a) (hb : b < c2) :
    StrictAntiOn (fun l => sellInv A B1 c1 B2 c2 l) (Icc a b) := by
  intro l hl l' hl' hll'
  have hl0 : 0 < l := by linarith [hl.1]
  have hl0' : 0 < l' := by linarith
  simp only [sellInv, sqr, lit_one]
  -- u(l) = 1 - (c/l)^2 is increasing in l
  have inc : ∀ c : ℝ, 0 < c → 1 - c / l * (c / l) < 1 - c / l' * (c / l') := by
    intro c hc
    have : c / l' < c / l := div_lt_div_of_pos_left hc hl0 hll'
    have h0 : 0 < c / l' := div_pos hc hl0'
    nlinarith
  have p1 : 0 < 1 - c1 / l * (c1 / l) := by
    have : c1 / l < 1 := by rw [div_lt_one hl0]; linarith [hl.1]
    have h0 : 0 < c1 / l := div_pos hc1 hl0
    nlinarith
  have n2 : 1 - c2 / l' * (c2 / l') < 0 := by
    have : 1 < c2 / l' := by rw [one_lt_div hl0']; linarith [hl'.2]
    nlinarith
  have h1 := div_lt_div_same_sign hB1 (inc c1 hc1) (mul_pos p1 (by linarith [inc c1 hc1]))
  have h2 := div_lt_div_same_sign hB2 (inc c2 hc2)
    (mul_pos_of_neg_of_neg (by linarith [inc c2 hc2]) n2)
  linarith

/-- standard three-pole shape with the third pole unused (`b3 = c3 = 0`) -/
theorem sellStd_anti {A b1 b2 c1 c2 a b : ℝ} (hb1 : 0 < b1) (hb2 : 0 < b2) (hc1 : 0 < c1)
    (hc2 : 0 < c2) (ha : 0 < a) (hC1 : c1 < a * a) (hC2 : b * b < c2) :
    StrictAntiOn (fun l => sellStd A b1 b2 0.0 c1 c2 0.0 (l * l)) (Icc a b) := by
  intro l hl l' hl' hll'
  have hx := sq_ge_of_ge ha hl.1
  have hxy := sq_lt_of_lt ha hl.1 hll'
  have hy : l' * l' ≤ b * b := sq_le_of_le (by linarith [hl'.1]) hl'.2
  have ha2 : 0 < a * a := mul_pos ha ha
  simp only [sellStd, lit_zero, zero_div, add_zero, add_mul]
  rw [div_mul_eq_mul_div, div_mul_eq_mul_div, div_mul_eq_mul_div, div_mul_eq_mul_div,
    mul_div_sub_eq (by linarith : l * l - c1 ≠ 0), mul_div_sub_eq (by linarith : l' * l' - c1 ≠ 0),
    mul_div_sub_eq (by linarith : l * l - c2 ≠ 0), mul_div_sub_eq (by linarith : l' * l' - c2 ≠ 0)]
  have h1 : b1 * c1 / (l' * l' - c1) < b1 * c1 / (l * l - c1) :=
    div_lt_div_same_sign (mul_pos hb1 hc1) (by linarith) (mul_pos (by linarith) (by linarith))
  have h2 : b2 * c2 / (l' * l' - c2) < b2 * c2 / (l * l - c2) :=
    div_lt_div_same_sign (mul_pos hb2 hc2) (by linarith)
      (mul_pos_of_neg_of_neg (by linarith) (by linarith))
  linarith

/-- Gayer shape -/
theorem sellG_anti {a1 a2 a3 a4 a5 a6 b1 b2 b3 b4 F a b : ℝ} (hP1 : 0 < a2 + b2 * F)
    (hP2 : 0 < a4 + b4 * F) (h6 : 0 ≤ a6) (ha : 0 < a) (hC1 : (a3 + b3 * F) * (a3 + b3 * F) < a * a)
    (hC2 : b * b < a5 * a5) :
    StrictAntiOn (fun l => sellG a1 a2 a3 a4 a5 a6 b1 b2 b3 b4 F (sqr l)) (Icc a b) := by
  intro l hl l' hl' hll'
  have hx := sq_ge_of_ge ha hl.1
  have hxy := sq_lt_of_lt ha hl.1 hll'
  have hy : l' * l' ≤ b * b := sq_le_of_le (by linarith [hl'.1]) hl'.2
  simp only [sellG, sqr]
  have h1 := div_lt_div_same_sign (u := l * l - (a3 + b3 * F) * (a3 + b3 * F))
    (v := l' * l' - (a3 + b3 * F) * (a3 + b3 * F)) hP1 (by linarith)
    (mul_pos (by linarith) (by linarith))
  have h2 := div_lt_div_same_sign (u := l * l - a5 * a5) (v := l' * l' - a5 * a5) hP2 (by linarith)
    (mul_pos_of_neg_of_neg (by linarith) (by linarith))
  have h3 : a6 * (l * l) ≤ a6 * (l' * l') := mul_le_mul_of_nonneg_left hxy.le h6
  linarith


/-- window ends in µm -/
noncomputable def lLo : Crystal → ℝ
  | .BBO_1 => 0.189 | .KTP => 0.35 | .BiBO_1 => 0.286 | .LiNbO3_1 => 0.4 | .LiNb_MgO => 0.44
  | .KDP_1 => 0.2 | .AgGaSe2_1 => 1 | .AgGaSe2_2 => 1 | .LiIO3_2 => 0.3 | .LiIO3_1 => 0.3
  | .AgGaS2_1 => 0.5
noncomputable def lHi : Crystal → ℝ
  | .BBO_1 => 3.5 | .KTP => 3.5 | .BiBO_1 => 2.5 | .LiNbO3_1 => 3.4 | .LiNb_MgO => 4
  | .KDP_1 => 1.5 | .AgGaSe2_1 => 13.5 | .AgGaSe2_2 => 13.5 | .LiIO3_2 => 5 | .LiIO3_1 => 5
  | .AgGaS2_1 => 13

theorem microns_windowLo (c : Crystal) : microns (windowLo (α := ℝ) c) = lLo c := by
  cases c <;> norm_num [microns, windowLo, lLo]
theorem microns_windowHi (c : Crystal) : microns (windowHi (α := ℝ) c) = lHi c := by
  cases c <;> norm_num [microns, windowHi, lHi]
theorem microns_strictMono : StrictMono (microns (α := ℝ)) := by
  intro a b h
  simp only [microns]
  exact div_lt_div_of_pos_right h (by norm_num)

/-- a squared-index function that is strictly decreasing on `[a,b]` with values whose square roots
stay in `(1.03, 3.97)` (room for the thermo-optic term, at most 0.03 in modulus) -/
structure GoodOn (f : ℝ → ℝ) (a b : ℝ) : Prop where
  anti : StrictAntiOn f (Icc a b)
  le : a ≤ b
  lo : (1.0609 : ℝ) < f b
  hi : f a < (15.7609 : ℝ)

theorem GoodOn.bounds {f : ℝ → ℝ} {a b l : ℝ} (h : GoodOn f a b) (hl : l ∈ Icc a b) :
    (1.0609 : ℝ) < f l ∧ f l < (15.7609 : ℝ) := by
  constructor
  · rcases eq_or_lt_of_le hl.2 with rfl | hlt
    · exact h.lo
    · exact lt_trans h.lo (h.anti hl ⟨h.le, le_refl b⟩ hlt)
  · rcases eq_or_lt_of_le hl.1 with rfl | hlt
    · exact h.hi
    · exact lt_trans (h.anti ⟨le_refl a, h.le⟩ hl hlt) h.hi

theorem GoodOn.sqrt_bounds {f : ℝ → ℝ} {a b l : ℝ} (h : GoodOn f a b) (hl : l ∈ Icc a b) :
    (1.03 : ℝ) < Real.sqrt (f l) ∧ Real.sqrt (f l) < (3.97 : ℝ) := by
  obtain ⟨h1, h2⟩ := h.bounds hl
  constructor
  · rw [show (1.03 : ℝ) = Real.sqrt (1.03 ^ 2) by rw [Real.sqrt_sq (by norm_num)]]
    exact Real.sqrt_lt_sqrt (by norm_num) (by norm_num at h1 ⊢; linarith)
  · rw [show (3.97 : ℝ) = Real.sqrt (3.97 ^ 2) by rw [Real.sqrt_sq (by norm_num)]]
    exact Real.sqrt_lt_sqrt (by linarith) (by norm_num at h2 ⊢; linarith)

theorem GoodOn.sqrt_anti {f : ℝ → ℝ} {a b : ℝ} (h : GoodOn f a b) :
    StrictAntiOn (fun l => Real.sqrt (f l)) (Icc a b) := by
  intro l hl l' hl' hll'
  exact Real.sqrt_lt_sqrt (by linarith [(h.bounds hl').1]) (h.anti hl hl' hll')

theorem bboNo_good : GoodOn (bboNoSq (α := ℝ)) 0.189 3.5 :=
  ⟨sellA_anti (by norm_num) (by norm_num) (by norm_num) (by norm_num), by norm_num,
   by norm_num [bboNoSq, sellA, sqr], by norm_num [bboNoSq, sellA, sqr]⟩


end Spdc.Crystals
