import Spdc.Model.Crystals
import Spdc.Real.Inst
import Mathlib.Tactic.NormNum
import Mathlib.Tactic.Ring
import Mathlib.Tactic.Linarith
import Mathlib.Tactic.Positivity
import Mathlib.Tactic.FieldSimp
import Mathlib.Analysis.SpecialFunctions.Sqrt
/-!
# Helper definitions and lemmas for C01 (crystal layer at the ℝ instance)
-/
namespace Spdc.Crystals

/-- reference temperature of the linear thermo-optic laws: 20 °C in kelvin -/
noncomputable def Tref : ℝ := 293.15
/-- reference temperature of the LiNb_MgO law (Gayer et al.): 24.5 °C in kelvin -/
noncomputable def TrefMgO : ℝ := 297.65
/-- the statement's temperature range −50 … 200 °C in kelvin -/
noncomputable def Tmin : ℝ := 223.15
noncomputable def Tmax : ℝ := 473.15

end Spdc.Crystals
