import Spdc.Real.HomLemmas
import Spdc.Real.SchmidtLemmas
/-!
# Helper lemmas for C10 — the two-source HOM model at the ℝ instance

Four-fold sums over `Fin n`, reindexing of the flat index range `k = i·n + s`, and the matrix form
`F s i = f[i·n + s]`, `G = FᴴF`.
-/
namespace Spdc.TwoSrcLemmas
open Spdc Spdc.Grid Spdc.Hom Spdc.HomLemmas Finset Matrix

/-! ### four-fold sums -/
section S4
variable {M : Type*} [AddCommMonoid M] {n : ℕ}

/-- `Σ_a Σ_b Σ_c Σ_d g a b c d` over `Fin n` -/
def S4 (g : Fin n → Fin n → Fin n → Fin n → M) : M := ∑ a, ∑ b, ∑ c, ∑ d, g a b c d

theorem S4_swap12 (g : Fin n → Fin n → Fin n → Fin n → M) :
    S4 g = S4 (fun a b c d => g b a c d) := Finset.sum_comm

theorem S4_swap23 (g : Fin n → Fin n → Fin n → Fin n → M) :
    S4 g = S4 (fun a b c d => g a c b d) := by
  unfold S4; apply Finset.sum_congr rfl; intro a _; exact Finset.sum_comm

theorem S4_swap34 (g : Fin n → Fin n → Fin n → Fin n → M) :
    S4 g = S4 (fun a b c d => g a b d c) := by
  unfold S4; apply Finset.sum_congr rfl; intro a _; apply Finset.sum_congr rfl; intro b _
  exact Finset.sum_comm

theorem S4_swap24 (g : Fin n → Fin n → Fin n → Fin n → M) :
    S4 g = S4 (fun a b c d => g a d c b) :=
  (S4_swap23 g).trans ((S4_swap34 _).trans (S4_swap23 _))

theorem S4_swap13 (g : Fin n → Fin n → Fin n → Fin n → M) :
    S4 g = S4 (fun a b c d => g c b a d) :=
  (S4_swap12 g).trans ((S4_swap23 _).trans (S4_swap12 _))

theorem S4_congr {g h : Fin n → Fin n → Fin n → Fin n → M} (e : ∀ a b c d, g a b c d = h a b c d) :
    S4 g = S4 h := by
  unfold S4
  exact Finset.sum_congr rfl fun a _ => Finset.sum_congr rfl fun b _ =>
    Finset.sum_congr rfl fun c _ => Finset.sum_congr rfl fun d _ => e a b c d

theorem S4_add (g h : Fin n → Fin n → Fin n → Fin n → M) :
    S4 (fun a b c d => g a b c d + h a b c d) = S4 g + S4 h := by
  unfold S4; simp only [Finset.sum_add_distrib]
end S4

section S4R
variable {R : Type*} [CommSemiring R] {n : ℕ}

theorem S4_factor (u v : Fin n → Fin n → R) :
    S4 (fun a b c d => u a b * v c d) = (∑ a, ∑ b, u a b) * (∑ c, ∑ d, v c d) := by
  unfold S4; simp only [← Finset.mul_sum, ← Finset.sum_mul]

/-- pattern of the `ss` exchange term: `u(a,d)·v(c,b)` -/
theorem S4_factor_ss (u v : Fin n → Fin n → R) :
    S4 (fun a b c d => u a d * v c b) = (∑ a, ∑ b, u a b) * (∑ c, ∑ d, v c d) := by
  rw [S4_swap24]; exact S4_factor u v

/-- pattern of the `ii` exchange term: `u(c,b)·v(a,d)` -/
theorem S4_factor_ii (u v : Fin n → Fin n → R) :
    S4 (fun a b c d => u c b * v a d) = (∑ a, ∑ b, u a b) * (∑ c, ∑ d, v c d) := by
  rw [S4_swap13]; exact S4_factor u v

/-- pattern of the `si` exchange term: `u(a,c)·v(b,d)` -/
theorem S4_factor_si (u v : Fin n → Fin n → R) :
    S4 (fun a b c d => u a c * v b d) = (∑ a, ∑ b, u a b) * (∑ c, ∑ d, v c d) := by
  rw [S4_swap23]; exact S4_factor u v
end S4R

theorem S4_mul_left {n : ℕ} (c : ℝ) (g : Fin n → Fin n → Fin n → Fin n → ℝ) :
    S4 (fun a b c' d => c * g a b c' d) = c * S4 g := by
  unfold S4; simp only [Finset.mul_sum]

theorem S4_le {n : ℕ} {g h : Fin n → Fin n → Fin n → Fin n → ℝ} (e : ∀ a b c d, g a b c d ≤ h a b c d) :
    S4 g ≤ S4 h := by
  unfold S4
  exact Finset.sum_le_sum fun a _ => Finset.sum_le_sum fun b _ =>
    Finset.sum_le_sum fun c _ => Finset.sum_le_sum fun d _ => e a b c d

theorem S4_nonneg {n : ℕ} {g : Fin n → Fin n → Fin n → Fin n → ℝ} (e : ∀ a b c d, 0 ≤ g a b c d) :
    0 ≤ S4 g := by
  unfold S4
  exact Finset.sum_nonneg fun a _ => Finset.sum_nonneg fun b _ =>
    Finset.sum_nonneg fun c _ => Finset.sum_nonneg fun d _ => e a b c d

/-! ### the flat index range as `Fin n × Fin n` -/

theorem sum_range_sq {M : Type*} [AddCommMonoid M] (n : ℕ) (h : ℕ → M) :
    ∑ k ∈ Finset.range (n * n), h k = ∑ i : Fin n, ∑ s : Fin n, h (i.val * n + s.val) := by
  rw [Finset.sum_range, ← (finProdFinEquiv (m := n) (n := n)).sum_comp, Fintype.sum_prod_type]
  apply Finset.sum_congr rfl; intro i _
  apply Finset.sum_congr rfl; intro s _
  congr 1
  simp [finProdFinEquiv, Nat.mul_comm, Nat.add_comm]

theorem idx_mod {n : ℕ} (i s : Fin n) : (i.val * n + s.val) % n = s.val := by
  rw [Nat.mul_comm, Nat.mul_add_mod, Nat.mod_eq_of_lt s.isLt]

theorem idx_div {n : ℕ} (i s : Fin n) : (i.val * n + s.val) / n = i.val := by
  have hn : 0 < n := Nat.pos_of_ne_zero (by intro h; subst h; exact i.elim0)
  rw [Nat.mul_comm, Nat.mul_add_div hn, Nat.div_eq_of_lt s.isLt, Nat.add_zero]

/-! ### component sums of the `Vector3` fold -/

theorem v3sum_foldl (l : List (ℝ × ℝ × ℝ)) (acc : ℝ × ℝ × ℝ) :
    l.foldl v3add acc =
      (acc.1 + (l.map (·.1)).sum, acc.2.1 + (l.map (·.2.1)).sum, acc.2.2 + (l.map (·.2.2)).sum) := by
  induction l generalizing acc with
  | nil => simp
  | cons a l ih => simp [List.foldl_cons, ih, v3add, add_assoc]

theorem v3sum_eq (l : List (ℝ × ℝ × ℝ)) :
    v3sum l = ((l.map (·.1)).sum, (l.map (·.2.1)).sum, (l.map (·.2.2)).sum) := by
  unfold v3sum; rw [v3sum_foldl]; simp [v3zero, lit_zero]

theorem list_sum_map_range (n : ℕ) (t : ℕ → ℝ) :
    ((List.range n).map t).sum = ∑ k ∈ Finset.range n, t k := by
  rw [← sumList_eq]; exact sumList_map_range n t

/-- the un-normalised sums as `Finset` double sums over the two flat index ranges -/
theorem twoSum_eq (cols : ℕ) (r1 r2 : Steps2D ℝ) (G : TwoSrc ℝ) (δ : ℝ) :
    twoSum cols r1 r2 G δ =
      (∑ k1 ∈ Finset.range r1.len, ∑ k2 ∈ Finset.range r2.len, (twoTerm cols r1 r2 G δ k1 k2).1,
       ∑ k1 ∈ Finset.range r1.len, ∑ k2 ∈ Finset.range r2.len, (twoTerm cols r1 r2 G δ k1 k2).2.1,
       ∑ k1 ∈ Finset.range r1.len, ∑ k2 ∈ Finset.range r2.len, (twoTerm cols r1 r2 G δ k1 k2).2.2) := by
  unfold twoSum
  rw [v3sum_eq]
  simp only [List.map_map, Function.comp_def, v3sum_eq, list_sum_map_range]

/-! ### the summands over ℂ -/

/-- matrix form of a flat array: `F s i = f[i·n + s]` (column = signal index, row = idler index) -/
noncomputable def Fmat (f : Array (Cx ℝ)) (n : ℕ) : Matrix (Fin n) (Fin n) ℂ :=
  fun s i => (at' f (i.val * n + s.val)).toC

theorem interfSq_eq (a b : Cx ℝ) (δ dω : ℝ) :
    interfSq a b δ dω =
      Complex.normSq (a.toC - b.toC * Complex.exp (((δ * dω : ℝ) : ℂ) * Complex.I)) := by
  unfold interfSq
  rw [Cx.normSq_eq, Cx.toC_sub', Cx.toC_mul', toC_fromPolar]
  simp only [lit_one, div_one, Complex.ofReal_one, one_mul]

/-- the three summands at `k1 = i1·n + s1`, `k2 = i2·n + s2` in matrix form -/
theorem twoTerm_eq {n : ℕ} (r1 r2 : Steps2D ℝ) (G : TwoSrc ℝ) (δ : ℝ) (i1 s1 i2 s2 : Fin n) :
    twoTerm n r1 r2 G δ (i1.val * n + s1.val) (i2.val * n + s2.val) =
      (Complex.normSq (Fmat G.first_s1_i1 n s1 i1 * Fmat G.second_s2_i2 n s2 i2 -
          Fmat G.first_s2_i1 n s2 i1 * Fmat G.second_s1_i2 n s1 i2 *
            Complex.exp (((δ * ((r2.value (i2.val * n + s2.val)).1 -
              (r1.value (i1.val * n + s1.val)).1) : ℝ) : ℂ) * Complex.I)),
       Complex.normSq (Fmat G.first_s1_i1 n s1 i1 * Fmat G.second_s2_i2 n s2 i2 -
          Fmat G.first_s1_i2 n s1 i2 * Fmat G.second_s2_i1 n s2 i1 *
            Complex.exp (((δ * ((r2.value (i2.val * n + s2.val)).2 -
              (r1.value (i1.val * n + s1.val)).2) : ℝ) : ℂ) * Complex.I)),
       Complex.normSq (Fmat G.first_s1_i1 n s1 i1 * Fmat G.second_s2_i2 n s2 i2 -
          Fmat G.first_i2_i1 n i2 i1 * Fmat G.second_s2_s1 n s2 s1 *
            Complex.exp (((δ * ((r2.value (i2.val * n + s2.val)).2 -
              (r1.value (i1.val * n + s1.val)).1) : ℝ) : ℂ) * Complex.I))) := by
  simp only [twoTerm, get2dIndices, idx_mod, idx_div, idx1, interfSq_eq, Cx.toC_mul', Fmat]

/-! ### the sums as four-fold sums over `Fin n` -/

theorem twoSum_S4 {n : ℕ} (r1 r2 : Steps2D ℝ) (h1 : r1.len = n * n) (h2 : r2.len = n * n)
    (G : TwoSrc ℝ) (δ : ℝ) :
    twoSum n r1 r2 G δ =
      (S4 (fun i1 s1 i2 s2 : Fin n =>
          (twoTerm n r1 r2 G δ (i1.val * n + s1.val) (i2.val * n + s2.val)).1),
       S4 (fun i1 s1 i2 s2 : Fin n =>
          (twoTerm n r1 r2 G δ (i1.val * n + s1.val) (i2.val * n + s2.val)).2.1),
       S4 (fun i1 s1 i2 s2 : Fin n =>
          (twoTerm n r1 r2 G δ (i1.val * n + s1.val) (i2.val * n + s2.val)).2.2)) := by
  rw [twoSum_eq, h1, h2]
  simp only [S4, sum_range_sq n]

theorem normSq_sub_mul_le (a b : ℂ) (θ : ℝ) :
    Complex.normSq (a - b * Complex.exp ((θ : ℂ) * Complex.I)) ≤
      2 * Complex.normSq a + 2 * Complex.normSq b := by
  have hp : Complex.normSq (b * Complex.exp ((θ : ℂ) * Complex.I)) = Complex.normSq b := by
    rw [map_mul, Complex.normSq_eq_norm_sq (Complex.exp _), Complex.norm_exp_ofReal_mul_I]; ring
  have key : ∀ x y : ℂ, Complex.normSq (x - y) ≤ 2 * Complex.normSq x + 2 * Complex.normSq y := by
    intro x y
    have h1 : Complex.normSq (x - y) + Complex.normSq (x + y) =
        2 * Complex.normSq x + 2 * Complex.normSq y := by
      simp only [Complex.normSq_apply, Complex.sub_re, Complex.sub_im, Complex.add_re, Complex.add_im]
      ring
    have h2 := Complex.normSq_nonneg (x + y)
    linarith
  calc Complex.normSq (a - b * Complex.exp ((θ : ℂ) * Complex.I))
      ≤ 2 * Complex.normSq a + 2 * Complex.normSq (b * Complex.exp ((θ : ℂ) * Complex.I)) := key _ _
    _ = 2 * Complex.normSq a + 2 * Complex.normSq b := by rw [hp]

/-- `Σ_i Σ_s |F s i|²` is the model's `jsi_norm` -/
theorem sum_normSq_Fmat (f : Array (Cx ℝ)) (n : ℕ) (hf : f.size = n * n) :
    ∑ i : Fin n, ∑ s : Fin n, Complex.normSq (Fmat f n s i) = jsiNorm f := by
  rw [jsiNorm_eq, hf, sum_range_sq]; rfl

/-- generic channel estimate: `0 ≤ Σ|a − b·p|² ≤ 2 Σ|a|² + 2 Σ|b|²` -/
theorem S4_interf_bounds {n : ℕ} (A B : Fin n → Fin n → Fin n → Fin n → ℂ)
    (θ : Fin n → Fin n → Fin n → Fin n → ℝ) :
    0 ≤ S4 (fun a b c d => Complex.normSq (A a b c d - B a b c d *
        Complex.exp (((θ a b c d : ℝ) : ℂ) * Complex.I))) ∧
    S4 (fun a b c d => Complex.normSq (A a b c d - B a b c d *
        Complex.exp (((θ a b c d : ℝ) : ℂ) * Complex.I))) ≤
      2 * S4 (fun a b c d => Complex.normSq (A a b c d)) +
      2 * S4 (fun a b c d => Complex.normSq (B a b c d)) := by
  constructor
  · exact S4_nonneg fun _ _ _ _ => Complex.normSq_nonneg _
  · rw [← S4_mul_left, ← S4_mul_left, ← S4_add]
    exact S4_le fun a b c d => normSq_sub_mul_le _ _ _

theorem rate_channel_bounds {S N NB : ℝ} (hN : 0 < N) (h0 : 0 ≤ S) (h1 : S ≤ 2 * N + 2 * NB) :
    0 ≤ S / 4 / N ∧ S / 4 / N ≤ 1 / 2 * (1 + NB / N) := by
  constructor
  · positivity
  · rw [div_div, div_le_iff₀ (by positivity)]
    have : 1 / 2 * (1 + NB / N) * (4 * N) = 2 * N + 2 * NB := by field_simp; ring
    rw [this]; exact h1

/-! ### bounds of the three channels (any eight grids, any delay) -/

theorem twoRate_eq {n : ℕ} (r1 r2 : Steps2D ℝ) (G : TwoSrc ℝ) (δ : ℝ) :
    twoRate n r1 r2 G δ =
      ((twoSum n r1 r2 G δ).1 / 4 / (jsiNorm G.first_s1_i1 * jsiNorm G.second_s2_i2),
       (twoSum n r1 r2 G δ).2.1 / 4 / (jsiNorm G.first_s1_i1 * jsiNorm G.second_s2_i2),
       (twoSum n r1 r2 G δ).2.2 / 4 / (jsiNorm G.first_s1_i1 * jsiNorm G.second_s2_i2)) := by
  simp only [twoRate, lit_four]

theorem S4_a_term {n : ℕ} (f1 f2 : Array (Cx ℝ)) (h1 : f1.size = n * n) (h2 : f2.size = n * n) :
    S4 (fun i1 s1 i2 s2 : Fin n => Complex.normSq (Fmat f1 n s1 i1 * Fmat f2 n s2 i2)) =
      jsiNorm f1 * jsiNorm f2 := by
  simp only [map_mul]
  rw [S4_factor (fun i s => Complex.normSq (Fmat f1 n s i)) (fun i s => Complex.normSq (Fmat f2 n s i)),
    sum_normSq_Fmat f1 n h1, sum_normSq_Fmat f2 n h2]

theorem S4_b_ss {n : ℕ} (f1 f2 : Array (Cx ℝ)) (h1 : f1.size = n * n) (h2 : f2.size = n * n) :
    S4 (fun i1 s1 i2 s2 : Fin n => Complex.normSq (Fmat f1 n s2 i1 * Fmat f2 n s1 i2)) =
      jsiNorm f1 * jsiNorm f2 := by
  simp only [map_mul]
  rw [S4_factor_ss (fun i s => Complex.normSq (Fmat f1 n s i)) (fun i s => Complex.normSq (Fmat f2 n s i)),
    sum_normSq_Fmat f1 n h1, sum_normSq_Fmat f2 n h2]

theorem S4_b_ii {n : ℕ} (f1 f2 : Array (Cx ℝ)) (h1 : f1.size = n * n) (h2 : f2.size = n * n) :
    S4 (fun i1 s1 i2 s2 : Fin n => Complex.normSq (Fmat f1 n s1 i2 * Fmat f2 n s2 i1)) =
      jsiNorm f1 * jsiNorm f2 := by
  simp only [map_mul]
  rw [S4_factor_ii (fun i s => Complex.normSq (Fmat f1 n s i)) (fun i s => Complex.normSq (Fmat f2 n s i)),
    sum_normSq_Fmat f1 n h1, sum_normSq_Fmat f2 n h2]

theorem S4_b_si {n : ℕ} (f1 f2 : Array (Cx ℝ)) (h1 : f1.size = n * n) (h2 : f2.size = n * n) :
    S4 (fun i1 s1 i2 s2 : Fin n => Complex.normSq (Fmat f1 n i2 i1 * Fmat f2 n s2 s1)) =
      jsiNorm f1 * jsiNorm f2 := by
  simp only [map_mul]
  have := S4_factor_si (fun i s : Fin n => Complex.normSq (Fmat f1 n s i))
    (fun i s : Fin n => Complex.normSq (Fmat f2 n s i))
  rw [sum_normSq_Fmat f1 n h1, sum_normSq_Fmat f2 n h2] at this
  exact this

/-- all three channels: `0 ≤ rate ≤ ½(1 + N_b/(N₁N₂))` with `N_b` the product of the norms of the
two grids entering the exchange term of that channel -/
theorem twoRate_bounds {n : ℕ} (r1 r2 : Steps2D ℝ) (h1 : r1.len = n * n) (h2 : r2.len = n * n)
    (G : TwoSrc ℝ)
    (z1 : G.first_s1_i1.size = n * n) (z2 : G.second_s2_i2.size = n * n)
    (z3 : G.first_s2_i1.size = n * n) (z4 : G.second_s1_i2.size = n * n)
    (z5 : G.first_s1_i2.size = n * n) (z6 : G.second_s2_i1.size = n * n)
    (z7 : G.first_i2_i1.size = n * n) (z8 : G.second_s2_s1.size = n * n)
    (hN : 0 < jsiNorm G.first_s1_i1 * jsiNorm G.second_s2_i2) (δ : ℝ) :
    let N := jsiNorm G.first_s1_i1 * jsiNorm G.second_s2_i2
    (0 ≤ (twoRate n r1 r2 G δ).1 ∧
      (twoRate n r1 r2 G δ).1 ≤ 1 / 2 * (1 + jsiNorm G.first_s2_i1 * jsiNorm G.second_s1_i2 / N)) ∧
    (0 ≤ (twoRate n r1 r2 G δ).2.1 ∧
      (twoRate n r1 r2 G δ).2.1 ≤ 1 / 2 * (1 + jsiNorm G.first_s1_i2 * jsiNorm G.second_s2_i1 / N)) ∧
    (0 ≤ (twoRate n r1 r2 G δ).2.2 ∧
      (twoRate n r1 r2 G δ).2.2 ≤ 1 / 2 * (1 + jsiNorm G.first_i2_i1 * jsiNorm G.second_s2_s1 / N)) := by
  intro N
  rw [twoRate_eq, twoSum_S4 r1 r2 h1 h2]
  simp only [twoTerm_eq]
  refine ⟨?_, ?_, ?_⟩
  · have h := S4_interf_bounds
      (fun i1 s1 i2 s2 : Fin n => Fmat G.first_s1_i1 n s1 i1 * Fmat G.second_s2_i2 n s2 i2)
      (fun i1 s1 i2 s2 : Fin n => Fmat G.first_s2_i1 n s2 i1 * Fmat G.second_s1_i2 n s1 i2)
      (fun i1 s1 i2 s2 : Fin n => δ * ((r2.value (i2.val * n + s2.val)).1 -
              (r1.value (i1.val * n + s1.val)).1))
    rw [S4_a_term _ _ z1 z2, S4_b_ss _ _ z3 z4] at h
    exact rate_channel_bounds hN h.1 h.2
  · have h := S4_interf_bounds
      (fun i1 s1 i2 s2 : Fin n => Fmat G.first_s1_i1 n s1 i1 * Fmat G.second_s2_i2 n s2 i2)
      (fun i1 s1 i2 s2 : Fin n => Fmat G.first_s1_i2 n s1 i2 * Fmat G.second_s2_i1 n s2 i1)
      (fun i1 s1 i2 s2 : Fin n => δ * ((r2.value (i2.val * n + s2.val)).2 -
              (r1.value (i1.val * n + s1.val)).2))
    rw [S4_a_term _ _ z1 z2, S4_b_ii _ _ z5 z6] at h
    exact rate_channel_bounds hN h.1 h.2
  · have h := S4_interf_bounds
      (fun i1 s1 i2 s2 : Fin n => Fmat G.first_s1_i1 n s1 i1 * Fmat G.second_s2_i2 n s2 i2)
      (fun i1 s1 i2 s2 : Fin n => Fmat G.first_i2_i1 n i2 i1 * Fmat G.second_s2_s1 n s2 s1)
      (fun i1 s1 i2 s2 : Fin n => δ * ((r2.value (i2.val * n + s2.val)).2 -
              (r1.value (i1.val * n + s1.val)).1))
    rw [S4_a_term _ _ z1 z2, S4_b_si _ _ z7 z8] at h
    exact rate_channel_bounds hN h.1 h.2

/-! ### identical sources at zero delay: the trace identity -/

/-- the eight grids of two identical sources on one range: the six signal×idler grids coincide -/
def sixEq (f P Q : Array (Cx ℝ)) : TwoSrc ℝ := ⟨f, f, f, f, f, f, P, Q⟩

theorem S4_trace {n : ℕ} (F : Matrix (Fin n) (Fin n) ℂ) :
    S4 (fun i1 s1 i2 s2 : Fin n => F s1 i1 * F s2 i2 * (starRingEnd ℂ) (F s2 i1 * F s1 i2)) =
      ((Fᴴ * F) * (Fᴴ * F)).trace := by
  have h : ((Fᴴ * F) * (Fᴴ * F)).trace =
      S4 (fun i1 i2 s s' : Fin n =>
        (starRingEnd ℂ) (F s i1) * F s i2 * ((starRingEnd ℂ) (F s' i2) * F s' i1)) := by
    simp only [Matrix.trace, Matrix.diag, Matrix.mul_apply, Matrix.conjTranspose_apply, S4,
      Finset.sum_mul_sum]
    rfl
  rw [h]
  conv_rhs => rw [S4_swap24, S4_swap34]
  apply S4_congr; intro a b c d
  simp only [map_mul]; ring

theorem S4_re {n : ℕ} (g : Fin n → Fin n → Fin n → Fin n → ℂ) :
    (S4 g).re = S4 (fun a b c d => (g a b c d).re) := by
  simp only [S4, Complex.re_sum]

theorem trace_gram_re (f : Array (Cx ℝ)) (n : ℕ) (hf : f.size = n * n) :
    ((Fmat f n)ᴴ * Fmat f n).trace = ((jsiNorm f : ℝ) : ℂ) := by
  rw [← sum_normSq_Fmat f n hf]
  simp only [Matrix.trace, Matrix.diag, Matrix.mul_apply, Matrix.conjTranspose_apply]
  push_cast
  apply Finset.sum_congr rfl; intro i _
  apply Finset.sum_congr rfl; intro s _
  rw [Complex.normSq_eq_conj_mul_self]; rfl

theorem S4_sub_two_mul {n : ℕ} (g h k : Fin n → Fin n → Fin n → Fin n → ℝ) :
    S4 (fun a b c d => g a b c d + h a b c d - 2 * k a b c d) = S4 g + S4 h - 2 * S4 k := by
  unfold S4
  simp only [Finset.sum_sub_distrib, Finset.sum_add_distrib, Finset.mul_sum]

/-- zero delay, six equal grids: `Σ|a − b|² = 2N² − 2 Re tr(G²)` for both `ss` and `ii` -/
theorem twoSum_zero_delay {n : ℕ} (r1 r2 : Steps2D ℝ) (h1 : r1.len = n * n) (h2 : r2.len = n * n)
    (f P Q : Array (Cx ℝ)) (hf : f.size = n * n) :
    (twoSum n r1 r2 (sixEq f P Q) 0).1 = 2 * (jsiNorm f * jsiNorm f) -
        2 * ((((Fmat f n)ᴴ * Fmat f n) * ((Fmat f n)ᴴ * Fmat f n)).trace).re ∧
    (twoSum n r1 r2 (sixEq f P Q) 0).2.1 = (twoSum n r1 r2 (sixEq f P Q) 0).1 := by
  rw [twoSum_S4 r1 r2 h1 h2]
  simp only [twoTerm_eq, sixEq, zero_mul, Complex.ofReal_zero, Complex.exp_zero, mul_one]
  constructor
  · rw [← S4_trace, S4_re]
    have e : ∀ i1 s1 i2 s2 : Fin n,
        Complex.normSq (Fmat f n s1 i1 * Fmat f n s2 i2 - Fmat f n s2 i1 * Fmat f n s1 i2) =
          Complex.normSq (Fmat f n s1 i1 * Fmat f n s2 i2) +
          Complex.normSq (Fmat f n s2 i1 * Fmat f n s1 i2) -
          2 * (Fmat f n s1 i1 * Fmat f n s2 i2 *
            (starRingEnd ℂ) (Fmat f n s2 i1 * Fmat f n s1 i2)).re := by
      intro i1 s1 i2 s2; exact Complex.normSq_sub _ _
    rw [S4_congr e, S4_sub_two_mul, S4_a_term f f hf hf, S4_b_ss f f hf hf]
    ring
  · apply S4_congr; intro i1 s1 i2 s2
    rw [mul_comm (Fmat f n s1 i2) (Fmat f n s2 i1)]

end Spdc.TwoSrcLemmas
