import Spdc.Real.CrystalLemmas
/-! # C01 helper lemmas: every per-axis squared-index function is strictly decreasing on its window, with bounds -/
namespace Spdc.Crystals
open Set
theorem bboNe_good : GoodOn (bboNeSq (α := ℝ)) 0.189 3.5 :=
  ⟨sellA_anti (by norm_num) (by norm_num) (by norm_num) (by norm_num), by norm_num,
   by norm_num [bboNeSq, sellA, sqr, lit_one, lit_zero], by norm_num [bboNeSq, sellA, sqr, lit_one, lit_zero]⟩
theorem biboNx_good : GoodOn (biboNxSq (α := ℝ)) 0.286 2.5 :=
  ⟨sellA_anti (by norm_num) (by norm_num) (by norm_num) (by norm_num), by norm_num,
   by norm_num [biboNxSq, sellA, sqr, lit_one, lit_zero], by norm_num [biboNxSq, sellA, sqr, lit_one, lit_zero]⟩
theorem biboNy_good : GoodOn (biboNySq (α := ℝ)) 0.286 2.5 :=
  ⟨sellA_anti (by norm_num) (by norm_num) (by norm_num) (by norm_num), by norm_num,
   by norm_num [biboNySq, sellA, sqr, lit_one, lit_zero], by norm_num [biboNySq, sellA, sqr, lit_one, lit_zero]⟩
theorem biboNz_good : GoodOn (biboNzSq (α := ℝ)) 0.286 2.5 :=
  ⟨sellA_anti (by norm_num) (by norm_num) (by norm_num) (by norm_num), by norm_num,
   by norm_num [biboNzSq, sellA, sqr, lit_one, lit_zero], by norm_num [biboNzSq, sellA, sqr, lit_one, lit_zero]⟩
theorem lnNo_good : GoodOn (lnNoSq (α := ℝ)) 0.4 3.4 :=
  ⟨sellA_anti (by norm_num) (by norm_num) (by norm_num) (by norm_num), by norm_num,
   by norm_num [lnNoSq, sellA, sqr, lit_one, lit_zero], by norm_num [lnNoSq, sellA, sqr, lit_one, lit_zero]⟩
theorem lnNe_good : GoodOn (lnNeSq (α := ℝ)) 0.4 3.4 :=
  ⟨sellA_anti (by norm_num) (by norm_num) (by norm_num) (by norm_num), by norm_num,
   by norm_num [lnNeSq, sellA, sqr, lit_one, lit_zero], by norm_num [lnNeSq, sellA, sqr, lit_one, lit_zero]⟩
theorem ktpNx_good : GoodOn (ktpNxSq (α := ℝ)) 0.35 3.5 :=
  ⟨sellB_anti (by norm_num) (by norm_num) (by norm_num) (by norm_num) (by norm_num), by norm_num,
   by norm_num [ktpNxSq, sellB, sqr, lit_one, lit_zero], by norm_num [ktpNxSq, sellB, sqr, lit_one, lit_zero]⟩
theorem ktpNyLo_good : GoodOn (ktpNySqLo (α := ℝ)) 0.35 3.5 :=
  ⟨sellB_anti (by norm_num) (by norm_num) (by norm_num) (by norm_num) (by norm_num), by norm_num,
   by norm_num [ktpNySqLo, sellB, sqr, lit_one, lit_zero], by norm_num [ktpNySqLo, sellB, sqr, lit_one, lit_zero]⟩
theorem ktpNyHi_good : GoodOn (ktpNySqHi (α := ℝ)) 0.35 3.5 :=
  ⟨sellB_anti (by norm_num) (by norm_num) (by norm_num) (by norm_num) (by norm_num), by norm_num,
   by norm_num [ktpNySqHi, sellB, sqr, lit_one, lit_zero], by norm_num [ktpNySqHi, sellB, sqr, lit_one, lit_zero]⟩
theorem ktpNz_good : GoodOn (ktpNzSq (α := ℝ)) 0.35 3.5 :=
  ⟨sellB_anti (by norm_num) (by norm_num) (by norm_num) (by norm_num) (by norm_num), by norm_num,
   by norm_num [ktpNzSq, sellB, sqr, lit_one, lit_zero], by norm_num [ktpNzSq, sellB, sqr, lit_one, lit_zero]⟩
theorem kdpNo_good : GoodOn (kdpNoSq (α := ℝ)) 0.2 1.5 :=
  ⟨sellK_anti (by norm_num) (by norm_num) (by norm_num) (by norm_num) (by norm_num) (by norm_num), by norm_num,
   by norm_num [kdpNoSq, sellK, sqr, lit_one, lit_zero], by norm_num [kdpNoSq, sellK, sqr, lit_one, lit_zero]⟩
theorem kdpNe_good : GoodOn (kdpNeSq (α := ℝ)) 0.2 1.5 :=
  ⟨sellK_anti (by norm_num) (by norm_num) (by norm_num) (by norm_num) (by norm_num) (by norm_num), by norm_num,
   by norm_num [kdpNeSq, sellK, sqr, lit_one, lit_zero], by norm_num [kdpNeSq, sellK, sqr, lit_one, lit_zero]⟩
theorem ags1No_good : GoodOn (ags1NoSq (α := ℝ)) 1 13.5 :=
  ⟨sellInv_anti (by norm_num) (by norm_num) (by norm_num) (by norm_num) (by norm_num) (by norm_num), by norm_num,
   by norm_num [ags1NoSq, sellInv, sqr, lit_one, lit_zero], by norm_num [ags1NoSq, sellInv, sqr, lit_one, lit_zero]⟩
theorem ags1Ne_good : GoodOn (ags1NeSq (α := ℝ)) 1 13.5 :=
  ⟨sellInv_anti (by norm_num) (by norm_num) (by norm_num) (by norm_num) (by norm_num) (by norm_num), by norm_num,
   by norm_num [ags1NeSq, sellInv, sqr, lit_one, lit_zero], by norm_num [ags1NeSq, sellInv, sqr, lit_one, lit_zero]⟩
theorem ags2No_good : GoodOn (ags2NoSq (α := ℝ)) 1 13.5 :=
  ⟨sellInv_anti (by norm_num) (by norm_num) (by norm_num) (by norm_num) (by norm_num) (by norm_num), by norm_num,
   by norm_num [ags2NoSq, sellInv, sqr, lit_one, lit_zero], by norm_num [ags2NoSq, sellInv, sqr, lit_one, lit_zero]⟩
theorem ags2Ne_good : GoodOn (ags2NeSq (α := ℝ)) 1 13.5 :=
  ⟨sellInv_anti (by norm_num) (by norm_num) (by norm_num) (by norm_num) (by norm_num) (by norm_num), by norm_num,
   by norm_num [ags2NeSq, sellInv, sqr, lit_one, lit_zero], by norm_num [ags2NeSq, sellInv, sqr, lit_one, lit_zero]⟩
theorem lio2No_good : GoodOn (lio2NoSq (α := ℝ)) 0.3 5 :=
  ⟨sellP_anti (by norm_num) (by norm_num) (by norm_num), by norm_num,
   by norm_num [lio2NoSq, sellP, sqr, lit_one, lit_zero], by norm_num [lio2NoSq, sellP, sqr, lit_one, lit_zero]⟩
theorem lio2Ne_good : GoodOn (lio2NeSq (α := ℝ)) 0.3 5 :=
  ⟨sellP_anti (by norm_num) (by norm_num) (by norm_num), by norm_num,
   by norm_num [lio2NeSq, sellP, sqr, lit_one, lit_zero], by norm_num [lio2NeSq, sellP, sqr, lit_one, lit_zero]⟩
theorem lio1No_good : GoodOn (lio1NoSq (α := ℝ)) 0.3 5 :=
  ⟨sellStd_anti (by norm_num) (by norm_num) (by norm_num) (by norm_num) (by norm_num) (by norm_num) (by norm_num), by norm_num,
   by norm_num [lio1NoSq, sellStd, sqr, lit_one, lit_zero], by norm_num [lio1NoSq, sellStd, sqr, lit_one, lit_zero]⟩
theorem lio1Ne_good : GoodOn (lio1NeSq (α := ℝ)) 0.3 5 :=
  ⟨sellStd_anti (by norm_num) (by norm_num) (by norm_num) (by norm_num) (by norm_num) (by norm_num) (by norm_num), by norm_num,
   by norm_num [lio1NeSq, sellStd, sqr, lit_one, lit_zero], by norm_num [lio1NeSq, sellStd, sqr, lit_one, lit_zero]⟩
theorem agsNo_good : GoodOn (agsNoSq (α := ℝ)) 0.5 13 :=
  ⟨sellStd_anti (by norm_num) (by norm_num) (by norm_num) (by norm_num) (by norm_num) (by norm_num) (by norm_num), by norm_num,
   by norm_num [agsNoSq, sellStd, sqr, lit_one, lit_zero], by norm_num [agsNoSq, sellStd, sqr, lit_one, lit_zero]⟩
theorem agsNe_good : GoodOn (agsNeSq (α := ℝ)) 0.5 13 :=
  ⟨sellStd_anti (by norm_num) (by norm_num) (by norm_num) (by norm_num) (by norm_num) (by norm_num) (by norm_num), by norm_num,
   by norm_num [agsNeSq, sellStd, sqr, lit_one, lit_zero], by norm_num [agsNeSq, sellStd, sqr, lit_one, lit_zero]⟩

theorem ktpNy_good : GoodOn (ktpNySq (α := ℝ)) 0.35 3.5 := by
  refine ⟨?_, by norm_num, ?_, ?_⟩
  · intro l hl l' hl' hll'
    have m12 : (1.2 : ℝ) ∈ Icc (0.35 : ℝ) 3.5 := ⟨by norm_num, by norm_num⟩
    simp only [ktpNySq]
    by_cases h1 : l' < 1.2
    · rw [if_pos h1, if_pos (lt_trans hll' h1)]
      exact ktpNyLo_good.anti hl hl' hll'
    · rw [if_neg h1]
      by_cases h2 : l < 1.2
      · rw [if_pos h2]
        have a1 : ktpNySqHi l' ≤ ktpNySqHi (1.2 : ℝ) :=
          ktpNyHi_good.anti.antitoneOn m12 hl' (not_lt.mp h1)
        have a2 : ktpNySqLo (1.2 : ℝ) < ktpNySqLo l := ktpNyLo_good.anti hl m12 h2
        have a3 : ktpNySqHi (1.2 : ℝ) < ktpNySqLo (1.2 : ℝ) := by
          norm_num [ktpNySqHi, ktpNySqLo, sellB, sqr]
        linarith
      · rw [if_neg h2]
        exact ktpNyHi_good.anti hl hl' hll'
  · simp only [ktpNySq]; rw [if_neg (by norm_num)]; exact ktpNyHi_good.lo
  · simp only [ktpNySq]; rw [if_pos (by norm_num)]; exact ktpNyLo_good.hi

/-- range of the Gayer temperature variable over −50 … 200 °C -/
noncomputable def Flo : ℝ := -38801.09
noncomputable def Fhi : ℝ := 135278.91

theorem gayerF_mem {T : ℝ} (h1 : Tmin ≤ T) (h2 : T ≤ Tmax) : Flo ≤ gayerF T ∧ gayerF T ≤ Fhi := by
  simp only [gayerF, celsius, lit_two, Tmin, Tmax, Flo, Fhi] at *
  constructor <;> nlinarith

theorem mgoNo_good {F : ℝ} (h1 : Flo ≤ F) (h2 : F ≤ Fhi) : GoodOn (mgoNoSq (α := ℝ) F) 0.44 4 := by
  simp only [Flo, Fhi] at h1 h2
  have hC : 0 < (0.2091 : ℝ) + (-4.641e-9) * F ∧ (0.2091 : ℝ) + (-4.641e-9) * F < 0.21 := by
    constructor <;> norm_num <;> linarith
  have hCC : ((0.2091 : ℝ) + (-4.641e-9) * F) * ((0.2091 : ℝ) + (-4.641e-9) * F) < 0.0441 := by
    nlinarith [hC.1, hC.2]
  have hP1 : 0 < (0.1185 : ℝ) + 3.134e-8 * F ∧ (0.1185 : ℝ) + 3.134e-8 * F < 0.13 := by
    constructor <;> norm_num <;> linarith
  have hP2 : 80 < (89.61 : ℝ) + (-2.188e-6) * F ∧ (89.61 : ℝ) + (-2.188e-6) * F < 90 := by
    constructor <;> norm_num <;> linarith
  have hb1 : -0.04 < (7.941e-7 : ℝ) * F ∧ (7.941e-7 : ℝ) * F < 0.11 := by
    constructor <;> norm_num <;> linarith
  refine ⟨?_, by norm_num, ?_, ?_⟩
  · exact sellG_anti hP1.1 (by linarith [hP2.1]) (by norm_num) (by norm_num)
      (by norm_num at hCC ⊢; linarith) (by norm_num)
  · simp only [mgoNoSq, sellG, sqr]
    have t1 : 0 ≤ ((0.1185 : ℝ) + 3.134e-8 * F) /
        (4 * 4 - ((0.2091 : ℝ) + (-4.641e-9) * F) * ((0.2091 : ℝ) + (-4.641e-9) * F)) :=
      div_nonneg hP1.1.le (by linarith)
    have t2 : -1 ≤ ((89.61 : ℝ) + (-2.188e-6) * F) / (4 * 4 - 10.85 * 10.85) := by
      rw [le_div_iff_of_neg (by norm_num)]; norm_num; linarith [hP2.2]
    norm_num at t1 t2 hb1 ⊢
    linarith
  · simp only [mgoNoSq, sellG, sqr]
    have t1 : ((0.1185 : ℝ) + 3.134e-8 * F) /
        (0.44 * 0.44 - ((0.2091 : ℝ) + (-4.641e-9) * F) * ((0.2091 : ℝ) + (-4.641e-9) * F)) ≤ 1 := by
      rw [div_le_one (by norm_num at hCC ⊢; linarith)]; norm_num at hCC hP1 ⊢; linarith [hP1.2]
    have t2 : ((89.61 : ℝ) + (-2.188e-6) * F) / (0.44 * 0.44 - 10.85 * 10.85) ≤ 0 :=
      div_nonpos_of_nonneg_of_nonpos (by linarith [hP2.1]) (by norm_num)
    norm_num at t1 t2 hb1 ⊢
    linarith


theorem mgoNe_good {F : ℝ} (h1 : Flo ≤ F) (h2 : F ≤ Fhi) : GoodOn (mgoNeSq (α := ℝ) F) 0.44 4 := by
  simp only [Flo, Fhi] at h1 h2
  have hC : 0 < (0.2020 : ℝ) + 6.113e-8 * F ∧ (0.2020 : ℝ) + 6.113e-8 * F < 0.211 := by
    constructor <;> norm_num <;> linarith
  have hCC : ((0.2020 : ℝ) + 6.113e-8 * F) * ((0.2020 : ℝ) + 6.113e-8 * F) < 0.0446 := by
    nlinarith [hC.1, hC.2]
  have hP1 : 0 < (0.0983 : ℝ) + 4.7e-8 * F ∧ (0.0983 : ℝ) + 4.7e-8 * F < 0.11 := by
    constructor <;> norm_num <;> linarith
  have hP2 : 180 < (189.32 : ℝ) + 1.516e-4 * F ∧ (189.32 : ℝ) + 1.516e-4 * F < 210 := by
    constructor <;> norm_num <;> linarith
  have hb1 : -0.12 < (2.86e-6 : ℝ) * F ∧ (2.86e-6 : ℝ) * F < 0.39 := by
    constructor <;> norm_num <;> linarith
  refine ⟨?_, by norm_num, ?_, ?_⟩
  · exact sellG_anti hP1.1 (by linarith [hP2.1]) (by norm_num) (by norm_num)
      (by norm_num at hCC ⊢; linarith) (by norm_num)
  · simp only [mgoNeSq, sellG, sqr]
    have t1 : 0 ≤ ((0.0983 : ℝ) + 4.7e-8 * F) /
        (4 * 4 - ((0.2020 : ℝ) + 6.113e-8 * F) * ((0.2020 : ℝ) + 6.113e-8 * F)) :=
      div_nonneg hP1.1.le (by linarith)
    have t2 : -2 ≤ ((189.32 : ℝ) + 1.516e-4 * F) / (4 * 4 - 12.52 * 12.52) := by
      rw [le_div_iff_of_neg (by norm_num)]; norm_num; linarith [hP2.2]
    norm_num at t1 t2 hb1 ⊢
    linarith
  · simp only [mgoNeSq, sellG, sqr]
    have t1 : ((0.0983 : ℝ) + 4.7e-8 * F) /
        (0.44 * 0.44 - ((0.2020 : ℝ) + 6.113e-8 * F) * ((0.2020 : ℝ) + 6.113e-8 * F)) ≤ 1 := by
      rw [div_le_one (by norm_num at hCC ⊢; linarith)]; norm_num at hCC hP1 ⊢; linarith [hP1.2]
    have t2 : ((189.32 : ℝ) + 1.516e-4 * F) / (0.44 * 0.44 - 12.52 * 12.52) ≤ 0 :=
      div_nonpos_of_nonneg_of_nonpos (by linarith [hP2.1]) (by norm_num)
    norm_num at t1 t2 hb1 ⊢
    linarith


/-- component selector -/
def comp : Fin 3 → Vec3 ℝ → ℝ
  | 0, v => v.x
  | 1, v => v.y
  | 2, v => v.z

/-- all three squared indices of every crystal are `GoodOn` the window (in µm), at every
temperature of the range -/
theorem nSq_good (c : Crystal) {T : ℝ} (h1 : Tmin ≤ T) (h2 : T ≤ Tmax) (i : Fin 3) :
    GoodOn (fun l => comp i (nSq c l T)) (lLo c) (lHi c) := by
  have hF := gayerF_mem h1 h2
  cases c <;> fin_cases i <;> simp only [comp, nSq, lLo, lHi]
  · exact bboNo_good
  · exact bboNo_good
  · exact bboNe_good
  · exact ktpNx_good
  · exact ktpNy_good
  · exact ktpNz_good
  · exact biboNx_good
  · exact biboNy_good
  · exact biboNz_good
  · exact lnNo_good
  · exact lnNo_good
  · exact lnNe_good
  · exact mgoNo_good hF.1 hF.2
  · exact mgoNo_good hF.1 hF.2
  · exact mgoNe_good hF.1 hF.2
  · exact kdpNo_good
  · exact kdpNo_good
  · exact kdpNe_good
  · exact ags1No_good
  · exact ags1No_good
  · exact ags1Ne_good
  · exact ags2No_good
  · exact ags2No_good
  · exact ags2Ne_good
  · exact lio2No_good
  · exact lio2No_good
  · exact lio2Ne_good
  · exact lio1No_good
  · exact lio1No_good
  · exact lio1Ne_good
  · exact agsNo_good
  · exact agsNo_good
  · exact agsNe_good

/-- the thermo-optic term of the code: `(T − 293.15)·dn` or nothing -/
noncomputable def thermal (c : Crystal) (T : ℝ) (i : Fin 3) : ℝ :=
  match dn (α := ℝ) c with
  | none => 0
  | some d => tempOffset T * comp i d

theorem indices_comp (c : Crystal) (lam T : ℝ) (i : Fin 3) :
    comp i (indices c lam T) = Real.sqrt (comp i (nSq c (microns lam) T)) + thermal c T i := by
  cases c <;> fin_cases i <;> simp [comp, indices, dn, thermal, Transc.sqrt]

theorem thermal_small (c : Crystal) {T : ℝ} (h1 : Tmin ≤ T) (h2 : T ≤ Tmax) (i : Fin 3) :
    -0.03 ≤ thermal c T i ∧ thermal c T i ≤ 0.03 := by
  simp only [Tmin, Tmax] at h1 h2
  cases c <;> fin_cases i <;> simp only [thermal, dn, comp, tempOffset] <;> norm_num <;>
    constructor <;> linarith

theorem microns_mem {c : Crystal} {lam : ℝ} (h1 : windowLo c ≤ lam) (h2 : lam ≤ windowHi c) :
    microns lam ∈ Icc (lLo c) (lHi c) := by
  rw [← microns_windowLo, ← microns_windowHi]
  exact ⟨microns_strictMono.monotone h1, microns_strictMono.monotone h2⟩

theorem indices_comp_anti (c : Crystal) {T : ℝ} (hT1 : Tmin ≤ T) (hT2 : T ≤ Tmax) {lam1 lam2 : ℝ}
    (h1 : windowLo c ≤ lam1) (h12 : lam1 < lam2) (h2 : lam2 ≤ windowHi c) (i : Fin 3) :
    comp i (indices c lam2 T) < comp i (indices c lam1 T) := by
  rw [indices_comp, indices_comp]
  have := (nSq_good c hT1 hT2 i).sqrt_anti (microns_mem h1 (le_trans h12.le h2))
    (microns_mem (le_trans h1 h12.le) h2) (microns_strictMono h12)
  linarith

theorem indices_comp_bounds (c : Crystal) {T : ℝ} (hT1 : Tmin ≤ T) (hT2 : T ≤ Tmax) {lam : ℝ}
    (h1 : windowLo c ≤ lam) (h2 : lam ≤ windowHi c) (i : Fin 3) :
    1 < comp i (indices c lam T) ∧ comp i (indices c lam T) < 4 := by
  rw [indices_comp]
  have hb := (nSq_good c hT1 hT2 i).sqrt_bounds (microns_mem h1 h2)
  have ht := thermal_small c hT1 hT2 i
  constructor <;> norm_num at hb ht ⊢ <;> linarith [hb.1, hb.2, ht.1, ht.2]

end Spdc.Crystals
