import Spdc.Model.PMType
/-!
# Helper lemmas for the string forms (C16-T4): soundness of the regex-equivalent matcher
(core Lean only; lives here because `Props/` holds nothing but the property theorems)
-/
namespace Spdc.PM

theorem reverse_eq_cons2 {α} {l r : List α} {a b : α} (h : l.reverse = a :: b :: r) :
    l = r.reverse ++ [b, a] := by
  have := congrArg List.reverse h
  simpa using this

/-- what `midOk` accepts: `HEAD P .{0,2}` -/
theorem midOk_sound {d p : Char} {rev : List Char} (h : midOk d p rev = true) :
    ∃ pre k mid, rev.reverse = pre ++ k :: mid ∧ mid.length ≤ 2 ∧ lower k = p ∧
      mid.all notNl = true ∧ matchHead d pre = true := by
  unfold midOk at h
  simp only [Bool.or_eq_true] at h
  rcases h with (h | h) | h
  · match rev, h with
    | k :: hd, h =>
      simp only [Bool.and_eq_true, eqCI, beq_iff_eq] at h
      exact ⟨hd.reverse, k, [], by simp, by simp, h.1, by simp, h.2⟩
  · match rev, h with
    | a :: k :: hd, h =>
      simp only [Bool.and_eq_true, eqCI, beq_iff_eq] at h
      exact ⟨hd.reverse, k, [a], by simp, by simp, h.1.2, by simp [h.1.1], h.2⟩
  · match rev, h with
    | a :: b :: k :: hd, h =>
      simp only [Bool.and_eq_true, eqCI, beq_iff_eq] at h
      exact ⟨hd.reverse, k, [b, a], by simp, by simp, h.1.2, by simp [h.1.1.1, h.1.1.2], h.2⟩

/-- what `matchRe` accepts -/
theorem matchRe_sound {d p s i : Char} {cs : List Char} (h : matchRe d p s i cs = true) :
    ∃ pre k mid a b, cs = pre ++ k :: mid ++ [a, b] ∧ mid.length ≤ 2 ∧ lower k = p ∧
      lower a = s ∧ lower b = i ∧ mid.all notNl = true ∧ matchHead d pre = true := by
  unfold matchRe at h
  split at h
  · rename_i ci cs' rest hrev
    simp only [Bool.and_eq_true, eqCI, beq_iff_eq] at h
    obtain ⟨pre, k, mid, hpre, hlen, hk, hnl, hhead⟩ := midOk_sound h.2
    refine ⟨pre, k, mid, cs', ci, ?_, hlen, hk, h.1.2, h.1.1, hnl, hhead⟩
    rw [reverse_eq_cons2 hrev, hpre]
  · exact absurd h (by simp)

/-- `parse` only answers with a variant whose own regex matched -/
theorem parse_matchT {cs : List Char} {t : PMType} (h : parse cs = some t) : matchT t cs = true := by
  unfold parse at h
  split at h
  · cases h; assumption
  · split at h
    · cases h; assumption
    · split at h
      · cases h; assumption
      · split at h
        · cases h; assumption
        · split at h
          · cases h; assumption
          · exact absurd h (by simp)

end Spdc.PM
