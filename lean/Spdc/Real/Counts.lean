import Spdc.Model.Counts
import Spdc.Real.Inst
import Mathlib.Algebra.Order.BigOperators.Group.List
import Mathlib.Analysis.SpecialFunctions.Pow.Real
/-!
# Helper lemmas for C08 (counts, efficiencies) at the ℝ instance
-/
namespace Spdc.Counts
open Spdc Spdc.Grid

theorem beq_zero_real (x : ℝ) : (x == (0.0 : ℝ)) = true ↔ x = 0 := by
  simp [lit_zero]

theorem transc_sqrt_real (x : ℝ) : (Transc.sqrt x : ℝ) = Real.sqrt x := rfl

/-- `counts` over ℝ: correction × (Σ values) × cell area -/
theorem counts_eq (corr : ℝ) (g : Steps2D ℝ) (vals : List ℝ) :
    counts corr g vals = corr * (vals.sum * cellArea g) := by
  unfold counts
  rw [sumList_eq, List.sum_map_mul_right, List.map_id']

/-- pointwise order lifts to sums -/
theorem sum_le_sum_of_forall₂ {l₁ l₂ : List ℝ} (h : List.Forall₂ (· ≤ ·) l₁ l₂) : l₁.sum ≤ l₂.sum := by
  induction h with
  | nil => simp
  | cons hab _ ih => simp only [List.sum_cons]; exact add_le_add hab ih

theorem sum_nonneg_of_forall {l : List ℝ} (h : ∀ x ∈ l, 0 ≤ x) : 0 ≤ l.sum :=
  List.sum_nonneg h

/-- the geometric mean dominates a common lower bound -/
theorem le_sqrt_mul_sqrt {c rs ri : ℝ} (h0 : 0 ≤ c) (hs : c ≤ rs) (hi : c ≤ ri) :
    c ≤ Real.sqrt rs * Real.sqrt ri := by
  have hrs : 0 ≤ rs := h0.trans hs
  rw [← Real.sqrt_mul hrs]
  apply Real.le_sqrt_of_sq_le
  nlinarith

end Spdc.Counts
