import Spdc.Real.ConfigFlow
/-!
# The configuration fix-point over ℝ (C16-T2): `asConfig (tryAsSpdc (asConfig s)) = asConfig s`
-/
namespace Spdc.Cfg
open Spdc Spdc.Outcome

theorem round_nonpos {y : ℝ} (h : y ≤ 0) : Transc.round y ≤ 0 := by
  rw [round_def]; split
  · have : y = 0 := le_antisymm h ‹0 ≤ y›
    subst this
    have : ⌊(0 : ℝ) + 1 / 2⌋ = 0 := by rw [Int.floor_eq_iff]; constructor <;> norm_num
    rw [this]; simp
  · have : ⌈y - 1 / 2⌉ ≤ 0 := by rw [Int.ceil_le]; simp; linarith
    exact_mod_cast this

theorem round_nonneg {y : ℝ} (h : 0 ≤ y) : 0 ≤ Transc.round y := by
  rw [round_def, if_pos h]
  have : 0 ≤ ⌊y + 1 / 2⌋ := by rw [Int.le_floor]; simp; linarith
  exact_mod_cast this

theorem sigfigs_nonpos {x : ℝ} (h : x ≤ 0) : sigfigs x ≤ 0 := by
  rw [sigfigs_def]
  exact div_nonpos_of_nonpos_of_nonneg (round_nonpos (by nlinarith)) (by norm_num)

theorem sigfigs_nonneg {x : ℝ} (h : 0 ≤ x) : 0 ≤ sigfigs x := by
  rw [sigfigs_def]
  exact div_nonneg (round_nonneg (by nlinarith)) (by norm_num)

/-- a non-positive rounded position is reproduced by `-|·|` and rounding -/
theorem sigfigs_neg_abs_of_nonpos {x : ℝ} (h : x ≤ 0) :
    sigfigs (-|sigfigs (x / micro)|) = sigfigs (x / micro) := by
  rw [sigfigs_neg_abs_sigfigs]
  have : sigfigs (x / micro) ≤ 0 := sigfigs_nonpos (div_nonpos_of_nonpos_of_nonneg h micro_pos.le)
  rw [abs_of_nonpos this]; ring

/-- crystal part of the fix-point -/
theorem crystal_fix (c : Crystal ℝ) : c.toCfg.toSetup.toCfg = c.toCfg := by
  simp [Crystal.toCfg, CrystalCfg.toSetup, deg_roundtrip, micro_roundtrip, kelvin_roundtrip,
    sigfigs_idem]

/-- angles whose rounded values stay inside the canonical intervals (so that the `Beam`
constructor's normalisation is the identity on them) -/
structure StableAngles (b : Beam ℝ) : Prop where
  phi0 : 0 ≤ sigfigs (b.phi / deg)
  phi1 : sigfigs (b.phi / deg) < 360
  th0 : -180 < sigfigs (b.theta / deg)
  th1 : sigfigs (b.theta / deg) ≤ 180

/-- the beam rebuilt from its own configuration -/
noncomputable def rebuilt (b : Beam ℝ) (pol : PM.Pol) : Beam ℝ :=
  { pol := pol, phi := sigfigs (b.phi / deg) * deg, theta := sigfigs (b.theta / deg) * deg,
    freq := wlToFreq (sigfigs (b.wavelength / nano) * nano),
    waistX := sigfigs (b.waistX / micro) * micro, waistY := sigfigs (b.waistX / micro) * micro }

theorem beam_rebuild (ext : Ext ℝ) (b : Beam ℝ) (wp : ℝ) (pol : PM.Pol) (c : Crystal ℝ)
    (ha : StableAngles b) :
    (b.toCfg wp true).tryAsBeam ext pol c = .ok (rebuilt b pol) := by
  simp only [Beam.toCfg, BeamCfg.tryAsBeam, Beam.setAngles, Beam.new, rebuilt,
    wrap360_of_mem ha.phi0 ha.phi1, normAngle_deg ha.phi0 ha.phi1,
    normAngleSigned_deg ha.th0 ha.th1]

theorem rebuilt_toCfg (b : Beam ℝ) (wp : ℝ) (pol : PM.Pol) (hw : wp ≤ 0) (ha : StableAngles b) :
    (rebuilt b pol).toCfg (-(Transc.abs (sigfigs (wp / micro))) * micro) true = b.toCfg wp true := by
  simp only [Beam.toCfg, rebuilt, Beam.wavelength, wl_roundtrip, nano_roundtrip, deg_roundtrip,
    micro_roundtrip, sigfigs_idem, if_true, abs_eq]
  rw [sigfigs_neg_abs_of_nonpos hw]

theorem rebuilt_wavelength (b : Beam ℝ) (pol : PM.Pol) :
    (rebuilt b pol).wavelength = sigfigs (b.wavelength / nano) * nano := by
  simp [rebuilt, Beam.wavelength, wl_roundtrip]

theorem apod_fix (a : Apod ℝ) : (Apod.ofCfg (Apod.toCfg a)).toCfg = Apod.toCfg a := by
  cases a <;> simp [Apod.toCfg, Apod.ofCfg, micro_roundtrip, sigfigs_idem]

theorem signMul_mul (neg : Bool) (x m : ℝ) : signMul neg x * m = signMul neg (x * m) := by
  cases neg <;> simp [signMul, lit_one] <;> ring

/-- `Poling.new` of `sign · |p µm|` reads back as the magnitude in µm -/
theorem poling_new_toCfg (p : ℝ) (neg : Bool) (apod : Apod ℝ) :
    Poling.toCfg (Poling.new (signMul neg (Transc.abs p) * micro) apod)
      = .config (.param (sigfigs |p|)) (Apod.toCfg apod) := by
  have hm : Transc.abs p * micro = Transc.abs (p * micro) := by
    rw [abs_eq, abs_eq, abs_mul, abs_of_pos micro_pos]
  rw [signMul_mul, hm, abs_eq]
  have h0 : 0 ≤ |p * micro| := abs_nonneg _
  have hq : |p * micro| / micro = |p| := by
    rw [abs_mul, abs_of_pos micro_pos]; exact micro_roundtrip _
  generalize |p * micro| = q at h0 hq
  unfold Poling.new signMul
  rw [lit_zero]
  cases neg
  · simp only [Bool.false_eq_true, if_false, lit_one, mul_one]
    by_cases hp : 0 < q
    · simp only [if_pos hp, Poling.toCfg, hq]
    · have hz : q = 0 := le_antisymm (not_lt.mp hp) h0
      subst hz
      have hz' : |p| = 0 := by rw [← hq]; simp
      simp [hz', Poling.toCfg]
  · simp only [if_true]
    have hn : ¬ (0 < q * -(1.0 : ℝ)) := by rw [lit_one]; simp; exact h0
    simp only [if_neg hn, Poling.toCfg]
    rw [lit_one]
    have : -(q * -1) / micro = |p| := by rw [← hq]; ring
    rw [this]

/-- setups in the statement's domain: produced from a configuration (waist positions stored as
`-|focus|`, period stored as a magnitude), beam angles that are not rounded across the end of their
canonical interval, and `λs > λp` still after rounding -/
structure Canonical (s : Setup ℝ) : Prop where
  signal : StableAngles s.signal
  idler : StableAngles s.idler
  wps : s.signalWaistPos ≤ 0
  wpi : s.idlerWaistPos ≤ 0
  period : ∀ p neg a, s.pp = .on p neg a → 0 ≤ p
  wavelengths : sigfigs (s.pump.wavelength / nano) < sigfigs (s.signal.wavelength / nano)

theorem poling_fix (ext : Ext ℝ) (pp : Poling ℝ) (signal pump : Beam ℝ) (c : Crystal ℝ)
    (hl : lsLeLp signal pump = false) (hsign : ∃ neg, ext.signNeg signal pump c = .ok neg)
    (hper : ∀ p neg a, pp = .on p neg a → 0 ≤ p) :
    ∃ pp', pp.toCfg.tryAsPoling ext signal pump c = .ok pp' ∧ pp'.toCfg = pp.toCfg := by
  cases pp with
  | off => exact ⟨.off, rfl, rfl⟩
  | on p neg a =>
    obtain ⟨neg', hneg⟩ := hsign
    refine ⟨Poling.new (signMul neg' (Transc.abs (sigfigs (p / micro))) * micro)
      (Apod.ofCfg (Apod.toCfg a)), ?_, ?_⟩
    · simp only [Poling.toCfg, PolingCfg.tryAsPoling, computeSign, hl, Bool.false_eq_true, if_false,
        hneg, Outcome.map]
    · rw [poling_new_toCfg, apod_fix, sigfigs_abs_sigfigs]
      have : 0 ≤ sigfigs (p / micro) :=
        sigfigs_nonneg (div_nonneg (hper p neg a rfl) micro_pos.le)
      rw [abs_of_nonneg this]
      rfl

/-- **the fix-point**: converting the configuration of a canonical setup again reproduces it -/
theorem config_fixpoint_aux (ext : Ext ℝ) (s : Setup ℝ) (hc : Canonical s)
    (hsign : ∀ a b c, ∃ neg, ext.signNeg a b c = .ok neg) :
    (tryAsSpdc (asConfig s) ext).map asConfig = .ok (asConfig s) := by
  -- the pieces of the second conversion
  have hsig := beam_rebuild ext s.signal s.signalWaistPos
    (asConfig s).crystal.toSetup.pmType.signalPol (asConfig s).crystal.toSetup hc.signal
  have hpw : ((asConfig s).pump.asBeam (asConfig s).crystal.toSetup).wavelength
      = sigfigs (s.pump.wavelength / nano) * nano := pump_wavelength _ _
  have hl : lsLeLp (rebuilt s.signal (asConfig s).crystal.toSetup.pmType.signalPol)
      ((asConfig s).pump.asBeam (asConfig s).crystal.toSetup) = false := by
    unfold lsLeLp
    rw [decide_eq_false_iff_not, rebuilt_wavelength, hpw, not_le]
    exact mul_lt_mul_of_pos_right hc.wavelengths nano_pos
  obtain ⟨pp', hpp, hppc⟩ := poling_fix ext s.pp _ _ (asConfig s).crystal.toSetup hl
    (hsign _ _ _) hc.period
  have hid := beam_rebuild ext s.idler s.idlerWaistPos
    (asConfig s).crystal.toSetup.pmType.idlerPol (asConfig s).crystal.toSetup hc.idler
  -- run the flow
  have hrun : tryAsSpdc (asConfig s) ext = .ok
      { crystal := (asConfig s).crystal.toSetup
        signal := rebuilt s.signal (asConfig s).crystal.toSetup.pmType.signalPol
        idler := rebuilt s.idler (asConfig s).crystal.toSetup.pmType.idlerPol
        pump := (asConfig s).pump.asBeam (asConfig s).crystal.toSetup
        pumpBandwidth := sigfigs (s.pumpBandwidth / nano) * nano
        pumpAveragePower := sigfigs (s.pumpAveragePower / 1.0) * 1.0
        pumpSpectrumThreshold := s.pumpSpectrumThreshold
        pp := pp'
        signalWaistPos := -(Transc.abs (sigfigs (s.signalWaistPos / micro))) * micro
        idlerWaistPos := -(Transc.abs (sigfigs (s.idlerWaistPos / micro))) * micro
        deff := toDeff (sigfigs (s.deff / pmPerVolt)) } := by
    unfold tryAsSpdc tryAsSpdcG
    have e1 : (asConfig s).signal = s.signal.toCfg s.signalWaistPos true := rfl
    have e2 : (asConfig s).poling = s.pp.toCfg := rfl
    have e3 : (asConfig s).idler = .param (s.idler.toCfg s.idlerWaistPos true) := rfl
    have e4 : (asConfig s).crystal.thetaDeg.isAuto = false := rfl
    simp only [e1, hsig, Outcome.bind, Bool.true_and, hl, Bool.false_eq_true, if_false, e2, hpp,
      thetaStep, e4, idlerStep, e3, hid, idlerWaistCfg, waistPosition]
    rfl
  rw [hrun]
  simp only [Outcome.map, asConfig, asConfigG, Outcome.ok.injEq]
  have h1 := crystal_fix s.crystal
  have h2 := rebuilt_toCfg s.signal s.signalWaistPos
    (asConfigG true s).crystal.toSetup.pmType.signalPol hc.wps hc.signal
  have h3 := rebuilt_toCfg s.idler s.idlerWaistPos
    (asConfigG true s).crystal.toSetup.pmType.idlerPol hc.wpi hc.idler
  simp only [asConfigG] at h1 h2 h3 ⊢
  rw [h1, h2, h3, hppc]
  simp [PumpCfg.asBeam, Beam.new, Beam.wavelength, wl_roundtrip, nano_roundtrip, micro_roundtrip,
    pmPerVolt_roundtrip, toDeff_roundtrip, one_roundtrip, sigfigs_idem]

end Spdc.Cfg
