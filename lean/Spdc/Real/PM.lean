import Spdc.Model.PM
import Spdc.Real.Inst
import Mathlib.Tactic.FieldSimp
import Mathlib.Tactic.Ring
import Mathlib.Tactic.LinearCombination
/-!
# Helper lemmas about the coincidence integrand at `α := ℝ`

`expo_symm` (design spike, proved in ℂ) ported to THE MODEL's `Coef.exponent` through `Cx.toC`;
`coef_swap` (one `chain` serves both beams).
-/
namespace Spdc.PM
open Spdc

theorem lit_m2 : (-(2.0 : ℝ)) = -2 := by norm_num
theorem lit_025 : (0.25 : ℝ) = 1 / 4 := by norm_num
theorem lit_05 : (0.5 : ℝ) = 1 / 2 := by norm_num
theorem lit_075 : (0.75 : ℝ) = 3 / 4 := by norm_num

@[simp] theorem toC_addReal (x : ℝ) (z : Cx ℝ) : (addReal x z).toC = (x : ℂ) + z.toC := by
  apply Complex.ext <;> simp [addReal, Cx.toC]

/-- signal ↔ idler exchange of the ten coefficients -/
def Coef.exch {α : Type} (A : Coef α) : Coef α :=
  ⟨A.a3, A.a4, A.a1, A.a2, A.a7, A.a6, A.a5, A.a8, A.a9, A.a10⟩

section spike
/-! the two reduction lemmas and `expo_symm` of `design-spikes/ExchangeSymmetry.lean` -/

theorem red1 (A1 A3 A5 A7 A8 d1 : ℂ) (h1 : A1 ≠ 0) (hd : d1 ≠ 0) (hdef : d1 = 4 * A1 * A3 - A8 * A8) :
    A1⁻¹ * (A5 * A5 + ((-2 * A1 * A7 + A5 * A8) * (-2 * A1 * A7 + A5 * A8)) / d1)
      = 4 * (A3 * A5 * A5 - A5 * A7 * A8 + A1 * A7 * A7) / d1 := by
  field_simp
  rw [hdef]; ring

theorem red2 (A2 A4 A6 A9 d2 : ℂ) (h2 : A2 ≠ 0) (hd : d2 ≠ 0) (hdef : d2 = 4 * A2 * A4 - A9 * A9) :
    A2⁻¹ * (A6 * A6) * (1 + ((-2 * A2 + A9) * (-2 * A2 + A9)) / d2)
      = 4 * (A6 * A6) * (A2 + A4 - A9) / d2 := by
  field_simp
  rw [hdef]; ring

/-- exponent of the coincidence integrand as coded, over ℂ -/
noncomputable def expo (A1 A2 A3 A4 A5 A6 A7 A8 A9 A10 : ℂ) : ℂ :=
  (4 * A10 - A1⁻¹ * (A5 * A5 + ((-2 * A1 * A7 + A5 * A8) * (-2 * A1 * A7 + A5 * A8)) / (4 * A1 * A3 - A8 * A8))
    - A2⁻¹ * (A6 * A6) * (1 + ((-2 * A2 + A9) * (-2 * A2 + A9)) / (4 * A2 * A4 - A9 * A9))) / 4

theorem expo_symm (A1 A2 A3 A4 A5 A6 A7 A8 A9 A10 : ℂ)
    (h1 : A1 ≠ 0) (h2 : A2 ≠ 0) (h3 : A3 ≠ 0) (h4 : A4 ≠ 0)
    (hd1 : 4 * A1 * A3 - A8 * A8 ≠ 0) (hd2 : 4 * A2 * A4 - A9 * A9 ≠ 0) :
    expo A3 A4 A1 A2 A7 A6 A5 A8 A9 A10 = expo A1 A2 A3 A4 A5 A6 A7 A8 A9 A10 := by
  unfold expo
  have e1 : 4 * A3 * A1 - A8 * A8 = 4 * A1 * A3 - A8 * A8 := by ring
  have e2 : 4 * A4 * A2 - A9 * A9 = 4 * A2 * A4 - A9 * A9 := by ring
  rw [red1 A1 A3 A5 A7 A8 _ h1 hd1 rfl, red2 A2 A4 A6 A9 _ h2 hd2 rfl,
      red1 A3 A1 A7 A5 A8 _ h3 (by rw [e1]; exact hd1) rfl,
      red2 A4 A2 A6 A9 _ h4 (by rw [e2]; exact hd2) rfl, e1, e2]
  ring
end spike

/-- `denom1`, `denom2` of the model as complex numbers -/
theorem denom1_toC (A : Coef ℝ) :
    A.denom1.toC = 4 * A.a1.toC * A.a3.toC - A.a8.toC * A.a8.toC := by
  simp [Coef.denom1, lit_four]
theorem denom2_toC (A : Coef ℝ) :
    A.denom2.toC = 4 * A.a2.toC * A.a4.toC - A.a9.toC * A.a9.toC := by
  simp [Coef.denom2, lit_four]

/-- the model's exponent is the spike's `expo` of the images of its coefficients -/
theorem exponent_toC (A : Coef ℝ) :
    A.exponent.toC = expo A.a1.toC A.a2.toC A.a3.toC A.a4.toC A.a5.toC A.a6.toC A.a7.toC
      A.a8.toC A.a9.toC A.a10.toC := by
  simp only [Coef.exponent, expo, Cx.toC_divs, Cx.toC_sub, Cx.toC_smul, Cx.toC_mul, Cx.toC_inv,
    Cx.toC_add, Cx.toC_div, toC_addReal, denom1_toC, denom2_toC, lit_four, lit_m2, lit_one]
  push_cast
  ring

/-- the non-degeneracy guard under which the integrand is a well-defined complex number -/
structure Coef.Good (A : Coef ℝ) : Prop where
  h1 : A.a1.toC ≠ 0
  h2 : A.a2.toC ≠ 0
  h3 : A.a3.toC ≠ 0
  h4 : A.a4.toC ≠ 0
  hd1 : A.denom1.toC ≠ 0
  hd2 : A.denom2.toC ≠ 0

theorem denom1_exch (A : Coef ℝ) : A.exch.denom1 = A.denom1 := by
  apply Cx.toC_injective
  rw [denom1_toC, denom1_toC]; simp only [Coef.exch]; ring

theorem denom2_exch (A : Coef ℝ) : A.exch.denom2 = A.denom2 := by
  apply Cx.toC_injective
  rw [denom2_toC, denom2_toC]; simp only [Coef.exch]; ring

theorem exponent_exch (A : Coef ℝ) (g : A.Good) : A.exch.exponent = A.exponent := by
  apply Cx.toC_injective
  rw [exponent_toC, exponent_toC]
  simp only [Coef.exch]
  refine expo_symm _ _ _ _ _ _ _ _ _ _ g.h1 g.h2 g.h3 g.h4 ?_ ?_
  · rw [← denom1_toC]; exact g.hd1
  · rw [← denom2_toC]; exact g.hd2

theorem integrand_exch (A : Coef ℝ) (g : A.Good) (w : ℝ) : A.exch.integrand w = A.integrand w := by
  unfold Coef.integrand
  rw [exponent_exch A g, denom1_exch, denom2_exch]

/-- exchanging the beams exchanges the z-independent coefficients (one `chain` serves both beams) -/
theorem pre_swap (S : Setup ℝ) (ωs ωi : ℝ) :
    pre S.swap ωi ωs =
      let p := pre S ωs ωi
      ⟨p.Ai, p.As, p.Bi, p.Bs, p.Ci, p.Cs, p.Di, p.Ds, p.mx, p.my, p.m, p.nn, p.hh, p.a7, p.a5,
        p.ee, p.ff⟩ := by
  simp only [pre, Setup.swap, add_comm ωi ωs, add_comm (chain S.idl S.L ωi).gam4,
    add_comm (chain S.idl S.L ωi).del4, add_comm (chain S.idl S.L ωi).k (chain S.sig S.L ωs).k]

theorem coef_swap' (S : Setup ℝ) (ωs ωi z : ℝ) :
    coef S.swap ωi ωs z = (coef S ωs ωi z).exch := by
  simp only [coef, pre_swap, Pre.coef, Coef.exch]

/-- the guard at a point of the z-axis -/
def Good (S : Setup ℝ) (ωs ωi z : ℝ) : Prop := (coef S ωs ωi z).Good

theorem pmIntegrand_swap' (S : Setup ℝ) (ωs ωi z : ℝ) (g : Good S ωs ωi z) :
    pmIntegrand S.swap ωi ωs z = pmIntegrand S ωs ωi z := by
  unfold pmIntegrand
  rw [coef_swap']
  exact integrand_exch _ g _

theorem pmCoincQ_swap' (S : Setup ℝ) (nodes : List (ℝ × ℝ)) (scale ωs ωi : ℝ)
    (g : ∀ p ∈ nodes, Good S ωs ωi p.1) :
    pmCoincQ S.swap nodes scale ωi ωs = pmCoincQ S nodes scale ωs ωi := by
  unfold pmCoincQ quadSum
  congr 3
  apply List.map_congr_left
  intro p hp
  rw [pmIntegrand_swap' S ωs ωi p.1 (g p hp)]

end Spdc.PM
