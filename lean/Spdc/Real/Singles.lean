import Spdc.Model.Singles
import Spdc.Real.Inst
/-!
# Helper lemmas for C08-T4 (the singles integrand at ℝ)
-/
namespace Spdc.Singles
open Spdc

@[simp] theorem toC_I : (I : Cx ℝ).toC = Complex.I := by
  apply Complex.ext <;> simp [I, Cx.toC, lit_zero, lit_one]
@[simp] theorem toC_csq (z : Cx ℝ) : (csq z).toC = z.toC * z.toC := by simp [csq]
@[simp] theorem toC_raddc (s : ℝ) (z : Cx ℝ) : (raddc s z).toC = (s : ℂ) + z.toC := by
  apply Complex.ext <;> simp [raddc, Cx.toC]
@[simp] theorem toC_caddr (z : Cx ℝ) (s : ℝ) : (caddr z s).toC = z.toC + (s : ℂ) := by
  apply Complex.ext <;> simp [caddr, Cx.toC]
@[simp] theorem toC_csubr (z : Cx ℝ) (s : ℝ) : (csubr z s).toC = z.toC - (s : ℂ) := by
  apply Complex.ext <;> simp [csubr, Cx.toC]
@[simp] theorem toC_rdivc (s : ℝ) (z : Cx ℝ) : (rdivc s z).toC = (s : ℂ) / z.toC := by
  apply Complex.ext <;>
    simp [rdivc, Cx.toC, Cx.normSq, Complex.div_re, Complex.div_im, Complex.normSq_apply, lit_zero]
@[simp] theorem toC_mk_zero : (⟨0, 0⟩ : Cx ℝ).toC = 0 := by
  apply Complex.ext <;> simp [Cx.toC]

/-- numerator of the singles integrand when the tilt coefficient `α₃`, the walk-off length `L·tan ρ` and
`Γ₄` vanish: a pure phase `exp(i·C₃·(z₁−z₂)/2)` -/
theorem numerator_of (c : Coef ℝ) (h3 : c.alpha3 = ⟨0, 0⟩) (hl : c.lRho = 0) (hl2 : c.lRhoSq = 0)
    (hg : c.gam4s = 0) (z1 z2 : ℝ) :
    ((numDen c z1 z2).1).toC = Complex.exp (((1 / 2 * c.c3 * (z1 - z2) : ℝ) : ℂ) * Complex.I) := by
  unfold numDen
  simp only [Cx.toC_exp, Cx.toC_add, Cx.toC_sub, Cx.toC_div, Cx.toC_neg, Cx.toC_smul, Cx.toC_muls, Cx.toC_mul,
    Cx.toC_conj, toC_csq, toC_raddc, toC_rdivc, toC_csubr, toC_caddr, toC_I, h3, hl, hl2, hg, toC_mk_zero,
    lit_half, lit_two, lit_quarter, lit_zero, lit_four]
  congr 1
  simp
  ring

/-- collinear signal, no pump walk-off ⇒ the hypotheses of `numerator_of` hold for `coef p`, and
`C₃ = L·Δk` with `Δk = k_p − (±k_s ± k_i + k_eff)` -/
theorem coef_collinear (p : SinglesIn ℝ) (hθ : p.thetaS = 0) (hθe : p.thetaSe = 0)
    (hρ : Real.tan p.rho = 0) :
    (coef p).alpha3 = ⟨0, 0⟩ ∧ (coef p).lRho = 0 ∧ (coef p).lRhoSq = 0 ∧ (coef p).gam4s = 0 ∧
    (coef p).c3 = p.len * (p.kp - (p.signKs * p.ksAbs + p.signKi * p.kiAbs + p.keff)) := by
  refine ⟨?_, ?_, ?_, ?_, rfl⟩ <;>
    simp [coef, hθ, hθe, hρ, Transc.sin, Transc.tan, Transc.cos, lit_zero, lit_half, lit_two]

end Spdc.Singles
