import Spdc.Real.Config
/-!
# Control-flow lemmas about `tryAsSpdcG` (C16-T3, C17): inversion of `ok`, panic-freedom
-/
namespace Spdc

namespace Outcome
variable {β γ : Type}

theorem bind_eq_ok {x : Outcome β} {f : β → Outcome γ} {c : γ} :
    x.bind f = .ok c ↔ ∃ b, x = .ok b ∧ f b = .ok c := by
  cases x <;> simp [Outcome.bind]

theorem map_eq_ok {x : Outcome β} {f : β → γ} {c : γ} :
    x.map f = .ok c ↔ ∃ b, x = .ok b ∧ f b = c := by
  cases x <;> simp [Outcome.map]

/-- "does not panic" -/
def NP (x : Outcome β) : Prop := x.isPanic = false

theorem np_ok (b : β) : NP (.ok b) := rfl
theorem np_err (e : String) : NP (.err e : Outcome β) := rfl

theorem np_map {x : Outcome β} (f : β → γ) (h : NP x) : NP (x.map f) := by
  cases x <;> simp_all [NP, Outcome.map, Outcome.isPanic]

theorem np_bind {x : Outcome β} {f : β → Outcome γ} (h : NP x) (hf : ∀ b, NP (f b)) :
    NP (x.bind f) := by
  cases x with
  | ok b => exact hf b
  | err e => rfl
  | panic s => simp [NP, Outcome.isPanic] at h

theorem not_ok_of_err {x : Outcome β} {e : String} (h : x = .err e) : x.isOk = false := by
  subst h; rfl

end Outcome

namespace Cfg
open Outcome

/-- none of the numeric sub-routines panics on any input -/
structure ExtNoPanic (ext : Ext ℝ) : Prop where
  snell : ∀ b a c, NP (ext.snell b a c)
  signNeg : ∀ s p c, NP (ext.signNeg s p c)
  period : ∀ s p c, NP (ext.period s p c)
  theta : ∀ c s p, NP (ext.theta c s p)
  idler : ∀ s p c pp, NP (ext.idler s p c pp)
  waistPos : ∀ c l pol, NP (ext.waistPos c l pol)

theorem np_tryAsBeam {ext : Ext ℝ} (hx : ExtNoPanic ext) (b : BeamCfg ℝ) (pol : PM.Pol)
    (c : Crystal ℝ) : NP (b.tryAsBeam ext pol c) := by
  unfold BeamCfg.tryAsBeam
  cases b.thetaDeg <;> cases b.thetaExternalDeg <;> simp only
  · exact np_err _
  · exact np_map _ (hx.snell _ _ _)
  · exact np_ok _
  · exact np_err _

theorem np_waistPosition {ext : Ext ℝ} (hx : ExtNoPanic ext) (w : Auto ℝ) (c : Crystal ℝ)
    (b : Beam ℝ) : NP (waistPosition ext w c b) := by
  cases w
  · exact hx.waistPos _ _ _
  · exact np_ok _

/-- behind the early `λs ≤ λp` error, none of the three `unwrap()` sites can fire -/
theorem np_tryAsSpdc {ext : Ext ℝ} (hx : ExtNoPanic ext) (cfg : Config ℝ) :
    NP (tryAsSpdc cfg ext) := by
  unfold tryAsSpdc tryAsSpdcG
  apply np_bind (np_tryAsBeam hx _ _ _)
  intro signal
  simp only [Bool.true_and]
  by_cases hl : lsLeLp signal (cfg.pump.asBeam cfg.crystal.toSetup) = true
  · rw [if_pos hl]; exact np_err _
  · rw [if_neg hl]
    have hpp : NP (cfg.poling.tryAsPoling ext signal (cfg.pump.asBeam cfg.crystal.toSetup)
        cfg.crystal.toSetup) := by
      unfold PolingCfg.tryAsPoling
      cases cfg.poling with
      | off => exact np_ok _
      | config per apod =>
        cases per with
        | auto =>
          simp only [optimumPolingPeriod, if_neg hl]
          exact np_map _ (hx.period _ _ _)
        | param p =>
          simp only [computeSign, if_neg hl]
          exact np_map _ (hx.signNeg _ _ _)
    apply np_bind hpp
    intro pp
    have hth : NP (thetaStep ext cfg cfg.crystal.toSetup signal
        (cfg.pump.asBeam cfg.crystal.toSetup) pp) := by
      unfold thetaStep
      split
      · split
        · simp only [optimumTheta, if_neg hl]
          exact np_map _ (hx.theta _ _ _)
        · exact np_err _
      · exact np_ok _
    apply np_bind hth
    intro c1
    have hid : NP (idlerStep ext cfg signal (cfg.pump.asBeam cfg.crystal.toSetup) c1 pp) := by
      unfold idlerStep
      cases cfg.idler with
      | auto =>
        simp only [optimumIdler, if_neg hl]
        exact hx.idler _ _ _ _
      | param ic => exact np_tryAsBeam hx _ _ _
    exact np_bind hid fun idler => np_bind (np_waistPosition hx _ _ _) fun iwp =>
      np_bind (np_waistPosition hx _ _ _) fun swp => np_ok _

/-- the signal beam built from a configuration has the configured wavelength -/
theorem tryAsBeam_wavelength {ext : Ext ℝ} {b : BeamCfg ℝ} {pol : PM.Pol} {c : Crystal ℝ}
    {beam : Beam ℝ} (h : b.tryAsBeam ext pol c = .ok beam) :
    beam.wavelength = b.wavelengthNm * nano := by
  unfold BeamCfg.tryAsBeam at h
  cases h1 : b.thetaDeg <;> cases h2 : b.thetaExternalDeg <;> simp only [h1, h2] at h
  · exact absurd h (by simp)
  · simp only [Beam.setThetaExternal, map_eq_ok] at h
    obtain ⟨th, _, rfl⟩ := h
    simp [Beam.setAngles, Beam.new, Beam.wavelength, wl_roundtrip]
  · cases h
    simp [Beam.setAngles, Beam.new, Beam.wavelength, wl_roundtrip]
  · exact absurd h (by simp)

theorem pump_wavelength (p : PumpCfg ℝ) (c : Crystal ℝ) :
    (p.asBeam c).wavelength = p.wavelengthNm * nano := by
  simp [PumpCfg.asBeam, Beam.new, Beam.wavelength, wl_roundtrip]

/-- the wavelength guard in terms of the configured wavelengths -/
theorem lsLeLp_iff {ext : Ext ℝ} {cfg : Config ℝ} {pol : PM.Pol} {c : Crystal ℝ} {signal : Beam ℝ}
    (h : cfg.signal.tryAsBeam ext pol c = .ok signal) (c' : Crystal ℝ) :
    lsLeLp signal (cfg.pump.asBeam c') = true ↔ cfg.signal.wavelengthNm ≤ cfg.pump.wavelengthNm := by
  unfold lsLeLp
  rw [decide_eq_true_iff, tryAsBeam_wavelength h, pump_wavelength]
  exact mul_le_mul_iff_of_pos_right nano_pos

/-- what an `ok` result of `try_as_spdc` was assembled from, step by step in the order of the code:
crystal → pump → signal → (wavelength guard) → poling → crystal angle → idler → waist positions -/
theorem tryAsSpdcG_ok_inv {g : Bool} {cfg : Config ℝ} {ext : Ext ℝ} {s : Setup ℝ}
    (h : tryAsSpdcG g cfg ext = .ok s) :
    ∃ signal pp c1 idler iwp swp,
      cfg.signal.tryAsBeam ext cfg.crystal.toSetup.pmType.signalPol cfg.crystal.toSetup = .ok signal ∧
      (g = true → lsLeLp signal (cfg.pump.asBeam cfg.crystal.toSetup) = false) ∧
      cfg.poling.tryAsPoling ext signal (cfg.pump.asBeam cfg.crystal.toSetup) cfg.crystal.toSetup = .ok pp ∧
      thetaStep ext cfg cfg.crystal.toSetup signal (cfg.pump.asBeam cfg.crystal.toSetup) pp = .ok c1 ∧
      idlerStep ext cfg signal (cfg.pump.asBeam cfg.crystal.toSetup) c1 pp = .ok idler ∧
      waistPosition ext (idlerWaistCfg cfg) c1 idler = .ok iwp ∧
      waistPosition ext cfg.signal.waistPositionUm c1 signal = .ok swp ∧
      s = { crystal := c1, signal := signal, idler := idler,
            pump := cfg.pump.asBeam cfg.crystal.toSetup,
            pumpBandwidth := cfg.pump.bandwidthNm * nano,
            pumpAveragePower := cfg.pump.averagePowerMw * 1.0,
            pumpSpectrumThreshold := cfg.pump.spectrumThreshold.getD 1.0e-2, pp := pp,
            signalWaistPos := swp, idlerWaistPos := iwp,
            deff := toDeff cfg.deffPmPerVolt } := by
  unfold tryAsSpdcG at h
  simp only [bind_eq_ok] at h
  obtain ⟨signal, hsig, h⟩ := h
  split at h
  · exact absurd h (by simp)
  · rename_i hg
    simp only [bind_eq_ok] at h
    obtain ⟨pp, hpp, c1, hc1, idler, hid, iwp, hiwp, swp, hswp, hs⟩ := h
    refine ⟨signal, pp, c1, idler, iwp, swp, hsig, ?_, hpp, hc1, hid, hiwp, hswp, ?_⟩
    · intro hgt
      subst hgt
      simpa using hg
    · cases hs; rfl

/-- the crystal angle after the angle step -/
theorem thetaStep_ok {ext : Ext ℝ} {cfg : Config ℝ} {c0 c1 : Crystal ℝ} {signal pump : Beam ℝ}
    {pp : Poling ℝ} (h : thetaStep ext cfg c0 signal pump pp = .ok c1) :
    (cfg.crystal.thetaDeg.isAuto = false ∧ c1 = c0) ∨
    (cfg.crystal.thetaDeg.isAuto = true ∧ pp.isOff = true ∧
      ∃ th, optimumTheta ext c0 signal pump = .ok th ∧ c1 = { c0 with theta := th }) := by
  unfold thetaStep at h
  split at h
  · rename_i ha
    split at h
    · rename_i hp
      rw [map_eq_ok] at h
      obtain ⟨th, hth, rfl⟩ := h
      exact Or.inr ⟨ha, hp, th, hth, rfl⟩
    · exact absurd h (by simp)
  · rename_i ha
    cases h
    exact Or.inl ⟨by simpa using ha, rfl⟩

theorem optimumTheta_ok {ext : Ext ℝ} {c : Crystal ℝ} {signal pump : Beam ℝ} {th : ℝ}
    (h : optimumTheta ext c signal pump = .ok th) : ext.theta c signal pump = .ok th := by
  unfold optimumTheta at h
  split at h
  · exact absurd h (by simp)
  · exact h

theorem optimumIdler_ok {ext : Ext ℝ} {c : Crystal ℝ} {signal pump b : Beam ℝ} {pp : Poling ℝ}
    (h : optimumIdler ext signal pump c pp = .ok b) : ext.idler signal pump c pp = .ok b := by
  unfold optimumIdler at h
  split at h
  · exact absurd h (by simp)
  · exact h

theorem optimumPolingPeriod_ok {ext : Ext ℝ} {c : Crystal ℝ} {signal pump : Beam ℝ} {p : ℝ}
    (h : optimumPolingPeriod ext signal pump c = .ok p) : ext.period signal pump c = .ok p := by
  unfold optimumPolingPeriod at h
  split at h
  · exact absurd h (by simp)
  · exact h

theorem poling_new_not_off (p : ℝ) (a : Apod ℝ) : (Poling.new p a).isOff = false := rfl

/-- poling comes out off exactly when the configuration says so -/
theorem tryAsPoling_off_iff {ext : Ext ℝ} {pc : PolingCfg ℝ} {signal pump : Beam ℝ} {c : Crystal ℝ}
    {pp : Poling ℝ} (h : pc.tryAsPoling ext signal pump c = .ok pp) :
    pp.isOff = true ↔ pc = .off := by
  unfold PolingCfg.tryAsPoling at h
  cases pc with
  | off => cases h; simp [Poling.isOff]
  | config per apod =>
    cases per with
    | auto =>
      simp only [map_eq_ok] at h
      obtain ⟨x, _, rfl⟩ := h
      simp [poling_new_not_off]
    | param v =>
      simp only [map_eq_ok] at h
      obtain ⟨x, _, rfl⟩ := h
      simp [poling_new_not_off]

end Cfg
end Spdc
