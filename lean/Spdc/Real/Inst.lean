import Spdc.Model.Num
import Spdc.Model.Cx
import Mathlib.Analysis.SpecialFunctions.Trigonometric.Arctan
import Mathlib.Analysis.SpecialFunctions.Trigonometric.Inverse
import Mathlib.Analysis.SpecialFunctions.Log.Basic
import Mathlib.Analysis.SpecialFunctions.Complex.Arg
import Mathlib.Data.Complex.Basic
/-!
# The ℝ instance of the model scalar, and `Cx ℝ ≃ ℂ`

All property theorems are stated at this instance.  Mathlib's totalisations (`Real.sqrt x = 0` for
`x < 0`, `x / 0 = 0`, `Real.log` of non-positives) differ from IEEE; theorems that depend on them
carry explicit guards.
-/
namespace Spdc

noncomputable instance : Transc ℝ where
  sqrt := Real.sqrt
  sin := Real.sin
  cos := Real.cos
  tan := Real.tan
  asin := Real.arcsin
  acos := Real.arccos
  atan := Real.arctan
  atan2 y x := Complex.arg ⟨x, y⟩
  exp := Real.exp
  ln := Real.log
  floor x := (Int.floor x : ℝ)
  ceil x := (Int.ceil x : ℝ)
  round x := if 0 ≤ x then (Int.floor (x + 1 / 2) : ℝ) else (Int.ceil (x - 1 / 2) : ℝ)
  abs x := |x|
  pi := Real.pi

/-- decimal literals of the model are the exact rationals at ℝ -/
theorem lit_zero : (0.0 : ℝ) = 0 := by norm_num
theorem lit_one : (1.0 : ℝ) = 1 := by norm_num
theorem lit_two : (2.0 : ℝ) = 2 := by norm_num
theorem lit_three : (3.0 : ℝ) = 3 := by norm_num
theorem lit_four : (4.0 : ℝ) = 4 := by norm_num
theorem lit_half : (0.5 : ℝ) = 1 / 2 := by norm_num
theorem lit_quarter : (0.25 : ℝ) = 1 / 4 := by norm_num

namespace Cx

/-- the model complex number as a Mathlib complex number -/
def toC (z : Cx ℝ) : ℂ := ⟨z.re, z.im⟩
def ofC (z : ℂ) : Cx ℝ := ⟨z.re, z.im⟩

@[simp] theorem toC_re (z : Cx ℝ) : z.toC.re = z.re := rfl
@[simp] theorem toC_im (z : Cx ℝ) : z.toC.im = z.im := rfl
@[simp] theorem toC_ofC (z : ℂ) : (ofC z).toC = z := rfl
@[simp] theorem ofC_toC (z : Cx ℝ) : ofC z.toC = z := rfl
theorem toC_injective : Function.Injective toC := fun a b h => by
  cases a; cases b; simp only [toC, Complex.mk.injEq] at h; simp [h.1, h.2]

@[simp] theorem toC_add (z w : Cx ℝ) : (z + w).toC = z.toC + w.toC := by
  apply Complex.ext <;> rfl
@[simp] theorem toC_add' (z w : Cx ℝ) : (Cx.add z w).toC = z.toC + w.toC := toC_add z w
@[simp] theorem toC_sub (z w : Cx ℝ) : (z - w).toC = z.toC - w.toC := by
  apply Complex.ext <;> rfl
@[simp] theorem toC_sub' (z w : Cx ℝ) : (Cx.sub z w).toC = z.toC - w.toC := toC_sub z w
@[simp] theorem toC_neg (z : Cx ℝ) : (-z).toC = -z.toC := by
  apply Complex.ext <;> rfl
@[simp] theorem toC_neg' (z : Cx ℝ) : (Cx.neg z).toC = -z.toC := toC_neg z
@[simp] theorem toC_mul' (z w : Cx ℝ) : (Cx.mul z w).toC = z.toC * w.toC := by
  apply Complex.ext <;> simp [Cx.mul, toC]
@[simp] theorem toC_mul (z w : Cx ℝ) : (z * w).toC = z.toC * w.toC := toC_mul' z w
@[simp] theorem toC_smul (s : ℝ) (z : Cx ℝ) : (Cx.smul s z).toC = (s : ℂ) * z.toC := by
  apply Complex.ext <;> simp [Cx.smul, toC]
@[simp] theorem toC_muls (z : Cx ℝ) (s : ℝ) : (Cx.muls z s).toC = z.toC * (s : ℂ) := by
  apply Complex.ext <;> simp [Cx.muls, toC]
@[simp] theorem toC_divs (z : Cx ℝ) (s : ℝ) : (Cx.divs z s).toC = z.toC / (s : ℂ) := by
  apply Complex.ext
  · simp [Cx.divs, toC, Complex.div_ofReal_re]
  · simp [Cx.divs, toC, Complex.div_ofReal_im]
@[simp] theorem toC_conj (z : Cx ℝ) : z.conj.toC = (starRingEnd ℂ) z.toC := by
  apply Complex.ext <;> simp [Cx.conj, toC]
@[simp] theorem normSq_eq (z : Cx ℝ) : z.normSq = Complex.normSq z.toC := by
  simp [Cx.normSq, Complex.normSq_apply]
@[simp] theorem toC_zero : (Cx.zero : Cx ℝ).toC = 0 := by
  apply Complex.ext <;> simp [Cx.zero, toC, lit_zero]
@[simp] theorem toC_one : (Cx.one : Cx ℝ).toC = 1 := by
  apply Complex.ext <;> simp [Cx.one, toC, lit_zero, lit_one]
@[simp] theorem toC_ofReal (x : ℝ) : (Cx.ofReal x).toC = (x : ℂ) := by
  apply Complex.ext <;> simp [Cx.ofReal, toC, lit_zero]
@[simp] theorem toC_ofImag (x : ℝ) : (Cx.ofImag x).toC = (x : ℂ) * Complex.I := by
  apply Complex.ext <;> simp [Cx.ofImag, toC, lit_zero]
@[simp] theorem toC_inv (z : Cx ℝ) : z.inv.toC = z.toC⁻¹ := by
  apply Complex.ext <;> simp [Cx.inv, toC, Complex.inv_re, Complex.inv_im, Cx.normSq, Complex.normSq_apply]
@[simp] theorem toC_div' (z w : Cx ℝ) : (Cx.div z w).toC = z.toC / w.toC := by
  apply Complex.ext <;>
    simp [Cx.div, toC, Complex.div_re, Complex.div_im, Cx.normSq, Complex.normSq_apply] <;>
    ring
@[simp] theorem toC_div (z w : Cx ℝ) : (z / w).toC = z.toC / w.toC := toC_div' z w
@[simp] theorem toC_cis (θ : ℝ) : (Cx.cis θ).toC = Complex.exp (θ * Complex.I) := by
  apply Complex.ext <;> simp [Cx.cis, toC, Transc.cos, Transc.sin, Complex.exp_ofReal_mul_I_re, Complex.exp_ofReal_mul_I_im]
@[simp] theorem toC_exp (z : Cx ℝ) : z.exp.toC = Complex.exp z.toC := by
  apply Complex.ext <;>
    simp [Cx.exp, Cx.fromPolar, toC, Transc.exp, Transc.cos, Transc.sin, Complex.exp_re, Complex.exp_im]
theorem abs_eq (z : Cx ℝ) : z.abs = ‖z.toC‖ := by
  simp [Cx.abs, Transc.sqrt, Complex.norm_def]

theorem toC_sum (l : List (Cx ℝ)) : (Cx.sum l).toC = (l.map toC).sum := by
  unfold Cx.sum
  suffices h : ∀ (acc : Cx ℝ), (l.foldl Cx.add acc).toC = acc.toC + (l.map toC).sum by
    simpa using h Cx.zero
  induction l with
  | nil => intro acc; simp
  | cons a l ih => intro acc; simp [List.foldl_cons, ih, add_assoc]

end Cx

theorem sumList_eq (l : List ℝ) : sumList l = l.sum := by
  unfold sumList
  suffices h : ∀ acc : ℝ, l.foldl (· + ·) acc = acc + l.sum by simpa [lit_zero] using h 0
  induction l with
  | nil => intro acc; simp
  | cons a l ih => intro acc; simp [List.foldl_cons, ih, add_assoc]

end Spdc
