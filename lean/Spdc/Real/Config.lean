import Spdc.Model.Config
import Spdc.Real.Inst
/-!
# ℝ-side lemmas for the configuration model: units, `sigfigs`, angle normalisation, wavelength ↔ frequency
-/
namespace Spdc.Cfg
open Spdc

theorem pi_eq : (Transc.pi : ℝ) = Real.pi := rfl
theorem abs_eq (x : ℝ) : Transc.abs x = |x| := rfl

theorem twoPi_eq : (twoPi : ℝ) = 2 * Real.pi := by
  unfold twoPi; rw [pi_eq, lit_two]

theorem twoPi_pos : (0 : ℝ) < twoPi := by rw [twoPi_eq]; positivity

theorem deg_eq : (deg : ℝ) = Real.pi / 180 := by
  unfold deg; rw [pi_eq]; norm_num; ring

theorem deg_pos : (0 : ℝ) < deg := by rw [deg_eq]; positivity
theorem deg_ne : (deg : ℝ) ≠ 0 := deg_pos.ne'

theorem micro_eq : (micro : ℝ) = 1 / 1000000 := by unfold micro; norm_num
theorem micro_pos : (0 : ℝ) < micro := by rw [micro_eq]; norm_num
theorem micro_ne : (micro : ℝ) ≠ 0 := micro_pos.ne'
theorem nano_eq : (nano : ℝ) = 1 / 1000000000 := by unfold nano; norm_num
theorem nano_pos : (0 : ℝ) < nano := by rw [nano_eq]; norm_num
theorem nano_ne : (nano : ℝ) ≠ 0 := nano_pos.ne'
theorem pmPerVolt_pos : (0 : ℝ) < pmPerVolt := by unfold pmPerVolt; norm_num
theorem pmPerVolt_ne : (pmPerVolt : ℝ) ≠ 0 := pmPerVolt_pos.ne'
theorem twoPiC_pos : (0 : ℝ) < twoPiC := by
  unfold twoPiC; exact mul_pos twoPi_pos (by norm_num)
theorem twoPiC_ne : (twoPiC : ℝ) ≠ 0 := twoPiC_pos.ne'

/-- `(v · u) / u = v` — the unit round trip behind every direct field -/
theorem unit_roundtrip (v u : ℝ) (hu : u ≠ 0) : v * u / u = v := by field_simp

theorem deg_roundtrip (v : ℝ) : v * deg / deg = v := unit_roundtrip v deg deg_ne
theorem micro_roundtrip (v : ℝ) : v * micro / micro = v := unit_roundtrip v micro micro_ne
theorem nano_roundtrip (v : ℝ) : v * nano / nano = v := unit_roundtrip v nano nano_ne
theorem pmPerVolt_roundtrip (v : ℝ) : v * pmPerVolt / pmPerVolt = v := unit_roundtrip v _ pmPerVolt_ne
theorem toDeff_eq (v : ℝ) : toDeff v = v * pmPerVolt := by
  unfold toDeff pmPerVolt; exact mul_div_assoc v _ _
theorem toDeff_roundtrip (v : ℝ) : toDeff v / pmPerVolt = v := by rw [toDeff_eq, pmPerVolt_roundtrip]
theorem kelvin_roundtrip (v : ℝ) : v + kelvin0 - kelvin0 = v := by ring
theorem mw_roundtrip (v : ℝ) : v * (1.0e-3 : ℝ) * (1000.0 : ℝ) / (1.0 : ℝ) = v := by norm_num; ring
theorem one_roundtrip (v : ℝ) : v * (1.0 : ℝ) / (1.0 : ℝ) = v := by norm_num

/-! ### rounding -/

theorem round_def (x : ℝ) :
    Transc.round x = if 0 ≤ x then ((⌊x + 1 / 2⌋ : ℤ) : ℝ) else ((⌈x - 1 / 2⌉ : ℤ) : ℝ) := rfl

theorem round_isInt (x : ℝ) : ∃ n : ℤ, Transc.round x = (n : ℝ) := by
  rw [round_def]; split
  · exact ⟨_, rfl⟩
  · exact ⟨_, rfl⟩

theorem round_intCast (n : ℤ) : Transc.round (n : ℝ) = (n : ℝ) := by
  rw [round_def]; split
  · congr 1
    rw [Int.floor_eq_iff]; constructor <;> linarith
  · congr 1
    rw [Int.ceil_eq_iff]; constructor <;> linarith

theorem sigfigs_def (x : ℝ) : sigfigs x = Transc.round (x * 10000) / 10000 := by
  unfold sigfigs; norm_num

/-- rounded values lie on the 10⁻⁴ grid -/
theorem sigfigs_grid (x : ℝ) : ∃ n : ℤ, sigfigs x = (n : ℝ) / 10000 := by
  obtain ⟨n, hn⟩ := round_isInt (x * 10000)
  exact ⟨n, by rw [sigfigs_def, hn]⟩

theorem sigfigs_of_grid (n : ℤ) : sigfigs ((n : ℝ) / 10000) = (n : ℝ) / 10000 := by
  rw [sigfigs_def]
  have : (n : ℝ) / 10000 * 10000 = n := by ring
  rw [this, round_intCast]

/-- rounding twice is rounding once -/
theorem sigfigs_idem (x : ℝ) : sigfigs (sigfigs x) = sigfigs x := by
  obtain ⟨n, hn⟩ := sigfigs_grid x
  rw [hn, sigfigs_of_grid]

theorem sigfigs_abs_sigfigs (x : ℝ) : sigfigs |sigfigs x| = |sigfigs x| := by
  obtain ⟨n, hn⟩ := sigfigs_grid x
  rw [hn]
  have : |(n : ℝ) / 10000| = ((|n| : ℤ) : ℝ) / 10000 := by
    rw [abs_div, Int.cast_abs]; norm_num
  rw [this, sigfigs_of_grid]

theorem sigfigs_neg_abs_sigfigs (x : ℝ) : sigfigs (-|sigfigs x|) = -|sigfigs x| := by
  obtain ⟨n, hn⟩ := sigfigs_grid x
  rw [hn]
  have : -|(n : ℝ) / 10000| = ((-|n| : ℤ) : ℝ) / 10000 := by
    rw [abs_div, Int.cast_neg, Int.cast_abs]; norm_num; ring
  rw [this, sigfigs_of_grid]

/-- |sigfigs x − x| ≤ ½·10⁻⁴ -/
theorem sigfigs_close (x : ℝ) : |sigfigs x - x| ≤ 1 / 20000 := by
  rw [sigfigs_def, round_def]
  have key : ∀ r : ℝ, |r - x * 10000| ≤ 1 / 2 → |r / 10000 - x| ≤ 1 / 20000 := by
    intro r hr
    have : r / 10000 - x = (r - x * 10000) / 10000 := by ring
    rw [this, abs_div]; norm_num
    rw [div_le_iff₀ (by norm_num)]; linarith
  split
  · apply key
    have h1 := Int.floor_le (x * 10000 + 1 / 2)
    have h2 := Int.lt_floor_add_one (x * 10000 + 1 / 2)
    rw [abs_le]; constructor <;> linarith
  · apply key
    have h1 := Int.le_ceil (x * 10000 - 1 / 2)
    have h2 := Int.ceil_lt_add_one (x * 10000 - 1 / 2)
    rw [abs_le]; constructor <;> linarith

/-! ### angles -/

theorem trunc_of_nonneg_lt_one {x : ℝ} (h0 : 0 ≤ x) (h1 : x < 1) : trunc x = 0 := by
  unfold trunc
  rw [if_neg (by rw [lit_zero]; linarith)]
  show ((⌊x⌋ : ℤ) : ℝ) = 0
  have : ⌊x⌋ = 0 := by rw [Int.floor_eq_iff]; constructor <;> simp <;> linarith
  rw [this]; simp

theorem trunc_of_neg_gt_neg_one {x : ℝ} (h0 : x < 0) (h1 : -1 < x) : trunc x = 0 := by
  unfold trunc
  rw [if_pos (by rw [lit_zero]; exact h0)]
  show ((⌈x⌉ : ℤ) : ℝ) = 0
  have : ⌈x⌉ = 0 := by rw [Int.ceil_eq_iff]; constructor <;> simp <;> linarith
  rw [this]; simp

theorem remEuclid_of_mem {x m : ℝ} (hm : 0 < m) (h0 : 0 ≤ x) (h1 : x < m) : remEuclid x m = x := by
  unfold remEuclid
  have : trunc (x / m) = 0 :=
    trunc_of_nonneg_lt_one (div_nonneg h0 hm.le) (by rw [div_lt_one hm]; exact h1)
  simp only [this, mul_zero, sub_zero]
  rw [if_neg (by rw [lit_zero]; linarith)]

theorem remEuclid_of_neg {x m : ℝ} (hm : 0 < m) (h0 : x < 0) (h1 : -m < x) :
    remEuclid x m = x + m := by
  unfold remEuclid
  have : trunc (x / m) = 0 :=
    trunc_of_neg_gt_neg_one (div_neg_of_neg_of_pos h0 hm) (by rw [lt_div_iff₀ hm]; linarith)
  simp only [this, mul_zero, sub_zero]
  rw [if_pos (by rw [lit_zero]; exact h0), abs_eq, abs_of_pos hm]

/-- `normalize_angle` is the identity on [0, 2π) -/
theorem normAngle_of_mem {x : ℝ} (h0 : 0 ≤ x) (h1 : x < 2 * Real.pi) : normAngle x = x := by
  unfold normAngle
  exact remEuclid_of_mem twoPi_pos h0 (by rw [twoPi_eq]; exact h1)

/-- `normalize_angle_signed` is the identity on (−π, π] -/
theorem normAngleSigned_of_mem {x : ℝ} (h0 : -Real.pi < x) (h1 : x ≤ Real.pi) :
    normAngleSigned x = x := by
  unfold normAngleSigned
  have hpi := Real.pi_pos
  by_cases hx : 0 ≤ x
  · have : remEuclid x twoPi = x :=
      remEuclid_of_mem twoPi_pos hx (by rw [twoPi_eq]; linarith)
    simp only [this]
    rw [if_neg (by rw [pi_eq]; linarith)]
  · rw [not_le] at hx
    have : remEuclid x twoPi = x + twoPi :=
      remEuclid_of_neg twoPi_pos hx (by rw [twoPi_eq]; linarith)
    simp only [this]
    rw [if_pos (by rw [pi_eq, twoPi_eq]; linarith)]
    ring

theorem normAngle_deg {v : ℝ} (h0 : 0 ≤ v) (h1 : v < 360) : normAngle (v * deg) = v * deg := by
  apply normAngle_of_mem
  · exact mul_nonneg h0 deg_pos.le
  · rw [deg_eq]; have := Real.pi_pos; nlinarith

theorem normAngleSigned_deg {v : ℝ} (h0 : -180 < v) (h1 : v ≤ 180) :
    normAngleSigned (v * deg) = v * deg := by
  have := Real.pi_pos
  apply normAngleSigned_of_mem <;> rw [deg_eq] <;> nlinarith

theorem normAngle_zero : normAngle (0.0 : ℝ) = 0 := by
  rw [lit_zero]; exact normAngle_of_mem le_rfl (by positivity)

theorem normAngleSigned_zero : normAngleSigned (0.0 : ℝ) = 0 := by
  rw [lit_zero]; exact normAngleSigned_of_mem (by linarith [Real.pi_pos]) Real.pi_pos.le

theorem wrap360_of_mem {x : ℝ} (h0 : 0 ≤ x) (h1 : x < 360) : wrap360 x = x := by
  unfold wrap360
  exact remEuclid_of_mem (by norm_num) h0 (by norm_num; exact h1)

/-- a rounded azimuth that landed on 360 is written as 0 -/
theorem wrap360_360 : wrap360 (360 : ℝ) = 0 := by
  unfold wrap360 remEuclid
  have h360 : (360.0 : ℝ) = 360 := by norm_num
  have : trunc ((360 : ℝ) / 360.0) = 1 := by
    rw [h360, div_self (by norm_num)]
    unfold trunc
    rw [if_neg (by rw [lit_zero]; norm_num)]
    show ((⌊(1 : ℝ)⌋ : ℤ) : ℝ) = 1
    simp
  rw [this, h360, lit_zero]
  norm_num

/-! ### wavelength ↔ frequency -/

theorem wlToFreq_def (lam : ℝ) : wlToFreq lam = twoPiC / lam := by
  unfold wlToFreq; rw [lit_one, mul_one]
theorem freqToWl_def (om : ℝ) : freqToWl om = twoPiC / om := by
  unfold freqToWl; rw [lit_one, mul_one]

theorem wl_roundtrip (lam : ℝ) : freqToWl (wlToFreq lam) = lam := by
  rw [freqToWl_def, wlToFreq_def]
  by_cases h : lam = 0
  · subst h; simp
  · field_simp [twoPiC_ne]

/-- THz as 10¹² cycles per second: ω = 2π·ν·10¹² has vacuum wavelength c/(ν·10¹²) -/
theorem thz_wavelength (v : ℝ) :
    freqToWl (twoPi * v * (1.0e12 : ℝ)) = 299792458 / (v * 10 ^ 12) := by
  rw [freqToWl_def]
  unfold twoPiC
  have h2 : (twoPi : ℝ) ≠ 0 := twoPi_pos.ne'
  by_cases hv : v = 0
  · subst hv; simp
  · have : (1.0e12 : ℝ) = 10 ^ 12 := by norm_num
    rw [this]
    have hc : (299792458.0 : ℝ) = 299792458 := by norm_num
    rw [hc]
    field_simp

end Spdc.Cfg
