import Spdc.Model.NM1D
import Spdc.Real.Inst
/-! # ℝ-side helper lemmas for `Model/NM1D.lean` (C04; used by C13, C20) -/
namespace Spdc.NM1D
end Spdc.NM1D
