import Spdc.Model.NM1D
import Spdc.Real.Inst
import Mathlib.Tactic.Linarith
/-!
# ℝ-side helper lemmas for `Model/NM1D.lean` (C04; used by C13, C20)

The invariant of argmin's two-vertex Nelder–Mead under a NaN-free cost: both vertices carry the cost
of their own abscissa, the simplex is sorted, and the best cost never increases.
-/
namespace Spdc.NM1D

namespace Cost

theorem le_total {a b : Cost ℝ} (ha : a ≠ .nan) (hb : b ≠ .nan) :
    Cost.le a b = true ∨ Cost.le b a = true := by
  cases a <;> cases b <;> simp_all [Cost.le, _root_.le_total]

theorem le_refl {a : Cost ℝ} (ha : a ≠ .nan) : Cost.le a a = true := by
  cases a <;> simp_all [Cost.le]

theorem le_trans {a b d : Cost ℝ} (h1 : Cost.le a b = true) (h2 : Cost.le b d = true) :
    Cost.le a d = true := by
  cases a <;> cases b <;> cases d <;> simp_all [Cost.le]
  exact _root_.le_trans h1 h2

theorem le_of_lt {a b : Cost ℝ} (h : Cost.lt a b = true) : Cost.le a b = true := by
  cases a <;> cases b <;> simp_all [Cost.le, Cost.lt]
  exact h.le

theorem lt_or_le {a b : Cost ℝ} (ha : a ≠ .nan) (hb : b ≠ .nan) :
    Cost.lt a b = true ∨ Cost.le b a = true := by
  cases a <;> cases b <;> simp_all [Cost.le, Cost.lt, _root_.lt_or_ge]

/-- `a ≤ b` and `¬ a < b` force equality (antisymmetry through the strict order) -/
theorem eq_of_le_of_not_lt {a b : Cost ℝ} (h1 : Cost.le a b = true) (h2 : Cost.lt a b = false) :
    a = b := by
  cases a <;> cases b <;> simp_all [Cost.le, Cost.lt]
  exact le_antisymm h1 h2

theorem ne_nan_of_le_left {a b : Cost ℝ} (h : Cost.le a b = true) : a ≠ .nan := by
  cases a <;> simp_all [Cost.le]

theorem ne_nan_of_le_right {a b : Cost ℝ} (h : Cost.le a b = true) : b ≠ .nan := by
  cases a <;> cases b <;> simp_all [Cost.le]

/-- below a finite cost there are only finite costs -/
theorem fin_of_le_fin {a : Cost ℝ} {y : ℝ} (h : Cost.le a (.fin y) = true) :
    ∃ x, a = .fin x ∧ x ≤ y := by
  cases a <;> simp_all [Cost.le]

end Cost

/-- the bounded cost is infinite outside the bounds, hence a finite value certifies membership -/
theorem mem_bounds_of_cost1d_fin {f : ℝ → Cost ℝ} {lo hi x v : ℝ}
    (h : cost1d f lo hi x = .fin v) : lo ≤ x ∧ x ≤ hi := by
  unfold cost1d at h
  split_ifs at h with hc
  rw [not_or, not_lt, not_lt] at hc
  exact ⟨hc.2, hc.1⟩

theorem cost1d_ne_nan {f : ℝ → Cost ℝ} {lo hi : ℝ} (hf : ∀ x, lo ≤ x → x ≤ hi → f x ≠ .nan)
    (x : ℝ) : cost1d f lo hi x ≠ .nan := by
  unfold cost1d
  split_ifs with hc
  · simp
  · rw [not_or, not_lt, not_lt] at hc
    exact hf x hc.2 hc.1

theorem cost1d_of_mem {f : ℝ → Cost ℝ} {lo hi x : ℝ} (h0 : lo ≤ x) (h1 : x ≤ hi) :
    cost1d f lo hi x = f x := by
  unfold cost1d
  rw [if_neg]
  rw [not_or, not_lt, not_lt]; exact ⟨h1, h0⟩

theorem cost1d_of_gt {f : ℝ → Cost ℝ} {lo hi x : ℝ} (h : hi < x) :
    cost1d f lo hi x = .inf := by
  unfold cost1d
  rw [if_pos (Or.inl h)]

section inv
variable (c : ℝ → Cost ℝ)

/-- every vertex carries the cost of its own abscissa and the simplex is sorted -/
structure Inv (s : Simplex ℝ) : Prop where
  hb : s.b.f = c s.b.x
  hw : s.w.f = c s.w.x
  sorted : Cost.le s.b.f s.w.f = true

theorem sort2_cases (p0 p1 : Vtx ℝ) :
    (sort2 p0 p1 = ⟨p1, p0⟩ ∧ Cost.lt p1.f p0.f = true) ∨
    (sort2 p0 p1 = ⟨p0, p1⟩ ∧ Cost.lt p1.f p0.f = false) := by
  unfold sort2
  by_cases h : Cost.lt p1.f p0.f = true
  · left; simp [h]
  · right; simp [h]

theorem sort2_inv {p0 p1 : Vtx ℝ} (h0 : p0.f = c p0.x) (h1 : p1.f = c p1.x)
    (n0 : p0.f ≠ .nan) (n1 : p1.f ≠ .nan) :
    Inv c (sort2 p0 p1) ∧ Cost.le (sort2 p0 p1).b.f p0.f = true ∧
      Cost.le (sort2 p0 p1).b.f p1.f = true := by
  rcases sort2_cases p0 p1 with ⟨e, hlt⟩ | ⟨e, hlt⟩
  · rw [e]
    exact ⟨⟨h1, h0, Cost.le_of_lt hlt⟩, Cost.le_of_lt hlt, Cost.le_refl n1⟩
  · rw [e]
    have hle : Cost.le p0.f p1.f = true := by
      rcases Cost.lt_or_le n1 n0 with h | h
      · rw [h] at hlt; cases hlt
      · exact h
    exact ⟨⟨h0, h1, hle⟩, Cost.le_refl n0, hle⟩

theorem shrink_consistent (s : Simplex ℝ) : (shrink c s).f = c (shrink c s).x := rfl

/-- the replacement vertex proposed by one iteration carries its own cost -/
theorem stepCore_consistent {s : Simplex ℝ} {v : Vtx ℝ} (h : (stepCore c s).1 = some v) :
    v.f = c v.x := by
  unfold stepCore at h
  simp only at h
  split_ifs at h <;> simp only [Option.some.injEq] at h <;> subst h <;> rfl

/-- under a NaN-free cost the `PotentialBug` branch is unreachable -/
theorem stepCore_isSome (hc : ∀ x, c x ≠ .nan) {s : Simplex ℝ} (hb : s.b.f ≠ .nan) :
    ∃ v, (stepCore c s).1 = some v := by
  have key := Cost.lt_or_le
    (hc (s.b.x * ((1.0 : ℝ) / (1.0 : ℝ)) + (s.b.x * ((1.0 : ℝ) / (1.0 : ℝ)) - s.w.x) * (1.0 : ℝ))) hb
  unfold stepCore
  simp only
  split_ifs <;> first
    | exact ⟨_, rfl⟩
    | (exfalso; rcases key with h | h <;> contradiction)

/-- **one iteration**: the invariant is preserved and the best cost does not increase -/
theorem step_inv (hc : ∀ x, c x ≠ .nan) {s : Simplex ℝ} (hs : Inv c s) :
    ∃ s', step c s = some s' ∧ Inv c s' ∧ Cost.le s'.b.f s.b.f = true := by
  have hbn : s.b.f ≠ .nan := by rw [hs.hb]; exact hc _
  obtain ⟨v, hv⟩ := stepCore_isSome c hc hbn
  have hvc := stepCore_consistent c hv
  have hvn : v.f ≠ .nan := by rw [hvc]; exact hc _
  refine ⟨sort2 s.b v, by simp [step, hv], ?_⟩
  obtain ⟨hi, hl, -⟩ := sort2_inv c hs.hb hvc hbn hvn
  exact ⟨hi, hl⟩

/-- invariant of the executor state: simplex invariant, and `best_cost`/`best_param` track the best
vertex -/
structure InvSt (st : St ℝ) : Prop where
  sx : Inv c st.sx
  bestF : st.bestF = st.sx.b.f
  bestX : ∃ x, st.bestX = some x ∧ c x = st.bestF

theorem upd_track {sx : Simplex ℝ} (hsx : Inv c sx) {bx : Option ℝ}
    {bf : Cost ℝ} (hle : Cost.le sx.b.f bf = true) (hx : ∃ x, bx = some x ∧ c x = bf) :
    (upd sx bx bf).2 = sx.b.f ∧ ∃ x, (upd sx bx bf).1 = some x ∧ c x = (upd sx bx bf).2 := by
  unfold upd
  by_cases h : (Cost.lt sx.b.f bf || (sx.b.f.isInf && bf.isInf)) = true
  · rw [if_pos h]
    exact ⟨rfl, sx.b.x, rfl, hsx.hb.symm⟩
  · rw [if_neg h]
    simp only [Bool.or_eq_true, Bool.and_eq_true, not_or, Bool.not_eq_true] at h
    have he := Cost.eq_of_le_of_not_lt hle h.1
    exact ⟨he.symm, by rw [← he] at hx ⊢; exact hx⟩

theorem init_inv (hc : ∀ x, c x ≠ .nan) (g0 g1 : ℝ) :
    InvSt c (init c g0 g1) ∧ Cost.le (init c g0 g1).sx.b.f (c g0) = true ∧
      Cost.le (init c g0 g1).sx.b.f (c g1) = true := by
  obtain ⟨hi, h0, h1⟩ := sort2_inv c (p0 := ⟨g0, c g0⟩) (p1 := ⟨g1, c g1⟩) rfl rfl (hc _) (hc _)
  generalize hS : (sort2 ⟨g0, c g0⟩ ⟨g1, c g1⟩ : Simplex ℝ) = S at hi h0 h1
  have hn : S.b.f ≠ .nan := by rw [hi.hb]; exact hc _
  have hst : init c g0 g1 = ⟨S, (upd S none Cost.inf).1, (upd S none Cost.inf).2, [g1, g0]⟩ := by
    simp only [init, hS]
  rw [hst]
  -- first update from `best_cost = +∞`: always taken for a non-NaN best cost
  have hu : upd S none Cost.inf = (some S.b.x, S.b.f) := by
    unfold upd
    cases hf : S.b.f with
    | fin a => simp [Cost.lt]
    | inf => simp [Cost.lt, Cost.isInf]
    | nan => exact absurd hf hn
  refine ⟨⟨hi, ?_, ?_⟩, h0, h1⟩
  · simp only [hu]
  · simp only [hu]; exact ⟨_, rfl, hi.hb.symm⟩

/-- **the executor loop**: it never fails, keeps the invariant, and the best cost only decreases -/
theorem loop_inv (hc : ∀ x, c x ≠ .nan) (tol : ℝ) :
    ∀ (fuel : Nat) (st : St ℝ), InvSt c st →
      ∃ st', loop c tol fuel st = some st' ∧ InvSt c st' ∧
        Cost.le st'.sx.b.f st.sx.b.f = true := by
  intro fuel
  induction fuel with
  | zero =>
    intro st hst
    exact ⟨st, rfl, hst, Cost.le_refl (by rw [hst.sx.hb]; exact hc _)⟩
  | succ n ih =>
    intro st hst
    have hbn : st.sx.b.f ≠ .nan := by rw [hst.sx.hb]; exact hc _
    unfold loop
    by_cases hsd : sdSmall st.sx tol = true
    · rw [if_pos hsd]
      exact ⟨st, rfl, hst, Cost.le_refl hbn⟩
    · rw [if_neg hsd]
      obtain ⟨sx', hstep, hinv', hle⟩ := step_inv c hc hst.sx
      rw [hstep]
      simp only
      have hle' : Cost.le sx'.b.f st.bestF = true := by rw [hst.bestF]; exact hle
      obtain ⟨hu2, hu1⟩ := upd_track c hinv' hle' hst.bestX
      obtain ⟨st', hl, hi', hle2⟩ := ih
        ⟨sx', (upd sx' st.bestX st.bestF).1, (upd sx' st.bestX st.bestF).2,
          (stepCore c st.sx).2.reverse ++ st.log⟩ ⟨hinv', hu2, hu1⟩
      exact ⟨st', hl, hi', Cost.le_trans hle2 hle⟩

end inv

/-- **result of `nelder_mead_1d` under a NaN-free cost**: a value (no panic) whose bounded cost is
not above that of either seed -/
theorem run_spec (f : ℝ → Cost ℝ) (g0 g1 : ℝ) (maxIter : Nat) (lo hi tol : ℝ)
    (hf : ∀ x, lo ≤ x → x ≤ hi → f x ≠ .nan) :
    ∃ x, run f g0 g1 maxIter lo hi tol = .ok x ∧
      Cost.le (cost1d f lo hi x) (cost1d f lo hi g0) = true ∧
      Cost.le (cost1d f lo hi x) (cost1d f lo hi g1) = true := by
  have hc := cost1d_ne_nan hf
  obtain ⟨hi0, h0, h1⟩ := init_inv (cost1d f lo hi) hc g0 g1
  obtain ⟨st', hl, hinv, hle⟩ := loop_inv (cost1d f lo hi) hc tol maxIter _ hi0
  obtain ⟨x, hx, hcx⟩ := hinv.bestX
  refine ⟨x, ?_, ?_, ?_⟩
  · simp [run, runSt, hl, hx]
  · rw [hcx, hinv.bestF]; exact Cost.le_trans hle h0
  · rw [hcx, hinv.bestF]; exact Cost.le_trans hle h1

/-! ### both seeds (and everything the simplex can reach) above the upper bound -/

/-- state reached when every evaluated point lies above the upper bound: the best vertex stays the
first seed, all costs are `+∞`, and `best_param` is the first seed -/
structure AllOut (g d : ℝ) (st : St ℝ) : Prop where
  bx : st.sx.b.x = g
  bf : st.sx.b.f = .inf
  wf : st.sx.w.f = .inf
  w0 : g < st.sx.w.x
  w1 : st.sx.w.x ≤ g + d
  bestX : st.bestX = some g
  bestF : st.bestF = .inf

theorem allOut_step {f : ℝ → Cost ℝ} {lo hi g d : ℝ} (h : hi < g - d) {st : St ℝ}
    (hs : AllOut g d st) :
    ∃ sx', step (cost1d f lo hi) st.sx = some sx' ∧ sx'.b.x = g ∧ sx'.b.f = .inf ∧
      sx'.w.f = .inf ∧ g < sx'.w.x ∧ sx'.w.x ≤ g + d := by
  obtain ⟨hbx, hbf, hwf, hw0, hw1, -, -⟩ := hs
  have hxr : cost1d f lo hi (st.sx.b.x * ((1.0 : ℝ) / (1.0 : ℝ)) +
      (st.sx.b.x * ((1.0 : ℝ) / (1.0 : ℝ)) - st.sx.w.x) * (1.0 : ℝ)) = .inf := by
    apply cost1d_of_gt; rw [hbx]; norm_num; linarith
  have hxc : cost1d f lo hi (st.sx.b.x * ((1.0 : ℝ) / (1.0 : ℝ)) +
      (st.sx.w.x - st.sx.b.x * ((1.0 : ℝ) / (1.0 : ℝ))) * (0.5 : ℝ)) = .inf := by
    apply cost1d_of_gt; rw [hbx]; norm_num; linarith
  have hsh : cost1d f lo hi (st.sx.b.x + (st.sx.w.x - st.sx.b.x) * (0.5 : ℝ)) = .inf := by
    apply cost1d_of_gt; rw [hbx]; norm_num; linarith
  have hcore : (stepCore (cost1d f lo hi) st.sx).1 =
      some ⟨st.sx.b.x + (st.sx.w.x - st.sx.b.x) * (0.5 : ℝ), .inf⟩ := by
    unfold stepCore
    simp only [hxr, hxc, hbf, hwf, shrink, hsh, Cost.lt, Cost.le, Bool.false_and, Bool.false_eq_true,
      if_false, if_true]
  refine ⟨sort2 st.sx.b ⟨st.sx.b.x + (st.sx.w.x - st.sx.b.x) * (0.5 : ℝ), .inf⟩, ?_, ?_⟩
  · simp [step, hcore]
  · have hs2 : sort2 st.sx.b ⟨st.sx.b.x + (st.sx.w.x - st.sx.b.x) * (0.5 : ℝ), Cost.inf⟩ =
        ⟨st.sx.b, ⟨st.sx.b.x + (st.sx.w.x - st.sx.b.x) * (0.5 : ℝ), Cost.inf⟩⟩ := by
      simp [sort2, Cost.lt]
    rw [hs2]
    refine ⟨hbx, hbf, rfl, ?_, ?_⟩
    · show g < st.sx.b.x + (st.sx.w.x - st.sx.b.x) * (0.5 : ℝ)
      rw [hbx]; norm_num; linarith
    · show st.sx.b.x + (st.sx.w.x - st.sx.b.x) * (0.5 : ℝ) ≤ g + d
      rw [hbx]; norm_num; linarith

theorem allOut_loop {f : ℝ → Cost ℝ} {lo hi g d : ℝ} (h : hi < g - d) (tol : ℝ) :
    ∀ (fuel : Nat) (st : St ℝ), AllOut g d st →
      ∃ st', loop (cost1d f lo hi) tol fuel st = some st' ∧ st'.bestX = some g := by
  intro fuel
  induction fuel with
  | zero => intro st hs; exact ⟨st, rfl, hs.bestX⟩
  | succ n ih =>
    intro st hs
    obtain ⟨sx', hstep, h1, h2, h3, h4, h5⟩ := allOut_step (f := f) (lo := lo) h hs
    unfold loop
    have hsd : sdSmall st.sx tol = false := by simp [sdSmall, hs.bf]
    rw [hsd]
    simp only [Bool.false_eq_true, if_false, hstep]
    apply ih
    have hu : upd sx' st.bestX st.bestF = (some g, Cost.inf) := by
      simp [upd, h2, hs.bestF, Cost.lt, Cost.isInf, h1]
    exact ⟨h1, h2, h3, h4, h5, by simp only [hu], by simp only [hu]⟩

/-- seeds `(g, g + d)` with even the reflected point `g − d` above the upper bound: the optimiser
returns the first seed, for every cost function, iteration cap and tolerance -/
theorem run_all_out (f : ℝ → Cost ℝ) (g d : ℝ) (hd : 0 < d) (n : Nat) (lo hi tol : ℝ)
    (h : hi < g - d) : run f g (g + d) n lo hi tol = .ok g := by
  have h0 : cost1d f lo hi g = .inf := cost1d_of_gt (by linarith)
  have h1 : cost1d f lo hi (g + d) = .inf := cost1d_of_gt (by linarith)
  have hinit : AllOut g d (init (cost1d f lo hi) g (g + d)) := by
    have hS : (sort2 ⟨g, cost1d f lo hi g⟩ ⟨g + d, cost1d f lo hi (g + d)⟩ : Simplex ℝ) =
        ⟨⟨g, .inf⟩, ⟨g + d, .inf⟩⟩ := by
      simp [sort2, h0, h1, Cost.lt]
    have hst : init (cost1d f lo hi) g (g + d) =
        ⟨⟨⟨g, .inf⟩, ⟨g + d, .inf⟩⟩, some g, .inf, [g + d, g]⟩ := by
      simp [init, hS, upd, Cost.lt, Cost.isInf]
    rw [hst]
    exact ⟨rfl, rfl, rfl, by simp [hd], le_rfl, rfl, rfl⟩
  obtain ⟨st', hl, hx⟩ := allOut_loop (f := f) (lo := lo) h tol n _ hinit
  simp [run, runSt, hl, hx]

/-! ### the reflected point bounds the next best cost -/

section reflect
variable (c : ℝ → Cost ℝ)

/-- argmin's reflected point `x0 + (x0 − worst)·α` for the two-vertex simplex -/
noncomputable def reflectPt (s : Simplex ℝ) : ℝ :=
  s.b.x * ((1.0 : ℝ) / (1.0 : ℝ)) + (s.b.x * ((1.0 : ℝ) / (1.0 : ℝ)) - s.w.x) * (1.0 : ℝ)

theorem reflectPt_eq (s : Simplex ℝ) : reflectPt s = 2 * s.b.x - s.w.x := by
  unfold reflectPt; norm_num; ring

/-- the proposed replacement is no worse than the reflected point, unless the reflected point is
itself no better than the current best -/
theorem stepCore_bound (hc : ∀ x, c x ≠ .nan) {s : Simplex ℝ} {v : Vtx ℝ}
    (h : (stepCore c s).1 = some v) :
    Cost.le v.f (c (reflectPt s)) = true ∨ Cost.le s.b.f (c (reflectPt s)) = true := by
  have hr := Cost.le_refl (hc (reflectPt s))
  unfold stepCore at h
  unfold reflectPt at hr ⊢
  simp only at h
  split_ifs at h <;> simp only [Option.some.injEq] at h <;> subst h <;>
    first
      | (left; exact hr)
      | (left; exact Cost.le_of_lt ‹_›)
      | (right; assumption)

/-- one iteration: additionally, the new best cost is at most the cost of the reflected point -/
theorem step_le_reflect (hc : ∀ x, c x ≠ .nan) {s : Simplex ℝ} (hs : Inv c s) :
    ∃ s', step c s = some s' ∧ Inv c s' ∧ Cost.le s'.b.f s.b.f = true ∧
      Cost.le s'.b.f (c (reflectPt s)) = true := by
  have hbn : s.b.f ≠ .nan := by rw [hs.hb]; exact hc _
  obtain ⟨v, hv⟩ := stepCore_isSome c hc hbn
  have hvc := stepCore_consistent c hv
  have hvn : v.f ≠ .nan := by rw [hvc]; exact hc _
  refine ⟨sort2 s.b v, by simp [step, hv], ?_⟩
  obtain ⟨hi, hl, hl2⟩ := sort2_inv c hs.hb hvc hbn hvn
  refine ⟨hi, hl, ?_⟩
  rcases stepCore_bound c hc hv with h | h
  · exact Cost.le_trans hl2 h
  · exact Cost.le_trans hl h

/-- one turn of the executor loop when the termination test fails -/
theorem loop_step (hc : ∀ x, c x ≠ .nan) (tol : ℝ) (n : Nat) {st : St ℝ} (hst : InvSt c st)
    (hsd : sdSmall st.sx tol = false) :
    ∃ st1, loop c tol (n + 1) st = loop c tol n st1 ∧ InvSt c st1 ∧
      Cost.le st1.sx.b.f (c (reflectPt st.sx)) = true := by
  obtain ⟨sx', hstep, hinv', hle, hler⟩ := step_le_reflect c hc hst.sx
  have hle' : Cost.le sx'.b.f st.bestF = true := by rw [hst.bestF]; exact hle
  obtain ⟨hu2, hu1⟩ := upd_track c hinv' hle' hst.bestX
  refine ⟨⟨sx', (upd sx' st.bestX st.bestF).1, (upd sx' st.bestX st.bestF).2,
      (stepCore c st.sx).2.reverse ++ st.log⟩, ?_, ⟨hinv', hu2, hu1⟩, hler⟩
  conv_lhs => unfold loop
  simp only [hsd, Bool.false_eq_true, if_false, hstep]

end reflect

/-- both seeds above the upper bound but their reflection `g − d` inside the bounds with a finite
cost: the optimiser returns a point *inside* the bounds (it has walked in from outside) -/
theorem run_in_bounds_of_reflect (f : ℝ → Cost ℝ) (g d lo hi tol : ℝ) (n : Nat) (hd : 0 < d)
    (hf : ∀ x, lo ≤ x → x ≤ hi → f x ≠ .nan) (hg : hi < g) (hr0 : lo ≤ g - d) (hr1 : g - d ≤ hi)
    (hfin : ∃ a, f (g - d) = .fin a) :
    ∃ x, run f g (g + d) (n + 1) lo hi tol = .ok x ∧ lo ≤ x ∧ x ≤ hi := by
  have hc := cost1d_ne_nan hf
  have h0 : cost1d f lo hi g = .inf := cost1d_of_gt hg
  have h1 : cost1d f lo hi (g + d) = .inf := cost1d_of_gt (by linarith)
  obtain ⟨hi0, -, -⟩ := init_inv (cost1d f lo hi) hc g (g + d)
  have hS : (sort2 ⟨g, cost1d f lo hi g⟩ ⟨g + d, cost1d f lo hi (g + d)⟩ : Simplex ℝ) =
      ⟨⟨g, .inf⟩, ⟨g + d, .inf⟩⟩ := by
    simp [sort2, h0, h1, Cost.lt]
  have hsx : (init (cost1d f lo hi) g (g + d)).sx = ⟨⟨g, .inf⟩, ⟨g + d, .inf⟩⟩ := by
    simp [init, hS]
  have hsd : sdSmall (init (cost1d f lo hi) g (g + d)).sx tol = false := by
    rw [hsx]; simp [sdSmall]
  obtain ⟨st1, hl1, hinv1, hle1⟩ := loop_step (cost1d f lo hi) hc tol n hi0 hsd
  have hrp : reflectPt (init (cost1d f lo hi) g (g + d)).sx = g - d := by
    rw [reflectPt_eq, hsx]; ring
  obtain ⟨a, ha⟩ := hfin
  rw [hrp, cost1d_of_mem hr0 hr1, ha] at hle1
  obtain ⟨st', hl, hinv, hle⟩ := loop_inv (cost1d f lo hi) hc tol n st1 hinv1
  obtain ⟨x, hx, hcx⟩ := hinv.bestX
  have hfinx : Cost.le (cost1d f lo hi x) (.fin a) = true := by
    rw [hcx, hinv.bestF]; exact Cost.le_trans hle hle1
  obtain ⟨y, hy, -⟩ := Cost.fin_of_le_fin hfinx
  refine ⟨x, ?_, mem_bounds_of_cost1d_fin hy⟩
  simp [run, runSt, hl1, hl, hx]

end Spdc.NM1D
