import Spdc.Real.CrystalCert
/-!
# C01-T4: declared optical class of every crystal over the whole window and temperature range

`class_lt` turns a kernel-checked gap certificate between two squared indices (with margin for the
difference of the thermo-optic terms) into the order of the indices; LiNb_MgO uses a 2-D grid
certificate (wavelength × Gayer variable `F`) with termwise corner bounds.
-/
set_option linter.unusedTactic false
set_option linter.unreachableTactic false
set_option linter.unusedSimpArgs false
set_option linter.unnecessarySeqFocus false
set_option linter.unusedVariables false
namespace Spdc.Crystals
open Set

/-- generic step: a gap certificate between two squared indices with margin for the thermo-optic
terms gives the order of the two indices -/
theorem class_lt (c : Crystal) (i j : Fin 3) {T : ℝ} (hT1 : Tmin ≤ T) (hT2 : T ≤ Tmax) {lam : ℝ}
    (h1 : windowLo c ≤ lam) (h2 : lam ≤ windowHi c) (δ : ℝ) (hδ : 0 ≤ δ)
    (ht : thermal c T i - thermal c T j ≤ δ)
    (hgap : ∀ l ∈ Icc (lLo c) (lHi c),
      comp i (nSq c l T) + (7.94 * δ + δ * δ) < comp j (nSq c l T)) :
    comp i (indices c lam T) < comp j (indices c lam T) := by
  rw [indices_comp, indices_comp]
  have hm := microns_mem h1 h2
  have hb := (nSq_good c hT1 hT2 i).bounds hm
  have := lt_of_sq_gap (by norm_num at hb; linarith [hb.1]) hb.2 hδ ht (hgap _ hm)
  linarith

theorem bbo_ze_lt_xo {T : ℝ} (hT1 : Tmin ≤ T) (hT2 : T ≤ Tmax) {lam : ℝ}
    (h1 : windowLo Crystal.BBO_1 ≤ lam) (h2 : lam ≤ windowHi Crystal.BBO_1) :
    comp 2 (indices Crystal.BBO_1 lam T) < comp 0 (indices Crystal.BBO_1 lam T) := by
  refine class_lt Crystal.BBO_1 2 0 hT1 hT2 h1 h2 ((Cert.bboDelta : ℚ) : ℝ)
    (by norm_num [Cert.bboDelta]) ?_ (by simp only [comp, nSq, lLo, lHi]; exact bbo_gap)
  simp only [Tmin, Tmax] at hT1 hT2
  simp only [thermal, dn, comp, tempOffset, Cert.bboDelta]; push_cast; norm_num <;> linarith
theorem ktp_x_lt_z {T : ℝ} (hT1 : Tmin ≤ T) (hT2 : T ≤ Tmax) {lam : ℝ}
    (h1 : windowLo Crystal.KTP ≤ lam) (h2 : lam ≤ windowHi Crystal.KTP) :
    comp 0 (indices Crystal.KTP lam T) < comp 2 (indices Crystal.KTP lam T) := by
  refine class_lt Crystal.KTP 0 2 hT1 hT2 h1 h2 ((Cert.ktpZXDelta : ℚ) : ℝ)
    (by norm_num [Cert.ktpZXDelta]) ?_ (by simp only [comp, nSq, lLo, lHi]; exact ktpZX_gap)
  simp only [Tmin, Tmax] at hT1 hT2
  simp only [thermal, dn, comp, tempOffset, Cert.ktpZXDelta]; push_cast; norm_num <;> linarith
theorem ktp_y_lt_z {T : ℝ} (hT1 : Tmin ≤ T) (hT2 : T ≤ Tmax) {lam : ℝ}
    (h1 : windowLo Crystal.KTP ≤ lam) (h2 : lam ≤ windowHi Crystal.KTP) :
    comp 1 (indices Crystal.KTP lam T) < comp 2 (indices Crystal.KTP lam T) := by
  refine class_lt Crystal.KTP 1 2 hT1 hT2 h1 h2 ((Cert.ktpZYLoDelta : ℚ) : ℝ)
    (by norm_num [Cert.ktpZYLoDelta]) ?_ (by
    intro l hl
    simp only [comp, nSq, lLo, lHi, ktpNySq] at hl ⊢
    split
    · exact ktpZYLo_gap l hl
    · exact ktpZYHi_gap l hl)
  simp only [Tmin, Tmax] at hT1 hT2
  simp only [thermal, dn, comp, tempOffset, Cert.ktpZYLoDelta]; push_cast; norm_num <;> linarith
theorem bibo_x_lt_z {T : ℝ} (hT1 : Tmin ≤ T) (hT2 : T ≤ Tmax) {lam : ℝ}
    (h1 : windowLo Crystal.BiBO_1 ≤ lam) (h2 : lam ≤ windowHi Crystal.BiBO_1) :
    comp 0 (indices Crystal.BiBO_1 lam T) < comp 2 (indices Crystal.BiBO_1 lam T) := by
  refine class_lt Crystal.BiBO_1 0 2 hT1 hT2 h1 h2 ((Cert.biboZXDelta : ℚ) : ℝ)
    (by norm_num [Cert.biboZXDelta]) ?_ (by simp only [comp, nSq, lLo, lHi]; exact biboZX_gap)
  simp only [Tmin, Tmax] at hT1 hT2
  simp only [thermal, dn, comp, tempOffset, Cert.biboZXDelta]; push_cast; norm_num <;> linarith
theorem bibo_y_lt_z {T : ℝ} (hT1 : Tmin ≤ T) (hT2 : T ≤ Tmax) {lam : ℝ}
    (h1 : windowLo Crystal.BiBO_1 ≤ lam) (h2 : lam ≤ windowHi Crystal.BiBO_1) :
    comp 1 (indices Crystal.BiBO_1 lam T) < comp 2 (indices Crystal.BiBO_1 lam T) := by
  refine class_lt Crystal.BiBO_1 1 2 hT1 hT2 h1 h2 ((Cert.biboZYDelta : ℚ) : ℝ)
    (by norm_num [Cert.biboZYDelta]) ?_ (by simp only [comp, nSq, lLo, lHi]; exact biboZY_gap)
  simp only [Tmin, Tmax] at hT1 hT2
  simp only [thermal, dn, comp, tempOffset, Cert.biboZYDelta]; push_cast; norm_num <;> linarith
theorem ln_ze_lt_xo {T : ℝ} (hT1 : Tmin ≤ T) (hT2 : T ≤ Tmax) {lam : ℝ}
    (h1 : windowLo Crystal.LiNbO3_1 ≤ lam) (h2 : lam ≤ windowHi Crystal.LiNbO3_1) :
    comp 2 (indices Crystal.LiNbO3_1 lam T) < comp 0 (indices Crystal.LiNbO3_1 lam T) := by
  refine class_lt Crystal.LiNbO3_1 2 0 hT1 hT2 h1 h2 ((Cert.lnDelta : ℚ) : ℝ)
    (by norm_num [Cert.lnDelta]) ?_ (by simp only [comp, nSq, lLo, lHi]; exact ln_gap)
  simp only [Tmin, Tmax] at hT1 hT2
  simp only [thermal, dn, comp, tempOffset, Cert.lnDelta]; push_cast; norm_num <;> linarith
theorem kdp_ze_lt_xo {T : ℝ} (hT1 : Tmin ≤ T) (hT2 : T ≤ Tmax) {lam : ℝ}
    (h1 : windowLo Crystal.KDP_1 ≤ lam) (h2 : lam ≤ windowHi Crystal.KDP_1) :
    comp 2 (indices Crystal.KDP_1 lam T) < comp 0 (indices Crystal.KDP_1 lam T) := by
  refine class_lt Crystal.KDP_1 2 0 hT1 hT2 h1 h2 ((Cert.kdpDelta : ℚ) : ℝ)
    (by norm_num [Cert.kdpDelta]) ?_ (by simp only [comp, nSq, lLo, lHi]; exact kdp_gap)
  simp only [Tmin, Tmax] at hT1 hT2
  simp only [thermal, dn, comp, tempOffset, Cert.kdpDelta]; push_cast; norm_num <;> linarith
theorem ags1_ze_lt_xo {T : ℝ} (hT1 : Tmin ≤ T) (hT2 : T ≤ Tmax) {lam : ℝ}
    (h1 : windowLo Crystal.AgGaSe2_1 ≤ lam) (h2 : lam ≤ windowHi Crystal.AgGaSe2_1) :
    comp 2 (indices Crystal.AgGaSe2_1 lam T) < comp 0 (indices Crystal.AgGaSe2_1 lam T) := by
  refine class_lt Crystal.AgGaSe2_1 2 0 hT1 hT2 h1 h2 ((Cert.ags1Delta : ℚ) : ℝ)
    (by norm_num [Cert.ags1Delta]) ?_ (by simp only [comp, nSq, lLo, lHi]; exact ags1_gap)
  simp only [Tmin, Tmax] at hT1 hT2
  simp only [thermal, dn, comp, tempOffset, Cert.ags1Delta]; push_cast; norm_num <;> linarith
theorem ags2_ze_lt_xo {T : ℝ} (hT1 : Tmin ≤ T) (hT2 : T ≤ Tmax) {lam : ℝ}
    (h1 : windowLo Crystal.AgGaSe2_2 ≤ lam) (h2 : lam ≤ windowHi Crystal.AgGaSe2_2) :
    comp 2 (indices Crystal.AgGaSe2_2 lam T) < comp 0 (indices Crystal.AgGaSe2_2 lam T) := by
  refine class_lt Crystal.AgGaSe2_2 2 0 hT1 hT2 h1 h2 ((Cert.ags2Delta : ℚ) : ℝ)
    (by norm_num [Cert.ags2Delta]) ?_ (by simp only [comp, nSq, lLo, lHi]; exact ags2_gap)
  simp only [Tmin, Tmax] at hT1 hT2
  simp only [thermal, dn, comp, tempOffset, Cert.ags2Delta]; push_cast; norm_num <;> linarith
theorem lio2_ze_lt_xo {T : ℝ} (hT1 : Tmin ≤ T) (hT2 : T ≤ Tmax) {lam : ℝ}
    (h1 : windowLo Crystal.LiIO3_2 ≤ lam) (h2 : lam ≤ windowHi Crystal.LiIO3_2) :
    comp 2 (indices Crystal.LiIO3_2 lam T) < comp 0 (indices Crystal.LiIO3_2 lam T) := by
  refine class_lt Crystal.LiIO3_2 2 0 hT1 hT2 h1 h2 ((Cert.lio2Delta : ℚ) : ℝ)
    (by norm_num [Cert.lio2Delta]) ?_ (by simp only [comp, nSq, lLo, lHi]; exact lio2_gap)
  simp only [Tmin, Tmax] at hT1 hT2
  simp only [thermal, dn, comp, tempOffset, Cert.lio2Delta]; push_cast; norm_num <;> linarith
theorem lio1_ze_lt_xo {T : ℝ} (hT1 : Tmin ≤ T) (hT2 : T ≤ Tmax) {lam : ℝ}
    (h1 : windowLo Crystal.LiIO3_1 ≤ lam) (h2 : lam ≤ windowHi Crystal.LiIO3_1) :
    comp 2 (indices Crystal.LiIO3_1 lam T) < comp 0 (indices Crystal.LiIO3_1 lam T) := by
  refine class_lt Crystal.LiIO3_1 2 0 hT1 hT2 h1 h2 ((Cert.lio1Delta : ℚ) : ℝ)
    (by norm_num [Cert.lio1Delta]) ?_ (by simp only [comp, nSq, lLo, lHi]; exact lio1_gap)
  simp only [Tmin, Tmax] at hT1 hT2
  simp only [thermal, dn, comp, tempOffset, Cert.lio1Delta]; push_cast; norm_num <;> linarith
theorem ags_ze_lt_xo {T : ℝ} (hT1 : Tmin ≤ T) (hT2 : T ≤ Tmax) {lam : ℝ}
    (h1 : windowLo Crystal.AgGaS2_1 ≤ lam) (h2 : lam ≤ windowHi Crystal.AgGaS2_1) :
    comp 2 (indices Crystal.AgGaS2_1 lam T) < comp 0 (indices Crystal.AgGaS2_1 lam T) := by
  refine class_lt Crystal.AgGaS2_1 2 0 hT1 hT2 h1 h2 ((Cert.agsDelta : ℚ) : ℝ)
    (by norm_num [Cert.agsDelta]) ?_ (by simp only [comp, nSq, lLo, lHi]; exact ags_gap)
  simp only [Tmin, Tmax] at hT1 hT2
  simp only [thermal, dn, comp, tempOffset, Cert.agsDelta]; push_cast; norm_num <;> linarith


section bounds
variable {α : Type} [Add α] [Sub α] [Mul α] [Div α] [Neg α] [OfScientific α]

/-- lower bound of `mgoNoSq F l` on the cell `F ∈ [F0,F1]`, `l ∈ [l0,l1]` (each term at its
minimising corner) -/
def mgoNoLB (F0 F1 l1 : α) : α :=
  5.653 + 7.941e-7 * F0 + (0.1185 + 3.134e-8 * F0) / (l1 * l1 - sqr (0.2091 + (-4.641e-9) * F1))
    + (89.61 + (-2.188e-6) * F0) / (l1 * l1 - sqr 10.85) - 1.97e-2 * (l1 * l1)

/-- upper bound of `mgoNeSq F l` on the cell (each term at its maximising corner) -/
def mgoNeUB (F0 F1 l0 : α) : α :=
  5.756 + 2.86e-6 * F1 + (0.0983 + 4.7e-8 * F1) / (l0 * l0 - sqr (0.2020 + 6.113e-8 * F1))
    + (189.32 + 1.516e-4 * F0) / (l0 * l0 - sqr 12.52) - 1.32e-2 * (l0 * l0)
end bounds

theorem frac_mono {a c b d : ℝ} (h0 : 0 ≤ a) (hac : a ≤ c) (hd : 0 < d) (hdb : d ≤ b) :
    a / b ≤ c / d :=
  le_trans (div_le_div_of_nonneg_left h0 hd hdb) (div_le_div_of_nonneg_right hac hd.le)

theorem div_sub_flip (a x c : ℝ) : a / (x - c) = -(a / (c - x)) := by
  rw [← neg_sub c x, div_neg]

theorem mgoNo_ge {F F0 F1 l l0 l1 : ℝ} (hF0 : Flo ≤ F0) (h0 : F0 ≤ F) (h1 : F ≤ F1) (hF1 : F1 ≤ Fhi)
    (hl0 : 0.44 ≤ l0) (g0 : l0 ≤ l) (g1 : l ≤ l1) (hl1 : l1 ≤ 4) :
    mgoNoLB F0 F1 l1 ≤ mgoNoSq F l := by
  simp only [Flo, Fhi] at hF0 hF1
  have hx : (0.44 : ℝ) * 0.44 ≤ l * l := by nlinarith
  have hxx : l * l ≤ l1 * l1 := by nlinarith
  have hx1 : l1 * l1 ≤ 4 * 4 := by nlinarith
  -- pole positions
  have hC : 0 < (0.2091 : ℝ) + (-4.641e-9) * F1 ∧ (0.2091 : ℝ) + (-4.641e-9) * F1 ≤ 0.2091 + (-4.641e-9) * F
      ∧ (0.2091 : ℝ) + (-4.641e-9) * F < 0.21 := by
    refine ⟨?_, ?_, ?_⟩ <;> norm_num <;> linarith
  have hCC : ((0.2091 : ℝ) + (-4.641e-9) * F1) * ((0.2091 : ℝ) + (-4.641e-9) * F1)
      ≤ ((0.2091 : ℝ) + (-4.641e-9) * F) * ((0.2091 : ℝ) + (-4.641e-9) * F) := by
    nlinarith [hC.1, hC.2.1]
  have hCCu : ((0.2091 : ℝ) + (-4.641e-9) * F) * ((0.2091 : ℝ) + (-4.641e-9) * F) < 0.0441 := by
    nlinarith [hC.1, hC.2.1, hC.2.2]
  have hP : 0 ≤ (0.1185 : ℝ) + 3.134e-8 * F0 ∧ (0.1185 : ℝ) + 3.134e-8 * F0 ≤ 0.1185 + 3.134e-8 * F := by
    constructor <;> norm_num <;> linarith
  have hQ : 0 ≤ (89.61 : ℝ) + (-2.188e-6) * F ∧ (89.61 : ℝ) + (-2.188e-6) * F ≤ 89.61 + (-2.188e-6) * F0 := by
    constructor <;> norm_num <;> linarith
  simp only [mgoNoLB, mgoNoSq, sellG, sqr]
  have t1 : (7.941e-7 : ℝ) * F0 ≤ 7.941e-7 * F := by norm_num; linarith
  have t2 : ((0.1185 : ℝ) + 3.134e-8 * F0) /
        (l1 * l1 - ((0.2091 : ℝ) + (-4.641e-9) * F1) * ((0.2091 : ℝ) + (-4.641e-9) * F1))
      ≤ ((0.1185 : ℝ) + 3.134e-8 * F) /
        (l * l - ((0.2091 : ℝ) + (-4.641e-9) * F) * ((0.2091 : ℝ) + (-4.641e-9) * F)) :=
    frac_mono hP.1 hP.2 (by norm_num at hx hCCu ⊢; linarith) (by linarith)
  have t3 : ((89.61 : ℝ) + (-2.188e-6) * F0) / (l1 * l1 - 10.85 * 10.85)
      ≤ ((89.61 : ℝ) + (-2.188e-6) * F) / (l * l - 10.85 * 10.85) := by
    rw [div_sub_flip _ (l1 * l1), div_sub_flip _ (l * l), neg_le_neg_iff]
    exact frac_mono hQ.1 hQ.2 (by norm_num at hx1 ⊢; linarith) (by linarith)
  have t4 : (1.97e-2 : ℝ) * (l * l) ≤ 1.97e-2 * (l1 * l1) := by norm_num; linarith
  linarith

theorem mgoNe_le {F F0 F1 l l0 l1 : ℝ} (hF0 : Flo ≤ F0) (h0 : F0 ≤ F) (h1 : F ≤ F1) (hF1 : F1 ≤ Fhi)
    (hl0 : 0.44 ≤ l0) (g0 : l0 ≤ l) (g1 : l ≤ l1) (hl1 : l1 ≤ 4) :
    mgoNeSq F l ≤ mgoNeUB F0 F1 l0 := by
  simp only [Flo, Fhi] at hF0 hF1
  have hx0 : (0.44 : ℝ) * 0.44 ≤ l0 * l0 := by nlinarith
  have hxx : l0 * l0 ≤ l * l := by nlinarith
  have hx1 : l * l ≤ 4 * 4 := by nlinarith
  have hC : 0 < (0.2020 : ℝ) + 6.113e-8 * F ∧ (0.2020 : ℝ) + 6.113e-8 * F ≤ 0.2020 + 6.113e-8 * F1
      ∧ (0.2020 : ℝ) + 6.113e-8 * F1 < 0.211 := by
    refine ⟨?_, ?_, ?_⟩ <;> norm_num <;> linarith
  have hCC : ((0.2020 : ℝ) + 6.113e-8 * F) * ((0.2020 : ℝ) + 6.113e-8 * F)
      ≤ ((0.2020 : ℝ) + 6.113e-8 * F1) * ((0.2020 : ℝ) + 6.113e-8 * F1) := by
    nlinarith [hC.1, hC.2.1]
  have hCCu : ((0.2020 : ℝ) + 6.113e-8 * F1) * ((0.2020 : ℝ) + 6.113e-8 * F1) < 0.0446 := by
    nlinarith [hC.1, hC.2.1, hC.2.2]
  have hP : 0 ≤ (0.0983 : ℝ) + 4.7e-8 * F ∧ (0.0983 : ℝ) + 4.7e-8 * F ≤ 0.0983 + 4.7e-8 * F1 := by
    constructor <;> norm_num <;> linarith
  have hQ : 0 ≤ (189.32 : ℝ) + 1.516e-4 * F0 ∧ (189.32 : ℝ) + 1.516e-4 * F0 ≤ 189.32 + 1.516e-4 * F := by
    constructor <;> norm_num <;> linarith
  simp only [mgoNeUB, mgoNeSq, sellG, sqr]
  have t1 : (2.86e-6 : ℝ) * F ≤ 2.86e-6 * F1 := by norm_num; linarith
  have t2 : ((0.0983 : ℝ) + 4.7e-8 * F) /
        (l * l - ((0.2020 : ℝ) + 6.113e-8 * F) * ((0.2020 : ℝ) + 6.113e-8 * F))
      ≤ ((0.0983 : ℝ) + 4.7e-8 * F1) /
        (l0 * l0 - ((0.2020 : ℝ) + 6.113e-8 * F1) * ((0.2020 : ℝ) + 6.113e-8 * F1)) :=
    frac_mono hP.1 hP.2 (by norm_num at hx0 hCCu ⊢; linarith) (by linarith)
  have t3 : ((189.32 : ℝ) + 1.516e-4 * F) / (l * l - 12.52 * 12.52)
      ≤ ((189.32 : ℝ) + 1.516e-4 * F0) / (l0 * l0 - 12.52 * 12.52) := by
    rw [div_sub_flip _ (l * l), div_sub_flip _ (l0 * l0), neg_le_neg_iff]
    exact frac_mono hQ.1 hQ.2 (by norm_num at hx1 ⊢; linarith) (by linarith)
  have t4 : (1.32e-2 : ℝ) * (l0 * l0) ≤ 1.32e-2 * (l * l) := by norm_num; linarith
  linarith


/-- Boolean covering certificate: `ok` holds on every consecutive pair of `p :: pts` -/
def chainCover (ok : ℚ → ℚ → Bool) : ℚ → List ℚ → Bool
  | _, [] => true
  | p, q :: rest => ok p q && chainCover ok q rest

/-- if `ok p q` implies `P` on `[p, q]`, a chain certificate gives `P` on `[first, last]` -/
theorem cover_of_chain {P : ℝ → Prop} {ok : ℚ → ℚ → Bool}
    (sound : ∀ p q : ℚ, ok p q = true → ∀ x ∈ Icc (p : ℝ) q, P x) :
    ∀ (pts : List ℚ) (p : ℚ), pts ≠ [] → chainCover ok p pts = true →
      ∀ x ∈ Icc (p : ℝ) (lastQ p pts : ℚ), P x
  | [], _, hne, _ => absurd rfl hne
  | q :: rest, p, _, h => by
    intro x hx
    simp only [chainCover, Bool.and_eq_true] at h
    simp only [lastQ] at hx
    by_cases hxq : x ≤ q
    · exact sound p q h.1 x ⟨hx.1, hxq⟩
    · have hxq' : (q : ℝ) < x := not_le.mp hxq
      have hne : rest ≠ [] := by
        rintro rfl
        simp only [lastQ] at hx
        exact absurd hx.2 (not_le.mpr hxq')
      exact cover_of_chain sound rest q hne h.2 x ⟨hxq'.le, hx.2⟩

theorem cast_mgoNoLB (a b c : ℚ) : ((mgoNoLB a b c : ℚ) : ℝ) = mgoNoLB (a : ℝ) b c := by
  simp only [mgoNoLB, sqr]; push_cast; rfl
theorem cast_mgoNeUB (a b c : ℚ) : ((mgoNeUB a b c : ℚ) : ℝ) = mgoNeUB (a : ℝ) b c := by
  simp only [mgoNeUB, sqr]; push_cast; rfl

/-- one cell of the LiNb_MgO grid -/
def mgoCellOK (F0 F1 l0 l1 : ℚ) : Bool :=
  decide ((-38801.09 : ℚ) ≤ F0) && decide (F1 ≤ (135278.91 : ℚ)) && decide ((0.44 : ℚ) ≤ l0) &&
    decide (l1 ≤ (4 : ℚ)) && decide (mgoNeUB F0 F1 l0 < mgoNoLB F0 F1 l1)

theorem mgoCell_sound (F0 F1 l0 l1 : ℚ) (h : mgoCellOK F0 F1 l0 l1 = true) :
    ∀ F ∈ Icc (F0 : ℝ) F1, ∀ l ∈ Icc (l0 : ℝ) l1, mgoNeSq F l < mgoNoSq F l := by
  simp only [mgoCellOK, Bool.and_eq_true, decide_eq_true_eq] at h
  obtain ⟨⟨⟨⟨a1, a2⟩, a3⟩, a4⟩, a5⟩ := h
  have b1 : Flo ≤ (F0 : ℝ) := by
    have : ((-38801.09 : ℚ) : ℝ) ≤ F0 := by exact_mod_cast a1
    simp only [Flo]; push_cast at this; linarith
  have b2 : (F1 : ℝ) ≤ Fhi := by
    have : (F1 : ℝ) ≤ ((135278.91 : ℚ) : ℝ) := by exact_mod_cast a2
    simp only [Fhi]; push_cast at this; linarith
  have b3 : (0.44 : ℝ) ≤ l0 := by
    have : ((0.44 : ℚ) : ℝ) ≤ l0 := by exact_mod_cast a3
    push_cast at this; linarith
  have b4 : (l1 : ℝ) ≤ 4 := by exact_mod_cast a4
  have b5 : mgoNeUB (F0 : ℝ) F1 l0 < mgoNoLB (F0 : ℝ) F1 l1 := by
    rw [← cast_mgoNeUB, ← cast_mgoNoLB]; exact_mod_cast a5
  intro F hF l hl
  have u := mgoNe_le b1 hF.1 hF.2 b2 b3 hl.1 hl.2 b4
  have v := mgoNo_ge b1 hF.1 hF.2 b2 b3 hl.1 hl.2 b4
  linarith

theorem mgo_chain : chainCover (fun F0 F1 => chainCover (mgoCellOK F0 F1) (44/100) Cert.mgoLs)
    (-38801.09) Cert.mgoFs = true := by
  decide +kernel

/-- LiNb_MgO is negative uniaxial over the whole window at every admissible `F` -/
theorem mgo_gap : ∀ F ∈ Icc Flo Fhi, ∀ l ∈ Icc (0.44 : ℝ) 4, mgoNeSq F l < mgoNoSq F l := by
  have inner : ∀ F0 F1 : ℚ, chainCover (mgoCellOK F0 F1) (44/100) Cert.mgoLs = true →
      ∀ F ∈ Icc (F0 : ℝ) F1, ∀ l ∈ Icc (0.44 : ℝ) 4, mgoNeSq F l < mgoNoSq F l := by
    intro F0 F1 h F hF
    have := cover_of_chain (P := fun l => mgoNeSq F l < mgoNoSq F l) (ok := mgoCellOK F0 F1)
      (fun p q hpq x hx => mgoCell_sound F0 F1 p q hpq F hF x hx) Cert.mgoLs (44/100) (by decide) h
    have e1 : (((44/100 : ℚ)) : ℝ) = 0.44 := by norm_num
    have e2 : ((lastQ (44/100) Cert.mgoLs : ℚ) : ℝ) = 4 := by norm_num [lastQ, Cert.mgoLs]
    rw [e1, e2] at this
    exact this
  have outer := cover_of_chain (P := fun F => ∀ l ∈ Icc (0.44 : ℝ) 4, mgoNeSq F l < mgoNoSq F l)
    (ok := fun F0 F1 => chainCover (mgoCellOK F0 F1) (44/100) Cert.mgoLs)
    (fun p q hpq x hx => inner p q hpq x hx) Cert.mgoFs (-38801.09) (by decide) mgo_chain
  have e1 : (((-38801.09 : ℚ)) : ℝ) = Flo := by simp only [Flo]; norm_num
  have e2 : ((lastQ (-38801.09) Cert.mgoFs : ℚ) : ℝ) = Fhi := by
    simp only [Fhi]; norm_num [lastQ, Cert.mgoFs]
  rw [e1, e2] at outer
  exact outer


theorem mgo_ze_lt_xo {T : ℝ} (hT1 : Tmin ≤ T) (hT2 : T ≤ Tmax) {lam : ℝ}
    (h1 : windowLo Crystal.LiNb_MgO ≤ lam) (h2 : lam ≤ windowHi Crystal.LiNb_MgO) :
    comp 2 (indices Crystal.LiNb_MgO lam T) < comp 0 (indices Crystal.LiNb_MgO lam T) := by
  rw [indices_comp, indices_comp]
  have hm := microns_mem h1 h2
  have hF := gayerF_mem hT1 hT2
  have hb := (nSq_good Crystal.LiNb_MgO hT1 hT2 2).bounds hm
  have hg := mgo_gap (gayerF T) ⟨hF.1, hF.2⟩ (microns lam) (by simpa only [lLo, lHi] using hm)
  have : Real.sqrt (comp 2 (nSq Crystal.LiNb_MgO (microns lam) T))
      < Real.sqrt (comp 0 (nSq Crystal.LiNb_MgO (microns lam) T)) := by
    apply Real.sqrt_lt_sqrt (by norm_num at hb; linarith [hb.1])
    simpa only [comp, nSq] using hg
  simp only [thermal, dn]
  linarith

end Spdc.Crystals
