import Spdc.Model.Jsa
import Spdc.Real.PM
import Mathlib.Analysis.SpecialFunctions.Exp
import Mathlib.Analysis.SpecialFunctions.Log.Basic
import Mathlib.Analysis.SpecialFunctions.Pow.Real
/-!
# Helper lemmas about the joint spectrum at `α := ℝ` (exchange symmetry, scaling, envelope, support)
-/
namespace Spdc.PM
open Spdc

theorem invalidFrequencies_comm (ωs ωi ωp : ℝ) :
    invalidFrequencies ωi ωs ωp = invalidFrequencies ωs ωi ωp := by
  unfold invalidFrequencies
  have h : Transc.abs (ωi - ωs) = Transc.abs (ωs - ωi) := by
    show |ωi - ωs| = |ωs - ωi|
    exact abs_sub_comm _ _
  rw [h]
  cases decide (ωs ≤ (0.0 : ℝ)) <;> cases decide (ωi ≤ (0.0 : ℝ)) <;> cases decide (ωp < ωs) <;>
    cases decide (ωp < ωi) <;> rfl

theorem PMType.inverse_inverse (t : PMType) : t.inverse.inverse = t := by cases t <;> rfl

theorem Setup.swap_swap (S : Setup ℝ) : S.swap.swap = S := by
  cases S; simp [Setup.swap, PMType.inverse_inverse]

theorem JSetup.swap_swap (J : JSetup ℝ) : J.swap.swap = J := by
  cases J; simp [JSetup.swap, Setup.swap_swap]

theorem jsaRaw_swap' (J : JSetup ℝ) (nodes : List (ℝ × ℝ)) (scale ωs ωi : ℝ)
    (g : ∀ p ∈ nodes, Good J.toSetup ωs ωi p.1) :
    jsaRaw J.swap nodes scale ωi ωs = jsaRaw J nodes scale ωs ωi := by
  unfold jsaRaw
  have e : J.swap.toSetup = J.toSetup.swap := rfl
  have e1 : J.swap.omegaP = J.omegaP := rfl
  have e2 : J.swap.bandwidth = J.bandwidth := rfl
  have e3 : J.swap.threshold = J.threshold := rfl
  rw [e, e1, e2, e3, invalidFrequencies_comm, add_comm ωi ωs, pmCoincQ_swap' J.toSetup nodes scale ωs ωi g]

theorem commonNorm_comm (N : NormIn ℝ) (ωs ωi ns ni : ℝ) :
    commonNorm N ωi ωs ni ns = commonNorm N ωs ωi ns ni := by
  simp only [commonNorm]
  rw [mul_comm ωi ωs, mul_comm ni ns]

theorem jsiNormalization_swap (N : NormIn ℝ) (s i : Beam ℝ) (ωs ωi : ℝ) :
    jsiNormalization N i s ωi ωs = jsiNormalization N s i ωs ωi := by
  unfold jsiNormalization
  rw [commonNorm_comm]
  ring

end Spdc.PM
