import Spdc.Model.Jsa
import Spdc.Real.PM
import Mathlib.Analysis.SpecialFunctions.Exp
import Mathlib.Analysis.SpecialFunctions.Log.Basic
import Mathlib.Analysis.SpecialFunctions.Pow.Real
/-!
# Helper lemmas about the joint spectrum at `α := ℝ` (exchange symmetry, scaling, envelope, support)
-/
namespace Spdc.PM
open Spdc

theorem invalidFrequencies_comm (ωs ωi ωp : ℝ) :
    invalidFrequencies ωi ωs ωp = invalidFrequencies ωs ωi ωp := by
  unfold invalidFrequencies
  have h : Transc.abs (ωi - ωs) = Transc.abs (ωs - ωi) := by
    show |ωi - ωs| = |ωs - ωi|
    exact abs_sub_comm _ _
  rw [h]
  cases decide (ωs ≤ (0.0 : ℝ)) <;> cases decide (ωi ≤ (0.0 : ℝ)) <;> cases decide (ωp < ωs) <;>
    cases decide (ωp < ωi) <;> rfl

theorem PMType.inverse_inverse (t : PMType) : t.inverse.inverse = t := by cases t <;> rfl

theorem Setup.swap_swap (S : Setup ℝ) : S.swap.swap = S := by
  cases S; simp [Setup.swap, PMType.inverse_inverse]

theorem JSetup.swap_swap (J : JSetup ℝ) : J.swap.swap = J := by
  cases J; simp [JSetup.swap, Setup.swap_swap]

theorem jsaRaw_swap' (J : JSetup ℝ) (nodes : List (ℝ × ℝ)) (scale ωs ωi : ℝ)
    (g : ∀ p ∈ nodes, Good J.toSetup ωs ωi p.1) :
    jsaRaw J.swap nodes scale ωi ωs = jsaRaw J nodes scale ωs ωi := by
  unfold jsaRaw
  have e : J.swap.toSetup = J.toSetup.swap := rfl
  have e1 : J.swap.omegaP = J.omegaP := rfl
  have e2 : J.swap.bandwidth = J.bandwidth := rfl
  have e3 : J.swap.threshold = J.threshold := rfl
  rw [e, e1, e2, e3, invalidFrequencies_comm, add_comm ωi ωs, pmCoincQ_swap' J.toSetup nodes scale ωs ωi g]

theorem commonNorm_comm (N : NormIn ℝ) (ωs ωi ns ni : ℝ) :
    commonNorm N ωi ωs ni ns = commonNorm N ωs ωi ns ni := by
  simp only [commonNorm]
  rw [mul_comm ωi ωs, mul_comm ni ns]

theorem commonNorm_scaled (N : NormIn ℝ) (a b ωs ωi ns ni : ℝ) :
    commonNorm { N with power := a * N.power, deff := b * N.deff } ωs ωi ns ni
      = a * b ^ 2 * commonNorm N ωs ωi ns ni := by
  simp only [commonNorm, NormIn.sigma]
  ring

theorem jsiNormalization_swap (N : NormIn ℝ) (s i : Beam ℝ) (ωs ωi : ℝ) :
    jsiNormalization N i s ωi ωs = jsiNormalization N s i ωs ωi := by
  unfold jsiNormalization
  rw [commonNorm_comm]
  ring

/-! ### C07: scaling, envelope, support -/

theorem jsiNormalization_scaled (J : JSetup ℝ) (a b ωs ωi : ℝ) :
    jsiNormalization (J.scaled a b).normIn (J.scaled a b).sig (J.scaled a b).idl ωs ωi
      = a * b ^ 2 * jsiNormalization J.normIn J.sig J.idl ωs ωi := by
  have h : (J.scaled a b).normIn = { J.normIn with power := a * J.normIn.power, deff := b * J.normIn.deff } := rfl
  have hs : (J.scaled a b).sig = J.sig := rfl
  have hi : (J.scaled a b).idl = J.idl := rfl
  rw [h, hs, hi]
  simp only [jsiNormalization, commonNorm_scaled]
  ring

theorem jsaRaw_scaled (J : JSetup ℝ) (a b : ℝ) (nodes : List (ℝ × ℝ)) (scale ωs ωi : ℝ) :
    jsaRaw (J.scaled a b) nodes scale ωs ωi = jsaRaw J nodes scale ωs ωi := rfl

theorem envelope_centre' (ω0 fwhm : ℝ) : pumpSpectralAmplitude ω0 ω0 fwhm = 1 := by
  simp [pumpSpectralAmplitude, Transc.exp]

theorem fwhmOverWaist_sq : (fwhmOverWaist : ℝ) * fwhmOverWaist = 2 * Real.log 2 := by
  simp only [fwhmOverWaist, Transc.sqrt, Transc.ln, lit_two]
  apply Real.mul_self_sqrt
  have := Real.log_pos (by norm_num : (1:ℝ) < 2)
  linarith

theorem fwhmOverWaist_pos : (0 : ℝ) < fwhmOverWaist := by
  simp only [fwhmOverWaist, Transc.sqrt, Transc.ln, lit_two]
  apply Real.sqrt_pos.mpr
  have := Real.log_pos (by norm_num : (1:ℝ) < 2)
  linarith

theorem envelope_half' (ω0 fwhm : ℝ) (sgn : ℝ) (hs : sgn = 1 ∨ sgn = -1)
    (hΔ : fwhmFreqSpan (freqToWavelength ω0) fwhm ≠ 0) :
    let Δ := fwhmFreqSpan (freqToWavelength ω0) fwhm
    (pumpSpectralAmplitude (ω0 + sgn * (Δ / 2)) ω0 fwhm) ^ 2 = 1 / 2 := by
  intro Δ
  have hc := fwhmOverWaist_pos
  have hx : (ω0 + sgn * (Δ / 2) - ω0) / fwhmToSpectralWidth (freqToWavelength ω0) fwhm
      = sgn * fwhmOverWaist / 2 := by
    simp only [fwhmToSpectralWidth]
    change (ω0 + sgn * (Δ / 2) - ω0) / (Δ / fwhmOverWaist) = _
    have hΔ' : Δ ≠ 0 := hΔ
    field_simp
    ring
  simp only [pumpSpectralAmplitude, Transc.exp]
  rw [hx, ← Real.exp_nat_mul]
  have hsq : sgn * sgn = 1 := by rcases hs with h | h <;> rw [h] <;> norm_num
  have : ((2:ℕ):ℝ) * (-(sgn * fwhmOverWaist / 2) * (sgn * fwhmOverWaist / 2)) = -Real.log 2 := by
    have h2 := fwhmOverWaist_sq
    push_cast
    calc (2:ℝ) * (-(sgn * fwhmOverWaist / 2) * (sgn * fwhmOverWaist / 2))
        = -((sgn * sgn) * (fwhmOverWaist * fwhmOverWaist)) / 2 := by ring
      _ = -Real.log 2 := by rw [hsq, h2]; ring
  rw [this, Real.exp_neg, Real.exp_log (by norm_num)]
  norm_num

theorem isZero_iff (x : ℝ) : PM.isZero x = true ↔ x = 0 := by
  simp only [PM.isZero, lit_zero, Bool.and_eq_true, decide_eq_true_eq]
  constructor
  · rintro ⟨h1, h2⟩; exact le_antisymm h1 h2
  · rintro rfl; exact ⟨le_refl _, le_refl _⟩

theorem isZero_zero : PM.isZero (0.0 : ℝ) = true := by
  rw [isZero_iff]; exact lit_zero

theorem cxIsZero_zero : PM.Cx.isZero (Cx.zero : Cx ℝ) = true := by
  simp only [PM.Cx.isZero, Cx.zero, isZero_zero, Bool.and_self]

theorem invalidFrequencies_iff (ωs ωi ωp : ℝ) :
    invalidFrequencies ωs ωi ωp = true ↔
      ωs ≤ 0 ∨ ωi ≤ 0 ∨ ωp < ωs ∨ ωp < ωi ∨ 3 / 4 * ωp < |ωs - ωi| := by
  simp only [invalidFrequencies, Bool.or_eq_true, decide_eq_true_eq, lit_zero, lit_075, Transc.abs]
  tauto

theorem twoPi_cLight_pos : (0 : ℝ) < twoPi * cLight := by
  have h1 : (0:ℝ) < twoPi := by
    simp only [twoPi, lit_two, Transc.pi]; positivity
  have h2 : (0:ℝ) < cLight := by simp only [cLight]; norm_num
  positivity

theorem fwhmFreqSpan_pos (lamP fwhm : ℝ) (hf : 0 < fwhm) (hl : fwhm < 2 * lamP) :
    0 < fwhmFreqSpan lamP fwhm := by
  have hK := twoPi_cLight_pos
  simp only [fwhmFreqSpan, wavelengthToFreq, lit_05]
  have h1 : 0 < lamP - 1 / 2 * fwhm := by linarith
  have h2 : lamP - 1 / 2 * fwhm < lamP + 1 / 2 * fwhm := by linarith
  have := div_lt_div_of_pos_left hK h1 h2
  linarith

theorem efficiencies_scaled (s cc ss si : ℝ) (hs : 0 < s) :
    efficienciesFromCounts (s * cc) (s * ss) (s * si) = efficienciesFromCounts cc ss si := by
  have hne : s ≠ 0 := ne_of_gt hs
  have z1 : PM.isZero (s * si) = PM.isZero si := by
    rw [Bool.eq_iff_iff, isZero_iff, isZero_iff]; simp [hne]
  have z2 : PM.isZero (s * ss) = PM.isZero ss := by
    rw [Bool.eq_iff_iff, isZero_iff, isZero_iff]; simp [hne]
  have hsq : Transc.sqrt (s * ss * (s * si)) = s * Transc.sqrt (ss * si) := by
    show Real.sqrt (s * ss * (s * si)) = s * Real.sqrt (ss * si)
    rw [show s * ss * (s * si) = (s * s) * (ss * si) by ring,
      Real.sqrt_mul (mul_self_nonneg s), Real.sqrt_mul_self (le_of_lt hs)]
  simp only [efficienciesFromCounts, z1, z2, hsq]
  rw [mul_div_mul_left _ _ hne, mul_div_mul_left _ _ hne, mul_div_mul_left _ _ hne]

theorem jsiSinglesNormalization_scaled (J : JSetup ℝ) (a b ωs ωi : ℝ) :
    jsiSinglesNormalization (J.scaled a b).normIn (J.scaled a b).sig (J.scaled a b).idl ωs ωi
      = a * b ^ 2 * jsiSinglesNormalization J.normIn J.sig J.idl ωs ωi := by
  have h : (J.scaled a b).normIn = { J.normIn with power := a * J.normIn.power, deff := b * J.normIn.deff } := rfl
  have hs : (J.scaled a b).sig = J.sig := rfl
  have hi : (J.scaled a b).idl = J.idl := rfl
  rw [h, hs, hi]
  simp only [jsiSinglesNormalization, commonNorm_scaled]
  ring

theorem jsiOfRaw_scaled (J : JSetup ℝ) (a b ωs ωi : ℝ) (r : Cx ℝ) :
    jsiOfRaw (J.scaled a b) ωs ωi r = a * b ^ 2 * jsiOfRaw J ωs ωi r := by
  unfold jsiOfRaw
  split
  · simp [lit_zero]
  · rw [jsiNormalization_scaled]; ring

theorem jsiSinglesRaw_scaled (sr : Setup ℝ → ℝ → ℝ → ℝ) (J : JSetup ℝ) (a b ωs ωi : ℝ) :
    jsiSinglesRaw sr (J.scaled a b) ωs ωi = jsiSinglesRaw sr J ωs ωi := rfl

theorem jsiSingles_scaled (sr : Setup ℝ → ℝ → ℝ → ℝ) (J : JSetup ℝ) (a b ωs ωi : ℝ) :
    jsiSingles sr (J.scaled a b) ωs ωi = a * b ^ 2 * jsiSingles sr J ωs ωi := by
  unfold jsiSingles
  rw [jsiSinglesRaw_scaled]
  simp only []
  by_cases h : PM.isZero (jsiSinglesRaw sr J ωs ωi) = true
  · simp [h, lit_zero]
  · simp only [h]
    rw [jsiSinglesNormalization_scaled]; simp; ring

theorem countsSum_smul (corr dw2 c : ℝ) (grid : List (ℝ × ℝ)) (f : ℝ → ℝ → ℝ) :
    countsSum corr dw2 grid (fun x y => c * f x y) = c * countsSum corr dw2 grid f := by
  unfold countsSum
  rw [sumList_eq, sumList_eq]
  have : (grid.map fun p => c * f p.1 p.2 * dw2) = (grid.map fun p => c * (f p.1 p.2 * dw2)) := by
    apply List.map_congr_left; intro p _; ring
  rw [this, List.sum_map_mul_left]
  ring

theorem smul_smul' (x y : ℝ) (r : Cx ℝ) : Cx.smul (x * y) r = Cx.smul x (Cx.smul y r) := by
  apply Cx.toC_injective; simp; ring

theorem smul_zero' (x : ℝ) : Cx.smul x (Cx.zero : Cx ℝ) = Cx.zero := by
  apply Cx.toC_injective; simp

theorem sqrt_scaled (a b n : ℝ) (ha : 0 ≤ a) :
    Real.sqrt (a * b ^ 2 * n) = Real.sqrt a * |b| * Real.sqrt n := by
  rw [mul_assoc, Real.sqrt_mul ha, Real.sqrt_mul (sq_nonneg b), Real.sqrt_sq_eq_abs]; ring

theorem jsaOfRaw_scaled (J : JSetup ℝ) (a b ωs ωi : ℝ) (r : Cx ℝ) (ha : 0 ≤ a) :
    jsaOfRaw (J.scaled a b) ωs ωi r = Cx.smul (Real.sqrt a * |b|) (jsaOfRaw J ωs ωi r) := by
  unfold jsaOfRaw
  split
  · rw [smul_zero']
  · rw [jsiNormalization_scaled, ← smul_smul']
    congr 1
    exact sqrt_scaled a b _ ha

end Spdc.PM
