import Spdc.Model.Index
import Spdc.Real.Inst
import Mathlib.Tactic.Linarith
import Mathlib.Tactic.Ring
import Mathlib.Tactic.FieldSimp
import Mathlib.Tactic.Positivity
import Mathlib.Tactic.LinearCombination
import Mathlib.Analysis.SpecialFunctions.Sqrt
import Mathlib.Analysis.SpecialFunctions.Trigonometric.Deriv
/-!
# ℝ-side lemmas for the index model (C02): the root finder over ℝ, the Fresnel discriminant,
the rotation into the crystal frame.
-/
namespace Spdc.Index
open Spdc

/-- selection of the divisors in `find_roots_quadratic`: over ℝ every branch yields `(diff/2a, same/2a)` -/
theorem root_pair (a2x2 a0x2 same diff : ℝ) (ha : a2x2 ≠ 0) (hprod : same * diff = a2x2 * a0x2) :
    (if |a2x2| < |same| then a0x2 / same else diff / a2x2) = diff / a2x2 ∧
    (if |a2x2| < |same| then (if |a2x2| < |diff| then a0x2 / diff else same / a2x2) else same / a2x2)
      = same / a2x2 := by
  constructor
  · split_ifs with h1
    · have hs : same ≠ 0 := by
        intro h0; rw [h0, abs_zero] at h1; exact absurd h1 (not_lt.mpr (abs_nonneg _))
      field_simp
      linarith
    · rfl
  · split_ifs with h1 h2
    · have hs : diff ≠ 0 := by
        intro h0; rw [h0, abs_zero] at h2; exact absurd h2 (not_lt.mpr (abs_nonneg _))
      field_simp
      linarith
    · rfl
    · rfl

theorem quadRoots_pos (B C : ℝ) (h : 0 < B * B - 4 * C) :
    quadRoots (1.0 : ℝ) B C =
      .two ((-B - Real.sqrt (B * B - 4 * C)) / 2) ((-B + Real.sqrt (B * B - 4 * C)) / 2) := by
  have hsq : 0 < Real.sqrt (B * B - 4 * C) := Real.sqrt_pos.mpr h
  have hss : Real.sqrt (B * B - 4 * C) * Real.sqrt (B * B - 4 * C) = B * B - 4 * C :=
    Real.mul_self_sqrt h.le
  unfold quadRoots
  simp only [lit_one, lit_zero, lit_two, lit_four, Transc.sqrt, Transc.abs, beq_iff_eq, one_ne_zero,
    if_false, mul_one]
  rw [if_neg (not_lt.mpr h.le), if_neg (ne_of_gt h)]
  set s := Real.sqrt (B * B - 4 * C) with hs
  by_cases hB : B < 0
  · simp only [hB, if_true]
    obtain ⟨e1, e2⟩ := root_pair 2 (2 * C) (-B + s) (-B - s) two_ne_zero (by nlinarith)
    rw [e1, e2, if_pos (by linarith)]
  · simp only [hB, if_false]
    obtain ⟨e1, e2⟩ := root_pair 2 (2 * C) (-B - s) (-B + s) two_ne_zero (by nlinarith)
    rw [e1, e2, if_neg (by linarith)]

theorem quadRoots_zero (B C : ℝ) (h : B * B - 4 * C = 0) :
    quadRoots (1.0 : ℝ) B C = .one (-B / 2) := by
  unfold quadRoots
  simp only [lit_one, lit_zero, lit_two, lit_four, beq_iff_eq, one_ne_zero, if_false, mul_one, h,
    lt_irrefl, if_true]

theorem quadRoots_neg (B C : ℝ) (h : B * B - 4 * C < 0) :
    quadRoots (1.0 : ℝ) B C = .no := by
  unfold quadRoots
  simp only [lit_one, lit_zero, lit_two, lit_four, beq_iff_eq, one_ne_zero, if_false, mul_one, h,
    if_true]

/-! ### the Fresnel quadratic -/

theorem fresnelB_eq (s2 b : Vec3 ℝ) :
    fresnelB s2 b = s2.x * (b.y + b.z) + s2.y * (b.x + b.z) + s2.z * (b.x + b.y) := rfl
theorem fresnelC_eq (s2 b : Vec3 ℝ) :
    fresnelC s2 b = s2.x * (b.y * b.z) + s2.y * (b.x * b.z) + s2.z * (b.x * b.y) := rfl

/-- the discriminant of eq. (11) is a sum of the form `X²+Y²+Z²−2XY−2YZ−2XZ` with two of
`X,Y,Z` of opposite sign (design spike `Fresnel_Antitone.lean`) -/
theorem disc_nonneg_aux (u v w bx b_y bz : ℝ) (hu : 0 ≤ u) (hv : 0 ≤ v) (hw : 0 ≤ w)
    (h1 : u + v + w = 1) :
    0 ≤ (u * (b_y + bz) + v * (bx + bz) + w * (bx + b_y)) * (u * (b_y + bz) + v * (bx + bz) + w * (bx + b_y))
      - 4 * (u * (b_y * bz) + v * (bx * bz) + w * (bx * b_y)) := by
  have key : (u * (b_y + bz) + v * (bx + bz) + w * (bx + b_y)) * (u * (b_y + bz) + v * (bx + bz) + w * (bx + b_y))
      - 4 * (u * (b_y * bz) + v * (bx * bz) + w * (bx * b_y)) * (u + v + w)
      = (u*(b_y-bz))^2 + (v*(bz-bx))^2 + (w*(bx-b_y))^2 - 2*(u*(b_y-bz))*(v*(bz-bx))
        - 2*(v*(bz-bx))*(w*(bx-b_y)) - 2*(u*(b_y-bz))*(w*(bx-b_y)) := by ring
  rw [h1, mul_one] at key
  rw [key]
  set X := u*(b_y-bz)
  set Y := v*(bz-bx)
  set Z := w*(bx-b_y)
  rcases le_total b_y bz with h12 | h12 <;> rcases le_total bz bx with h23 | h23 <;>
    rcases le_total bx b_y with h31 | h31
  all_goals
    first
    | (have : X * Y ≤ 0 := by
        apply mul_nonpos_iff.mpr
        first
        | (left; constructor <;> [apply mul_nonneg hu; apply mul_nonpos_of_nonneg_of_nonpos hv] <;> linarith)
        | (right; constructor <;> [apply mul_nonpos_of_nonneg_of_nonpos hu; apply mul_nonneg hv] <;> linarith)
       nlinarith [sq_nonneg (X + Y - Z)])
    | (have : Y * Z ≤ 0 := by
        apply mul_nonpos_iff.mpr
        first
        | (left; constructor <;> [apply mul_nonneg hv; apply mul_nonpos_of_nonneg_of_nonpos hw] <;> linarith)
        | (right; constructor <;> [apply mul_nonpos_of_nonneg_of_nonpos hv; apply mul_nonneg hw] <;> linarith)
       nlinarith [sq_nonneg (-X + Y + Z)])

/-! ### the rotation into the crystal frame -/

theorem toCrystalFrame_eq (θ φ : ℝ) (v : Vec3 ℝ) :
    toCrystalFrame θ φ v =
      ⟨Real.cos φ * Real.cos θ * v.x + -Real.sin φ * v.y + Real.cos φ * Real.sin θ * v.z,
       Real.sin φ * Real.cos θ * v.x + Real.cos φ * v.y + Real.sin φ * Real.sin θ * v.z,
       -Real.sin θ * v.x + Real.cos θ * v.z⟩ := by
  simp only [toCrystalFrame, fromEulerAngles, Mat3.mulVec, Transc.sin, Transc.cos, lit_zero,
    Real.sin_zero, Real.cos_zero, mul_zero, mul_one, zero_sub, add_zero, zero_add, sub_zero, zero_mul]

theorem toCrystalFrame_normSq (θ φ : ℝ) (v : Vec3 ℝ) :
    (toCrystalFrame θ φ v).normSq = v.normSq := by
  rw [toCrystalFrame_eq]
  simp only [Vec3.normSq, Vec3.dot]
  have h1 := Real.sin_sq_add_cos_sq θ
  have h2 := Real.sin_sq_add_cos_sq φ
  linear_combination
    (v.x ^ 2 + v.z ^ 2) * h1 +
    ((Real.cos θ * v.x + Real.sin θ * v.z) ^ 2 + v.y ^ 2) * h2

/-! ### faithful form = spec form -/

/-- facts about the coefficients of eq. (11) for a unit crystal-frame direction and positive indices -/
structure FrameData (n s : Vec3 ℝ) : Prop where
  bx : 0 < (invSq n).x
  b_y : 0 < (invSq n).y
  bz : 0 < (invSq n).z
  u : 0 ≤ (sqVec s).x
  v : 0 ≤ (sqVec s).y
  w : 0 ≤ (sqVec s).z
  sum : (sqVec s).x + (sqVec s).y + (sqVec s).z = 1

theorem frameData (n s : Vec3 ℝ) (hx : 0 < n.x) (hy : 0 < n.y) (hz : 0 < n.z) (hs : s.normSq = 1) :
    FrameData n s := by
  refine ⟨?_, ?_, ?_, mul_self_nonneg _, mul_self_nonneg _, mul_self_nonneg _, ?_⟩
  · simp only [invSq, lit_one]; positivity
  · simp only [invSq, lit_one]; positivity
  · simp only [invSq, lit_one]; positivity
  · simpa [Vec3.normSq, Vec3.dot, sqVec] using hs

theorem FrameData.B_nonneg {n s : Vec3 ℝ} (h : FrameData n s) : 0 ≤ fresnelB (sqVec s) (invSq n) := by
  rw [fresnelB_eq]
  have := h.bx; have := h.b_y; have := h.bz; have := h.u; have := h.v; have := h.w
  positivity

theorem FrameData.C_nonneg {n s : Vec3 ℝ} (h : FrameData n s) : 0 ≤ fresnelC (sqVec s) (invSq n) := by
  rw [fresnelC_eq]
  have := h.bx; have := h.b_y; have := h.bz; have := h.u; have := h.v; have := h.w
  positivity

theorem FrameData.disc_nonneg {n s : Vec3 ℝ} (h : FrameData n s) :
    0 ≤ fresnelB (sqVec s) (invSq n) * fresnelB (sqVec s) (invSq n) - 4 * fresnelC (sqVec s) (invSq n) := by
  rw [fresnelB_eq, fresnelC_eq]
  exact disc_nonneg_aux _ _ _ _ _ _ h.u h.v h.w h.sum

/-- over ℝ, what `index_along` extracts from the root finder is the closed form; in particular the
`Roots::No` exit is not taken (the fallback value is irrelevant) -/
theorem pick_eq_spec (B C : ℝ) (hd : 0 ≤ B * B - 4 * C) (pol : Pol) (fb : Option ℝ) :
    pickInvSq (quadRoots (1.0 : ℝ) B C) pol fb = some (specInvSq B C pol) := by
  rcases hd.lt_or_eq with hpos | hzero
  · rw [quadRoots_pos B C hpos]
    cases pol <;> simp only [pickInvSq, specInvSq, Transc.sqrt, lit_four, lit_two] <;> congr 1 <;> ring
  · rw [quadRoots_zero B C hzero.symm]
    cases pol <;>
      simp only [pickInvSq, specInvSq, Transc.sqrt, lit_four, lit_two, ← hzero, Real.sqrt_zero] <;>
      congr 1 <;> ring

theorem specInvSq_nonneg (B C : ℝ) (hB : 0 ≤ B) (hC : 0 ≤ C) (pol : Pol) : 0 ≤ specInvSq B C pol := by
  have hs : Real.sqrt (B * B - 4 * C) ≤ B := by
    calc Real.sqrt (B * B - 4 * C) ≤ Real.sqrt (B * B) := Real.sqrt_le_sqrt (by linarith)
      _ = B := Real.sqrt_mul_self hB
  have hs0 := Real.sqrt_nonneg (B * B - 4 * C)
  cases pol <;> simp only [specInvSq, Transc.sqrt, lit_four, lit_two]
  · apply div_nonneg <;> linarith
  · apply div_nonneg <;> linarith

theorem indexFromFrame_eq_spec (n s : Vec3 ℝ) (hx : 0 < n.x) (hy : 0 < n.y) (hz : 0 < n.z)
    (hs : s.normSq = 1) (pol : Pol) : indexFromFrame n s pol = indexFromFrameSpec n s pol := by
  have h := frameData n s hx hy hz hs
  simp only [indexFromFrame, indexFromFrameSpec]
  rw [pick_eq_spec _ _ h.disc_nonneg]
  simp only [finishIndex, lit_zero]
  rw [if_neg (not_lt.mpr (specInvSq_nonneg _ _ h.B_nonneg h.C_nonneg pol))]


/-! ### bounds in `1/n²` space -/

/-- the quadratic of eq. (11) in `x = 1/n²` -/
theorem quad_at (u v w bx b_y bz β : ℝ) (h1 : u + v + w = 1) :
    β * β - β * (u * (b_y + bz) + v * (bx + bz) + w * (bx + b_y)) + (u * (b_y * bz) + v * (bx * bz) + w * (bx * b_y))
      = u * ((β - b_y) * (β - bz)) + v * ((β - bx) * (β - bz)) + w * ((β - bx) * (β - b_y)) := by
  have : β * β = β * β * (u + v + w) := by rw [h1, mul_one]
  rw [this]; ring

theorem specInvSq_ord_le_ext (B C : ℝ) : specInvSq B C .ordinary ≤ specInvSq B C .extraordinary := by
  have hs0 := Real.sqrt_nonneg (B * B - 4 * C)
  simp only [specInvSq, Transc.sqrt, lit_four, lit_two]
  apply div_le_div_of_nonneg_right <;> linarith

theorem FrameData.spec_le {n s : Vec3 ℝ} (h : FrameData n s) (β : ℝ)
    (hx : (invSq n).x ≤ β) (hy : (invSq n).y ≤ β) (hz : (invSq n).z ≤ β) (pol : Pol) :
    specInvSq (fresnelB (sqVec s) (invSq n)) (fresnelC (sqVec s) (invSq n)) pol ≤ β := by
  refine le_trans (b := specInvSq (fresnelB (sqVec s) (invSq n)) (fresnelC (sqVec s) (invSq n)) .extraordinary) ?_ ?_
  · cases pol
    · exact specInvSq_ord_le_ext _ _
    · exact le_refl _
  have hu := h.u; have hv := h.v; have hw := h.w; have hsum := h.sum
  rw [fresnelB_eq, fresnelC_eq]
  set u := (sqVec s).x; set v := (sqVec s).y; set w := (sqVec s).z
  set bx := (invSq n).x; set b_y := (invSq n).y; set bz := (invSq n).z
  simp only [specInvSq, Transc.sqrt, lit_four, lit_two]
  have hq := quad_at u v w bx b_y bz β hsum
  have hq0 : 0 ≤ u * ((β - b_y) * (β - bz)) + v * ((β - bx) * (β - bz)) + w * ((β - bx) * (β - b_y)) := by
    have := mul_nonneg (sub_nonneg.mpr hx) (sub_nonneg.mpr hy)
    have := mul_nonneg (sub_nonneg.mpr hx) (sub_nonneg.mpr hz)
    have := mul_nonneg (sub_nonneg.mpr hy) (sub_nonneg.mpr hz)
    positivity
  set B := u * (b_y + bz) + v * (bx + bz) + w * (bx + b_y)
  set C := u * (b_y * bz) + v * (bx * bz) + w * (bx * b_y)
  have hB : B ≤ 2 * β := by
    have : 2 * β = 2 * β * (u + v + w) := by rw [hsum, mul_one]
    rw [this]
    have e : 2 * β * (u + v + w) - B = u * ((β - b_y) + (β - bz)) + v * ((β - bx) + (β - bz)) + w * ((β - bx) + (β - b_y)) := by
      simp only [B]; ring
    have : 0 ≤ 2 * β * (u + v + w) - B := by
      rw [e]
      have := sub_nonneg.mpr hx; have := sub_nonneg.mpr hy; have := sub_nonneg.mpr hz
      positivity
    linarith
  have hsq : Real.sqrt (B * B - 4 * C) ≤ 2 * β - B := by
    rw [Real.sqrt_le_iff]
    constructor
    · linarith
    · nlinarith
  linarith

theorem FrameData.le_spec {n s : Vec3 ℝ} (h : FrameData n s) (β : ℝ)
    (hx : β ≤ (invSq n).x) (hy : β ≤ (invSq n).y) (hz : β ≤ (invSq n).z) (pol : Pol) :
    β ≤ specInvSq (fresnelB (sqVec s) (invSq n)) (fresnelC (sqVec s) (invSq n)) pol := by
  refine le_trans (b := specInvSq (fresnelB (sqVec s) (invSq n)) (fresnelC (sqVec s) (invSq n)) .ordinary) ?_ ?_
  swap
  · cases pol
    · exact le_refl _
    · exact specInvSq_ord_le_ext _ _
  have hu := h.u; have hv := h.v; have hw := h.w; have hsum := h.sum
  rw [fresnelB_eq, fresnelC_eq]
  set u := (sqVec s).x; set v := (sqVec s).y; set w := (sqVec s).z
  set bx := (invSq n).x; set b_y := (invSq n).y; set bz := (invSq n).z
  simp only [specInvSq, Transc.sqrt, lit_four, lit_two]
  have hq := quad_at u v w bx b_y bz β hsum
  have hq0 : 0 ≤ u * ((β - b_y) * (β - bz)) + v * ((β - bx) * (β - bz)) + w * ((β - bx) * (β - b_y)) := by
    have := mul_nonneg_of_nonpos_of_nonpos (sub_nonpos.mpr hx) (sub_nonpos.mpr hy)
    have := mul_nonneg_of_nonpos_of_nonpos (sub_nonpos.mpr hx) (sub_nonpos.mpr hz)
    have := mul_nonneg_of_nonpos_of_nonpos (sub_nonpos.mpr hy) (sub_nonpos.mpr hz)
    positivity
  set B := u * (b_y + bz) + v * (bx + bz) + w * (bx + b_y)
  set C := u * (b_y * bz) + v * (bx * bz) + w * (bx * b_y)
  have hB : 2 * β ≤ B := by
    have : 2 * β = 2 * β * (u + v + w) := by rw [hsum, mul_one]
    rw [this]
    have e : B - 2 * β * (u + v + w) = u * ((b_y - β) + (bz - β)) + v * ((bx - β) + (bz - β)) + w * ((bx - β) + (b_y - β)) := by
      simp only [B]; ring
    have : 0 ≤ B - 2 * β * (u + v + w) := by
      rw [e]
      have := sub_nonneg.mpr hx; have := sub_nonneg.mpr hy; have := sub_nonneg.mpr hz
      positivity
    linarith
  have hsq : Real.sqrt (B * B - 4 * C) ≤ B - 2 * β := by
    rw [Real.sqrt_le_iff]
    constructor
    · linarith
    · nlinarith
  linarith



/-! ### from `1/n²` to `n` -/

theorem invSq_x (n : Vec3 ℝ) : (invSq n).x = 1 / (n.x * n.x) := by simp only [invSq, lit_one]
theorem invSq_y (n : Vec3 ℝ) : (invSq n).y = 1 / (n.y * n.y) := by simp only [invSq, lit_one]
theorem invSq_z (n : Vec3 ℝ) : (invSq n).z = 1 / (n.z * n.z) := by simp only [invSq, lit_one]

theorem one_div_sqrt_one_div_sq (m : ℝ) (hm : 0 < m) : 1 / Real.sqrt (1 / (m * m)) = m := by
  rw [one_div, one_div, Real.sqrt_inv, Real.sqrt_mul_self hm.le, inv_inv]

theorem index_ge_of_le (x m : ℝ) (hm : 0 < m) (hx0 : 0 < x) (hx : x ≤ 1 / (m * m)) :
    m ≤ 1 / Real.sqrt x := by
  rw [← one_div_sqrt_one_div_sq m hm]
  exact one_div_le_one_div_of_le (Real.sqrt_pos.mpr hx0) (Real.sqrt_le_sqrt hx)

theorem index_le_of_ge (x M : ℝ) (hM : 0 < M) (hx : 1 / (M * M) ≤ x) :
    1 / Real.sqrt x ≤ M := by
  have h0 : 0 < 1 / (M * M) := by positivity
  rw [← one_div_sqrt_one_div_sq M hM]
  exact one_div_le_one_div_of_le (Real.sqrt_pos.mpr h0) (Real.sqrt_le_sqrt hx)

theorem recip_sq_le (a b : ℝ) (ha : 0 < a) (hab : a ≤ b) : 1 / (b * b) ≤ 1 / (a * a) := by
  apply one_div_le_one_div_of_le (by positivity)
  nlinarith

theorem FrameData.spec_pos {n s : Vec3 ℝ} (h : FrameData n s) (hx : 0 < n.x) (hy : 0 < n.y)
    (hz : 0 < n.z) (pol : Pol) :
    0 < specInvSq (fresnelB (sqVec s) (invSq n)) (fresnelC (sqVec s) (invSq n)) pol := by
  set M := n.x + n.y + n.z with hM
  have hMpos : 0 < M := by positivity
  have := h.le_spec (1 / (M * M))
    (by rw [invSq_x]; exact recip_sq_le _ _ hx (by linarith))
    (by rw [invSq_y]; exact recip_sq_le _ _ hy (by linarith))
    (by rw [invSq_z]; exact recip_sq_le _ _ hz (by linarith)) pol
  have h0 : 0 < 1 / (M * M) := by positivity
  linarith

theorem indexFromFrameSpec_eq (n s : Vec3 ℝ) (pol : Pol) :
    indexFromFrameSpec n s pol =
      1 / Real.sqrt (specInvSq (fresnelB (sqVec s) (invSq n)) (fresnelC (sqVec s) (invSq n)) pol) := by
  simp only [indexFromFrameSpec, lit_one, Transc.sqrt]

/-- lower bound: every principal index ≥ m ⇒ the index along any direction ≥ m -/
theorem indexFromFrameSpec_ge (n s : Vec3 ℝ) (hx : 0 < n.x) (hy : 0 < n.y) (hz : 0 < n.z)
    (hs : s.normSq = 1) (pol : Pol) (m : ℝ) (hm : 0 < m) (mx : m ≤ n.x) (my : m ≤ n.y) (mz : m ≤ n.z) :
    m ≤ indexFromFrameSpec n s pol := by
  have h := frameData n s hx hy hz hs
  rw [indexFromFrameSpec_eq]
  apply index_ge_of_le _ _ hm (h.spec_pos hx hy hz pol)
  exact h.spec_le _ (by rw [invSq_x]; exact recip_sq_le _ _ hm mx)
    (by rw [invSq_y]; exact recip_sq_le _ _ hm my) (by rw [invSq_z]; exact recip_sq_le _ _ hm mz) pol

theorem indexFromFrameSpec_le (n s : Vec3 ℝ) (hx : 0 < n.x) (hy : 0 < n.y) (hz : 0 < n.z)
    (hs : s.normSq = 1) (pol : Pol) (M : ℝ) (mx : n.x ≤ M) (my : n.y ≤ M) (mz : n.z ≤ M) :
    indexFromFrameSpec n s pol ≤ M := by
  have h := frameData n s hx hy hz hs
  have hM : 0 < M := lt_of_lt_of_le hx mx
  rw [indexFromFrameSpec_eq]
  apply index_le_of_ge _ _ hM
  exact h.le_spec _ (by rw [invSq_x]; exact recip_sq_le _ _ hx mx)
    (by rw [invSq_y]; exact recip_sq_le _ _ hy my) (by rw [invSq_z]; exact recip_sq_le _ _ hz mz) pol

theorem indexFromFrameSpec_order (n s : Vec3 ℝ) (hx : 0 < n.x) (hy : 0 < n.y) (hz : 0 < n.z)
    (hs : s.normSq = 1) :
    indexFromFrameSpec n s .extraordinary ≤ indexFromFrameSpec n s .ordinary := by
  have h := frameData n s hx hy hz hs
  rw [indexFromFrameSpec_eq, indexFromFrameSpec_eq]
  exact one_div_le_one_div_of_le (Real.sqrt_pos.mpr (h.spec_pos hx hy hz _))
    (Real.sqrt_le_sqrt (specInvSq_ord_le_ext _ _))

/-! ### Fresnel's equation -/

/-- Fresnel's wave-normal equation `Σ sᵢ²/(x − bᵢ) = 0` in `x = 1/n²`, denominators cleared -/
def fresnelCleared (s2 b : Vec3 ℝ) (x : ℝ) : ℝ :=
  s2.x * ((x - b.y) * (x - b.z)) + s2.y * ((x - b.x) * (x - b.z)) + s2.z * ((x - b.x) * (x - b.y))

theorem fresnelCleared_factor (s2 b : Vec3 ℝ) (hsum : s2.x + s2.y + s2.z = 1)
    (hd : 0 ≤ fresnelB s2 b * fresnelB s2 b - 4 * fresnelC s2 b) (x : ℝ) :
    fresnelCleared s2 b x =
      (x - specInvSq (fresnelB s2 b) (fresnelC s2 b) .ordinary) *
      (x - specInvSq (fresnelB s2 b) (fresnelC s2 b) .extraordinary) := by
  have hq := quad_at s2.x s2.y s2.z b.x b.y b.z x hsum
  rw [← fresnelB_eq, ← fresnelC_eq] at hq
  unfold fresnelCleared
  rw [← hq]
  simp only [specInvSq, Transc.sqrt, lit_four, lit_two]
  have hss := Real.mul_self_sqrt hd
  set B := fresnelB s2 b
  set C := fresnelC s2 b
  set q := Real.sqrt (B * B - 4 * C)
  linear_combination (1 / 4 : ℝ) * hss

/-- the un-cleared form, where it makes sense -/
theorem fresnel_fraction_form (s2 b : Vec3 ℝ) (x : ℝ) (hx : x ≠ b.x) (hy : x ≠ b.y) (hz : x ≠ b.z) :
    s2.x / (x - b.x) + s2.y / (x - b.y) + s2.z / (x - b.z) = 0 ↔ fresnelCleared s2 b x = 0 := by
  have h1 : x - b.x ≠ 0 := sub_ne_zero.mpr hx
  have h2 : x - b.y ≠ 0 := sub_ne_zero.mpr hy
  have h3 : x - b.z ≠ 0 := sub_ne_zero.mpr hz
  unfold fresnelCleared
  rw [div_add_div _ _ h1 h2, div_add_div _ _ (mul_ne_zero h1 h2) h3, div_eq_zero_iff]
  constructor
  · rintro (h | h)
    · linear_combination h
    · exact absurd h (mul_ne_zero (mul_ne_zero h1 h2) h3)
  · intro h; left; linear_combination h

/-- `1/N² = x` for `N = 1/√x`, `x > 0` -/
theorem recip_sq_index (x : ℝ) (hx : 0 < x) : 1 / ((1 / Real.sqrt x) * (1 / Real.sqrt x)) = x := by
  have hs : Real.sqrt x ≠ 0 := (Real.sqrt_pos.mpr hx).ne'
  field_simp
  exact (Real.sq_sqrt hx.le)



/-! ### uniaxial crystals -/

/-- for `b_x = b_y = b_o` the quadratic factors as `(x − b_o)(x − b_θ)`, `b_θ = w·b_o + (1−w)·b_e` -/
theorem uniaxial_coeffs (s2 : Vec3 ℝ) (bo be : ℝ) (hsum : s2.x + s2.y + s2.z = 1) :
    fresnelB s2 ⟨bo, bo, be⟩ = bo + (s2.z * bo + (1 - s2.z) * be) ∧
    fresnelC s2 ⟨bo, bo, be⟩ = bo * (s2.z * bo + (1 - s2.z) * be) := by
  have hxy : s2.x + s2.y = 1 - s2.z := by linarith
  rw [fresnelB_eq, fresnelC_eq]
  constructor
  · linear_combination (bo + be) * hxy
  · linear_combination (bo * be) * hxy

theorem uniaxial_spec (s2 : Vec3 ℝ) (bo be : ℝ) (hsum : s2.x + s2.y + s2.z = 1) :
    specInvSq (fresnelB s2 ⟨bo, bo, be⟩) (fresnelC s2 ⟨bo, bo, be⟩) .ordinary
        = min bo (s2.z * bo + (1 - s2.z) * be) ∧
    specInvSq (fresnelB s2 ⟨bo, bo, be⟩) (fresnelC s2 ⟨bo, bo, be⟩) .extraordinary
        = max bo (s2.z * bo + (1 - s2.z) * be) := by
  obtain ⟨hB, hC⟩ := uniaxial_coeffs s2 bo be hsum
  rw [hB, hC]
  set bt := s2.z * bo + (1 - s2.z) * be
  have hd : (bo + bt) * (bo + bt) - 4 * (bo * bt) = (bo - bt) ^ 2 := by ring
  simp only [specInvSq, Transc.sqrt, lit_four, lit_two, hd, Real.sqrt_sq_eq_abs]
  rcases le_total bo bt with h | h
  · rw [abs_of_nonpos (sub_nonpos.mpr h), min_eq_left h, max_eq_right h]
    constructor <;> ring
  · rw [abs_of_nonneg (sub_nonneg.mpr h), min_eq_right h, max_eq_left h]
    constructor <;> ring

theorem uniaxialIndex_eq (no ne θ : ℝ) :
    uniaxialIndex no ne θ =
      1 / Real.sqrt (Real.cos θ * Real.cos θ / (no * no) + Real.sin θ * Real.sin θ / (ne * ne)) := by
  simp only [uniaxialIndex, lit_one, Transc.sqrt, Transc.cos, Transc.sin]

/-- `b_θ` written with the angle from the optic axis -/
theorem btheta_angle (s : Vec3 ℝ) (no ne ψ : ℝ) (hψ : s.z = Real.cos ψ) :
    (sqVec s).z * (1 / (no * no)) + (1 - (sqVec s).z) * (1 / (ne * ne))
      = Real.cos ψ * Real.cos ψ / (no * no) + Real.sin ψ * Real.sin ψ / (ne * ne) := by
  have h1 := Real.sin_sq_add_cos_sq ψ
  simp only [sqVec, hψ]
  have : 1 - Real.cos ψ * Real.cos ψ = Real.sin ψ * Real.sin ψ := by nlinarith
  rw [this]; ring

theorem uniaxial_g_pos (no ne θ : ℝ) (hno : 0 < no) (hne : 0 < ne) :
    0 < Real.cos θ * Real.cos θ / (no * no) + Real.sin θ * Real.sin θ / (ne * ne) := by
  have h1 := Real.sin_sq_add_cos_sq θ
  have a : 0 < 1 / (no * no) := by positivity
  have b : 0 < 1 / (ne * ne) := by positivity
  rw [div_eq_mul_one_div, div_eq_mul_one_div (Real.sin θ * Real.sin θ)]
  rcases lt_or_ge 0 (Real.cos θ * Real.cos θ) with hc | hc
  · have := mul_pos hc a
    have := mul_nonneg (mul_self_nonneg (Real.sin θ)) b.le
    linarith
  · have hs : 0 < Real.sin θ * Real.sin θ := by nlinarith [mul_self_nonneg (Real.cos θ)]
    have := mul_pos hs b
    have := mul_nonneg (mul_self_nonneg (Real.cos θ)) a.le
    linarith

/-- exact derivative of the direction-dependent uniaxial index with respect to the angle from the
optic axis: `n′ = −n · ½ n² (1/n_e² − 1/n_o²) sin 2θ` -/
theorem uniaxialIndex_hasDerivAt (no ne θ : ℝ) (hno : 0 < no) (hne : 0 < ne) :
    HasDerivAt (uniaxialIndex no ne)
      (-(uniaxialIndex no ne θ) * (1 / 2 * (uniaxialIndex no ne θ * uniaxialIndex no ne θ) *
        (1 / (ne * ne) - 1 / (no * no)) * Real.sin (2 * θ))) θ := by
  have hfun : uniaxialIndex no ne = fun t =>
      (Real.sqrt (Real.cos t * Real.cos t / (no * no) + Real.sin t * Real.sin t / (ne * ne)))⁻¹ := by
    funext t; rw [uniaxialIndex_eq, one_div]
  have hg := uniaxial_g_pos no ne θ hno hne
  have hc := Real.hasDerivAt_cos θ
  have hs := Real.hasDerivAt_sin θ
  have hG : HasDerivAt
      (fun t => Real.cos t * Real.cos t / (no * no) + Real.sin t * Real.sin t / (ne * ne))
      ((-Real.sin θ * Real.cos θ + Real.cos θ * -Real.sin θ) / (no * no) +
        (Real.cos θ * Real.sin θ + Real.sin θ * Real.cos θ) / (ne * ne)) θ :=
    ((hc.mul hc).div_const _).add ((hs.mul hs).div_const _)
  have hS := (hG.sqrt hg.ne').inv (Real.sqrt_pos.mpr hg).ne'
  have hval : uniaxialIndex no ne θ = (Real.sqrt
      (Real.cos θ * Real.cos θ / (no * no) + Real.sin θ * Real.sin θ / (ne * ne)))⁻¹ := by
    rw [uniaxialIndex_eq, one_div]
  rw [hval, hfun]
  refine hS.congr_deriv ?_
  set g := Real.cos θ * Real.cos θ / (no * no) + Real.sin θ * Real.sin θ / (ne * ne) with hgdef
  have hq : Real.sqrt g ≠ 0 := (Real.sqrt_pos.mpr hg).ne'
  have hqq : Real.sqrt g ^ 2 = g := Real.sq_sqrt hg.le
  rw [Real.sin_two_mul]
  have hno' : no ≠ 0 := hno.ne'
  have hne' : ne ≠ 0 := hne.ne'
  field_simp
  ring


/-- the clamp of the Float-robust spec form is inactive over ℝ -/
theorem specInvSqClamped_eq (B C : ℝ) (hd : 0 ≤ B * B - 4 * C) (pol : Pol) :
    specInvSqClamped B C pol = specInvSq B C pol := by
  simp only [specInvSqClamped, specInvSq, lit_four, lit_zero, if_neg (not_lt.mpr hd)]

end Spdc.Index
