import Spdc.Model.DeltaK
import Spdc.Real.Inst
import Mathlib.Analysis.SpecialFunctions.Trigonometric.Inverse
import Mathlib.Analysis.SpecialFunctions.Trigonometric.Basic
import Mathlib.Algebra.Order.Floor.Ring
import Mathlib.Tactic.LinearCombination
import Mathlib.Tactic.FieldSimp
import Mathlib.Tactic.Positivity
/-!
# ℝ-side helper lemmas for `Model/DeltaK.lean` (C03, C04)
-/
namespace Spdc.DeltaK
open Real

/-! ### the `Transc ℝ` operations are Mathlib's -/
theorem tsin (x : ℝ) : Transc.sin x = Real.sin x := rfl
theorem tcos (x : ℝ) : Transc.cos x = Real.cos x := rfl
theorem tasin (x : ℝ) : Transc.asin x = Real.arcsin x := rfl
theorem tsqrt (x : ℝ) : Transc.sqrt x = Real.sqrt x := rfl
theorem tpi : (Transc.pi : ℝ) = π := rfl
theorem tabs (x : ℝ) : Transc.abs x = |x| := rfl
theorem tfloor (x : ℝ) : Transc.floor x = (⌊x⌋ : ℝ) := rfl

theorem twoPi_eq : (twoPi : ℝ) = 2 * π := by
  simp only [twoPi, lit_two, tpi]

theorem twoPi_pos : (0 : ℝ) < twoPi := by
  rw [twoPi_eq]; positivity

theorem c0_pos : (0 : ℝ) < c0 := by
  simp only [c0]; norm_num

theorem signMul_eq (neg : Bool) (x : ℝ) : signMul neg x = if neg then -x else x := by
  cases neg <;> simp [signMul, lit_one]

theorem signMul_ne_zero (neg : Bool) {x : ℝ} (h : x ≠ 0) : signMul neg x ≠ 0 := by
  rw [signMul_eq]; cases neg <;> simp [h]

theorem signMul_inj (neg : Bool) {x y : ℝ} (h : signMul neg x = signMul neg y) : x = y := by
  rw [signMul_eq, signMul_eq] at h
  cases neg <;> simp at h <;> exact h

theorem abs_signMul (neg : Bool) (x : ℝ) : |signMul neg x| = |x| := by
  rw [signMul_eq]; cases neg <;> simp

/-! ### `k_eff` -/
theorem kEff_off : kEff (Poling.off : Poling ℝ) = .ok 0 := by
  simp [kEff, lit_zero]

theorem kEff_on {p : ℝ} (neg : Bool) (hp : 0 < p) :
    kEff (Poling.on p neg) = .ok (2 * π / signMul neg p) := by
  simp [kEff, lit_zero, lit_one, hp, twoPi_eq]

theorem kEff_on_nonpos {p : ℝ} (neg : Bool) (hp : p ≤ 0) :
    (kEff (Poling.on p neg)).isPanic = true := by
  simp [kEff, lit_zero, not_lt.mpr hp, Outcome.isPanic]

/-- the poling wavenumber is `2π/λ_s` times the `k_pp` of `try_new_optimum` -/
theorem kEff_eq_kpp {ls : ℝ} (hls : ls ≠ 0) (pp : Poling ℝ) {ke : ℝ} (h : kEff pp = .ok ke) :
    ke = 2 * π / ls * kpp ls pp := by
  cases pp with
  | off =>
    rw [kEff_off] at h
    simp only [Outcome.ok.injEq] at h
    simp [kpp, lit_zero, ← h]
  | on p neg =>
    by_cases hp : 0 < p
    · rw [kEff_on neg hp] at h
      simp only [Outcome.ok.injEq] at h
      have : signMul neg p ≠ 0 := signMul_ne_zero neg hp.ne'
      simp only [kpp, ← h]
      field_simp
    · simp [kEff, lit_zero, hp] at h

/-! ### wavelength ↔ frequency -/
theorem freqOfWavelength_eq (l : ℝ) : freqOfWavelength l = 2 * π * c0 / l := by
  simp [freqOfWavelength, lit_one, twoPi_eq]

theorem wavelengthOfFreq_eq (w : ℝ) : wavelengthOfFreq w = 2 * π * c0 / w := by
  simp [wavelengthOfFreq, lit_one, twoPi_eq]

theorem wavelength_freq_roundtrip {l : ℝ} (hl : l ≠ 0) :
    wavelengthOfFreq (freqOfWavelength l) = l := by
  rw [freqOfWavelength_eq, wavelengthOfFreq_eq]
  have hc : (c0 : ℝ) ≠ 0 := c0_pos.ne'
  field_simp

/-! ### `rem_euclid(·, 2π)` -/
theorem remEuclidTau_spec (x : ℝ) :
    ∃ n : ℤ, remEuclidTau x = x - 2 * π * n ∧ 0 ≤ remEuclidTau x ∧ remEuclidTau x < 2 * π := by
  have hpi := Real.pi_pos
  unfold remEuclidTau
  simp only [twoPi_eq, lit_zero, tfloor]
  split_ifs with h1 h2 h3
  · exact ⟨0, by simp, not_lt.mp h1.1, h1.2⟩
  · refine ⟨1, by simp, ?_, ?_⟩
    · have := not_lt.mp h2.1; linarith
    · linarith [h2.2]
  · refine ⟨-1, by push_cast; ring, ?_, ?_⟩
    · linarith [h3.1]
    · linarith [h3.2]
  · refine ⟨⌊x / (2 * π)⌋, rfl, ?_, ?_⟩
    · have h := Int.floor_le (x / (2 * π))
      have h' : (⌊x / (2 * π)⌋ : ℝ) * (2 * π) ≤ x := by
        rwa [le_div_iff₀ (by positivity)] at h
      linarith
    · have h := Int.lt_floor_add_one (x / (2 * π))
      have h' : x < ((⌊x / (2 * π)⌋ : ℝ) + 1) * (2 * π) := by
        rwa [div_lt_iff₀ (by positivity)] at h
      linarith

theorem remEuclidTau_of_mem {x : ℝ} (h0 : 0 ≤ x) (h1 : x < 2 * π) : remEuclidTau x = x := by
  unfold remEuclidTau
  simp only [twoPi_eq, lit_zero]
  rw [if_pos ⟨not_lt.mpr h0, h1⟩]

theorem normalizeAngle_spec (x : ℝ) :
    ∃ n : ℤ, normalizeAngle x = x - 2 * π * n ∧ 0 ≤ normalizeAngle x ∧ normalizeAngle x < 2 * π :=
  remEuclidTau_spec x

theorem cos_normalizeAngle (x : ℝ) : Real.cos (normalizeAngle x) = Real.cos x := by
  obtain ⟨n, h, -, -⟩ := normalizeAngle_spec x
  rw [h, mul_comm (2 * π) (n : ℝ)]
  exact Real.cos_sub_int_mul_two_pi x n

theorem sin_normalizeAngle (x : ℝ) : Real.sin (normalizeAngle x) = Real.sin x := by
  obtain ⟨n, h, -, -⟩ := normalizeAngle_spec x
  rw [h, mul_comm (2 * π) (n : ℝ)]
  exact Real.sin_sub_int_mul_two_pi x n

theorem normalizeAngleSigned_of_mem {x : ℝ} (h0 : 0 ≤ x) (h1 : x ≤ π) :
    normalizeAngleSigned x = x := by
  have hpi := Real.pi_pos
  unfold normalizeAngleSigned
  simp only [tpi]
  rw [remEuclidTau_of_mem h0 (by linarith)]
  simp [not_lt.mpr h1]

/-! ### direction from polar angles -/
theorem dirFromPolar_eq (phi theta : ℝ) :
    dirFromPolar phi theta =
      ⟨Real.sin theta * Real.cos phi, Real.sin theta * Real.sin phi, Real.cos theta⟩ := by
  have h : Real.sin theta * Real.cos phi * (Real.sin theta * Real.cos phi) +
      Real.sin theta * Real.sin phi * (Real.sin theta * Real.sin phi) +
      Real.cos theta * Real.cos theta = 1 := by
    have h1 := Real.sin_sq_add_cos_sq theta
    have h2 := Real.sin_sq_add_cos_sq phi
    linear_combination (Real.sin theta ^ 2) * h2 + h1
  simp only [dirFromPolar, tsin, tcos, tsqrt, h, Real.sqrt_one, div_one]

/-! ### the radicand of `try_new_optimum` is the squared norm of the scaled closing vector -/
theorem idlerArg_eq (ns np ls lp thetaS phiS : ℝ) (pp : Poling ℝ) :
    idlerArg ns np ls lp thetaS pp = (closingScaled ns np ls lp thetaS phiS pp).normSq := by
  have h1 := Real.sin_sq_add_cos_sq thetaS
  have h2 := Real.sin_sq_add_cos_sq phiS
  simp only [idlerArg, closingScaled, Vec3.normSq, Vec3.dot, tsin, tcos, lit_two]
  linear_combination (-(ns ^ 2)) * h1 + (-(ns ^ 2 * Real.sin thetaS ^ 2)) * h2


/-! ### unfolding `try_new_optimum` -/
theorem optimumIdler_of_le {i : IdlerIn ℝ} (h : i.ls ≤ i.lp) :
    optimumIdler i = .err "Signal wavelength must be greater than Pump wavelength" := by
  simp [optimumIdler, h]

theorem optimumIdler_of_lt {i : IdlerIn ℝ} (h : i.lp < i.ls) :
    optimumIdler i = .ok
      { pol := i.pm.idlerPol
        phi := normalizeAngle (normalizeAngle (i.phiS + π))
        theta := normalizeAngleSigned (idlerThetaRaw i)
        omega := freqOfWavelength (idlerLambda i.ls i.lp)
        wx := i.wx
        wy := i.wy } := by
  simp [optimumIdler, not_le.mpr h, lit_one, tpi]

theorem optimumIdler_ok {i : IdlerIn ℝ} {o : IdlerOut ℝ} (h : optimumIdler i = .ok o) :
    i.lp < i.ls ∧ o =
      { pol := i.pm.idlerPol
        phi := normalizeAngle (normalizeAngle (i.phiS + π))
        theta := normalizeAngleSigned (idlerThetaRaw i)
        omega := freqOfWavelength (idlerLambda i.ls i.lp)
        wx := i.wx
        wy := i.wy } := by
  by_cases hle : i.ls ≤ i.lp
  · rw [optimumIdler_of_le hle] at h; cases h
  · have hlt := not_le.mp hle
    rw [optimumIdler_of_lt hlt] at h
    exact ⟨hlt, by injection h with h; exact h.symm⟩

/-- forward signal (`|θ_s| < π/2`), no counter-propagation: the raw idler angle is
`arcsin (n_s sin θ_s / √arg)` -/
theorem idlerThetaRaw_forward {i : IdlerIn ℝ} (hcp : i.cp = false) (h0 : -(π / 2) < i.thetaS)
    (h1 : i.thetaS < π / 2) :
    idlerThetaRaw i = Real.arcsin (i.ns * Real.sin i.thetaS /
      Real.sqrt (idlerArg i.ns i.np i.ls i.lp i.thetaS i.pp)) := by
  have hcos : 0 < Real.cos i.thetaS := Real.cos_pos_of_mem_Ioo ⟨h0, h1⟩
  simp [idlerThetaRaw, hcp, tsin, tcos, tasin, tsqrt, lit_zero, not_lt.mpr hcos.le]

theorem remEuclidTau_of_neg {x : ℝ} (h0 : -(2 * π) < x) (h1 : x < 0) :
    remEuclidTau x = x + 2 * π := by
  have hpi := Real.pi_pos
  unfold remEuclidTau
  simp only [twoPi_eq, lit_zero]
  rw [if_neg (fun h => h.1 h1), if_neg (fun h => h.1 (by linarith)), if_pos ⟨h0, h1⟩]

theorem normalizeAngleSigned_of_mem' {x : ℝ} (h0 : -π < x) (h1 : x ≤ π) :
    normalizeAngleSigned x = x := by
  have hpi := Real.pi_pos
  by_cases hx : 0 ≤ x
  · exact normalizeAngleSigned_of_mem hx h1
  · have hx' : x < 0 := not_le.mp hx
    unfold normalizeAngleSigned
    simp only [tpi, twoPi_eq]
    rw [remEuclidTau_of_neg (by linarith) hx', if_pos (by linarith)]
    ring

end Spdc.DeltaK
