import Spdc.Model.Quad
import Spdc.Real.Inst
import Mathlib.Algebra.BigOperators.Intervals
import Mathlib.Tactic.Ring
import Mathlib.Tactic.Linarith
import Mathlib.Tactic.FieldSimp
import Mathlib.Tactic.NormNum
/-!
# Helper lemmas for C12 (quadrature) over ℝ / ℂ
-/
open Finset
namespace Spdc.Quad
open Spdc Spdc.Grid

theorem list_range_map_sum {M : Type} [AddCommMonoid M] (g : ℕ → M) (n : ℕ) :
    ((List.range n).map g).sum = ∑ i ∈ range n, g i := by
  induction n with
  | zero => simp
  | succ n ih => rw [List.range_succ, List.map_append, List.sum_append, ih, Finset.sum_range_succ]; simp

/-- Simpson weight in any commutative ring -/
def wK (K : Type) [CommRing K] (i n : ℕ) : K :=
  if i = 0 ∨ i = n then 1 else if i % 2 = 1 then 4 else 2

theorem simpsonW_real (i d : ℕ) : (simpsonW i d : ℝ) = wK ℝ i d := by
  unfold simpsonW wK; split_ifs <;> norm_num

theorem wK_cast (i d : ℕ) : ((wK ℝ i d : ℝ) : ℂ) = wK ℂ i d := by
  unfold wK; split_ifs <;> norm_num

/-- for even `n` the weights are symmetric -/
theorem wK_symm {K : Type} [CommRing K] (m i : ℕ) (hi : i ≤ 2 * m) :
    wK K (2 * m - i) (2 * m) = wK K i (2 * m) := by
  unfold wK
  have h1 : (2 * m - i = 0 ∨ 2 * m - i = 2 * m) ↔ (i = 0 ∨ i = 2 * m) := by omega
  have h2 : (2 * m - i) % 2 = 1 ↔ i % 2 = 1 := by omega
  simp only [h1, h2]

/-- the 1-4-2-…-4-1 sum over `2m` sub-intervals is the sum over `m` panels of `F₀ + 4F₁ + F₂` -/
theorem weighted_eq_panels {K : Type} [CommRing K] (F : ℕ → K) (m : ℕ) (hm : 1 ≤ m) :
    ∑ i ∈ range (2 * m + 1), wK K i (2 * m) * F i
      = ∑ j ∈ range m, (F (2 * j) + 4 * F (2 * j + 1) + F (2 * j + 2)) := by
  induction m, hm using Nat.le_induction with
  | base => simp [wK, sum_range_succ]
  | succ m hm ih =>
    rw [sum_range_succ (n := m), ← ih]
    have e : 2 * (m + 1) + 1 = (2 * m + 1) + 2 := by ring
    rw [e, sum_range_succ, sum_range_succ, sum_range_succ (n := 2 * m)]
    have hcongr : ∑ i ∈ range (2 * m), wK K i (2 * (m + 1)) * F i
        = ∑ i ∈ range (2 * m), wK K i (2 * m) * F i := by
      apply sum_congr rfl
      intro i hi
      have hi' : i < 2 * m := mem_range.mp hi
      have h1 : i ≠ 2 * (m + 1) := by omega
      have h2 : i ≠ 2 * m := by omega
      simp [wK, h1, h2]
    rw [hcongr]
    have w1 : wK K (2 * m) (2 * (m + 1)) = 2 := by
      have : 2 * m ≠ 0 := by omega
      have h2 : 2 * m ≠ 2 * (m + 1) := by omega
      simp [wK, this, h2]
    have w2 : wK K (2 * m + 1) (2 * (m + 1)) = 4 := by
      have h2 : 2 * m + 1 ≠ 2 * (m + 1) := by omega
      simp [wK, h2]
    have w3 : wK K (2 * m + 1 + 1) (2 * (m + 1)) = 1 := by
      have : 2 * m + 1 + 1 = 2 * (m + 1) := by ring
      simp [wK, this]
    have w0 : wK K (2 * m) (2 * m) = 1 := by simp [wK]
    rw [w1, w2, w3]
    rw [sum_range_succ (fun i => wK K i (2 * m) * F i) (2 * m), w0]
    have c1 : 2 * m + 1 + 1 = 2 * m + 2 := by ring
    rw [c1]
    ring

/-- the model's weighted node sum as a `Finset` sum in ℂ -/
theorem simpsonSum_toC (f : ℝ → Cx ℝ) (a dx : ℝ) (d : ℕ) :
    (simpsonSum f a dx d).toC
      = ∑ i ∈ range (d + 1), wK ℂ i d * (f (a + (i : ℝ) * dx)).toC := by
  unfold simpsonSum
  rw [Cx.toC_sum, List.map_map, list_range_map_sum]
  apply Finset.sum_congr rfl
  intro i _
  simp [Function.comp, simpsonW_real, wK_cast, mul_comm]

theorem simpsonCore_toC (f : ℝ → Cx ℝ) (a b : ℝ) (d : ℕ) :
    (simpsonCore f a b d).toC
      = (∑ i ∈ range (d + 1), wK ℂ i d * (f (a + (i : ℝ) * ((b - a) / (d : ℝ)))).toC)
          * ((((b - a) / (d : ℝ)) / 3 : ℝ) : ℂ) := by
  unfold simpsonCore
  simp only [Cx.toC_muls, simpsonSum_toC, lit_three]


/-- complex cubic and its antiderivative -/
def cubic (c0 c1 c2 c3 x : ℂ) : ℂ := c0 + c1 * x + c2 * x ^ 2 + c3 * x ^ 3
noncomputable def cubicAnti (c0 c1 c2 c3 x : ℂ) : ℂ := c0 * x + c1 * x ^ 2 / 2 + c2 * x ^ 3 / 3 + c3 * x ^ 4 / 4

theorem polyEval4_toC (c0 c1 c2 c3 : Cx ℝ) (x : ℝ) :
    (polyEval [c0, c1, c2, c3] x).toC = cubic c0.toC c1.toC c2.toC c3.toC x := by
  simp only [polyEval, List.foldr, Cx.toC_add', Cx.toC_muls, Cx.toC_zero, cubic]
  ring

theorem panel_exact_cubic (c0 c1 c2 c3 x h : ℂ) :
    (cubic c0 c1 c2 c3 x + 4 * cubic c0 c1 c2 c3 (x + h) + cubic c0 c1 c2 c3 (x + 2 * h)) * (h / 3)
      = cubicAnti c0 c1 c2 c3 (x + 2 * h) - cubicAnti c0 c1 c2 c3 x := by
  simp only [cubic, cubicAnti]; ring

/-- the rule with `2m` sub-intervals applied to values `p (a + i·h)` of a function with the panel
property telescopes -/
theorem simpson_telescope (p P : ℂ → ℂ) (a h : ℂ) (m : ℕ) (hm : 1 ≤ m)
    (hp : ∀ x, (p x + 4 * p (x + h) + p (x + 2 * h)) * (h / 3) = P (x + 2 * h) - P x) :
    (∑ i ∈ range (2 * m + 1), wK ℂ i (2 * m) * p (a + (i : ℂ) * h)) * (h / 3)
      = P (a + (2 * m : ℕ) * h) - P a := by
  rw [weighted_eq_panels (fun i => p (a + (i : ℂ) * h)) m hm, Finset.sum_mul]
  have : ∀ j ∈ range m, (p (a + ((2 * j : ℕ) : ℂ) * h) + 4 * p (a + ((2 * j + 1 : ℕ) : ℂ) * h)
      + p (a + ((2 * j + 2 : ℕ) : ℂ) * h)) * (h / 3)
      = P (a + ((2 * (j + 1) : ℕ) : ℂ) * h) - P (a + ((2 * j : ℕ) : ℂ) * h) := by
    intro j _
    have := hp (a + ((2 * j : ℕ) : ℂ) * h)
    have e1 : a + ((2 * j + 1 : ℕ) : ℂ) * h = a + ((2 * j : ℕ) : ℂ) * h + h := by push_cast; ring
    have e2 : a + ((2 * j + 2 : ℕ) : ℂ) * h = a + ((2 * j : ℕ) : ℂ) * h + 2 * h := by push_cast; ring
    have e3 : a + ((2 * (j + 1) : ℕ) : ℂ) * h = a + ((2 * j : ℕ) : ℂ) * h + 2 * h := by push_cast; ring
    rw [e1, e2, e3]; exact this
  rw [Finset.sum_congr rfl this]
  rw [Finset.sum_range_sub (fun j => P (a + ((2 * j : ℕ) : ℂ) * h))]; simp

theorem simpsonCore_cubic (c0 c1 c2 c3 : Cx ℝ) (a b : ℝ) (m : ℕ) (hm : 1 ≤ m) :
    (simpsonCore (polyEval [c0, c1, c2, c3]) a b (2 * m)).toC
      = cubicAnti c0.toC c1.toC c2.toC c3.toC b - cubicAnti c0.toC c1.toC c2.toC c3.toC a := by
  rw [simpsonCore_toC]
  simp only [polyEval4_toC]
  have hm0 : ((2 * m : ℕ) : ℂ) ≠ 0 := by
    have : (2 * m : ℕ) ≠ 0 := by omega
    exact_mod_cast this
  set h : ℂ := ((b : ℂ) - a) / ((2 * m : ℕ) : ℂ) with hh
  have key := simpson_telescope (cubic c0.toC c1.toC c2.toC c3.toC) (cubicAnti c0.toC c1.toC c2.toC c3.toC)
    (a : ℂ) h m hm (fun x => panel_exact_cubic _ _ _ _ x h)
  have eb : (a : ℂ) + ((2 * m : ℕ) : ℂ) * h = b := by rw [hh]; field_simp; ring
  rw [eb] at key
  rw [← key]
  congr 1
  · apply Finset.sum_congr rfl
    intro i _
    congr 2
    rw [hh]; push_cast; ring
  · rw [hh]; push_cast; ring


/-! ### accepted division counts -/

theorem simpsonDivs_ok {divs d : ℕ} (h : simpsonDivs divs = .ok d) :
    5 ≤ divs ∧ d = divs + divs % 2 - 2 ∧ ∃ m, 2 ≤ m ∧ d = 2 * m := by
  unfold simpsonDivs at h
  split_ifs at h with h1 h2
  injection h with h
  subst h
  refine ⟨by omega, rfl, (divs + divs % 2 - 2) / 2, by omega, by omega⟩

theorem simpsonDivs_isOk (divs : ℕ) : (simpsonDivs divs).isOk = true ↔ 5 ≤ divs := by
  unfold simpsonDivs
  split_ifs with h1 h2 <;> simp [Outcome.isOk] <;> omega

theorem simpson2dDivs_ok {divs d : ℕ} (h : simpson2dDivs divs = .ok d) :
    3 ≤ divs ∧ d = divs + divs % 2 ∧ ∃ m, 2 ≤ m ∧ d = 2 * m := by
  unfold simpson2dDivs at h
  split_ifs at h with h1
  injection h with h
  subst h
  refine ⟨by omega, rfl, (divs + divs % 2) / 2, by omega, by omega⟩

theorem simpson2dDivs_isOk (divs : ℕ) : (simpson2dDivs divs).isOk = true ↔ 3 ≤ divs := by
  unfold simpson2dDivs
  split_ifs with h1 <;> simp [Outcome.isOk] <;> omega

theorem map_isOk {β γ : Type} (f : β → γ) (o : Outcome β) : (o.map f).isOk = o.isOk := by
  cases o <;> rfl

theorem map_eq_ok {β γ : Type} {f : β → γ} {o : Outcome β} {v : γ} (h : o.map f = .ok v) :
    ∃ d, o = .ok d ∧ v = f d := by
  cases o with
  | ok d => exact ⟨d, rfl, by simpa [Outcome.map] using h.symm⟩
  | err e => simp [Outcome.map] at h
  | panic s => simp [Outcome.map] at h

/-! ### reversal -/

theorem simpsonCore_reverse (f : ℝ → Cx ℝ) (a b : ℝ) (m : ℕ) (hm : 1 ≤ m) :
    simpsonCore f b a (2 * m) = Cx.neg (simpsonCore f a b (2 * m)) := by
  apply Cx.toC_injective
  rw [Cx.toC_neg', simpsonCore_toC, simpsonCore_toC]
  have hm0 : ((2 * m : ℕ) : ℝ) ≠ 0 := by
    have : (2 * m : ℕ) ≠ 0 := by omega
    exact_mod_cast this
  set h : ℝ := (b - a) / ((2 * m : ℕ) : ℝ) with hh
  have hneg : (a - b) / ((2 * m : ℕ) : ℝ) = -h := by rw [hh]; field_simp; ring
  rw [hneg]
  have hb : b = a + ((2 * m : ℕ) : ℝ) * h := by rw [hh]; field_simp; ring
  have hs : ∑ i ∈ range (2 * m + 1), wK ℂ i (2 * m) * (f (b + (i : ℝ) * -h)).toC
      = ∑ i ∈ range (2 * m + 1), wK ℂ i (2 * m) * (f (a + (i : ℝ) * h)).toC := by
    rw [← Finset.sum_range_reflect (fun i => wK ℂ i (2 * m) * (f (a + (i : ℝ) * h)).toC) (2 * m + 1)]
    apply Finset.sum_congr rfl
    intro i hi
    have hi' : i ≤ 2 * m := by have := mem_range.mp hi; omega
    have e : 2 * m + 1 - 1 - i = 2 * m - i := by omega
    rw [e, wK_symm m i hi']
    congr 3
    rw [Nat.cast_sub hi']
    conv_lhs => rw [hb]
    ring
  rw [hs]
  push_cast
  ring

theorem simpson_reverse' (f : ℝ → Cx ℝ) (a b : ℝ) (divs : ℕ) :
    simpson f b a divs = (simpson f a b divs).map Cx.neg := by
  unfold simpson
  cases hd : simpsonDivs divs with
  | ok d =>
    obtain ⟨_, _, m, hm, rfl⟩ := simpsonDivs_ok hd
    simp only [Outcome.map]
    rw [simpsonCore_reverse f a b m (by omega)]
  | err e => rfl
  | panic s => rfl

/-! ### linearity -/

theorem simpsonCore_linear (f g : ℝ → Cx ℝ) (al be : Cx ℝ) (a b : ℝ) (d : ℕ) :
    simpsonCore (fun x => Cx.add (Cx.mul al (f x)) (Cx.mul be (g x))) a b d
      = Cx.add (Cx.mul al (simpsonCore f a b d)) (Cx.mul be (simpsonCore g a b d)) := by
  apply Cx.toC_injective
  simp only [Cx.toC_add', Cx.toC_mul', simpsonCore_toC]
  rw [← mul_assoc, ← mul_assoc, ← add_mul, Finset.mul_sum, Finset.mul_sum, ← Finset.sum_add_distrib]
  congr 1
  apply Finset.sum_congr rfl
  intro i _
  ring

/-- `Steps(a, b, d+1).value i = a + i·(b−a)/d` over ℝ (for `d ≥ 1`) -/
theorem stepsValue_real (a b : ℝ) (d i : ℕ) (hd : 1 ≤ d) :
    (Steps.value ⟨a, b, d + 1⟩ i : ℝ) = a + (i : ℝ) * ((b - a) / (d : ℝ)) := by
  have hd0 : (d : ℝ) ≠ 0 := by have : d ≠ 0 := by omega
                               exact_mod_cast this
  have h1 : d + 1 > 1 := by omega
  simp only [Steps.value, h1, if_true, Nat.add_sub_cancel]
  field_simp; ring

/-- the 2-D rule as nested 1-D weighted sums over the nodes `ax + i·dx`, `ay + j·dy` -/
theorem simpson2dCore_toC (f : ℝ → ℝ → Cx ℝ) (ax bx ay by_ : ℝ) (d : ℕ) (hd : 1 ≤ d) :
    (simpson2dCore f ax bx ay by_ d).toC
      = (∑ j ∈ range (d + 1), wK ℂ j d *
          ((∑ i ∈ range (d + 1), wK ℂ i d *
              (f (ax + (i : ℝ) * ((bx - ax) / (d : ℝ))) (ay + (j : ℝ) * ((by_ - ay) / (d : ℝ)))).toC)
            * ((((bx - ax) / (d : ℝ)) / 3 : ℝ) : ℂ)))
        * ((((by_ - ay) / (d : ℝ)) / 3 : ℝ) : ℂ) := by
  unfold simpson2dCore
  simp only [Cx.toC_muls, Cx.toC_sum, List.map_map, list_range_map_sum, Function.comp,
    stepsValue_real _ _ d _ hd, simpsonW_real, wK_cast]
  rw [Finset.sum_mul, Finset.sum_mul]
  apply Finset.sum_congr rfl
  intro j _
  simp only [Finset.mul_sum, Finset.sum_mul]
  apply Finset.sum_congr rfl
  intro i _
  have h9 : (9.0 : ℝ) = 9 := by norm_num
  rw [h9]; push_cast; ring

/-- separability: the 2-D rule on `g(x)·h(y)` is the product of the 1-D rules (same count) -/
theorem simpson2dCore_sep (g h : ℝ → Cx ℝ) (ax bx ay by_ : ℝ) (d : ℕ) (hd : 1 ≤ d) :
    (simpson2dCore (fun x y => Cx.mul (g x) (h y)) ax bx ay by_ d).toC
      = (simpsonCore g ax bx d).toC * (simpsonCore h ay by_ d).toC := by
  rw [simpson2dCore_toC _ _ _ _ _ _ hd, simpsonCore_toC, simpsonCore_toC]
  simp only [Cx.toC_mul']
  have inner : ∀ j : ℕ,
      ∑ i ∈ range (d + 1), wK ℂ i d * ((g (ax + (i : ℝ) * ((bx - ax) / (d : ℝ)))).toC
          * (h (ay + (j : ℝ) * ((by_ - ay) / (d : ℝ)))).toC)
        = (∑ i ∈ range (d + 1), wK ℂ i d * (g (ax + (i : ℝ) * ((bx - ax) / (d : ℝ)))).toC)
          * (h (ay + (j : ℝ) * ((by_ - ay) / (d : ℝ)))).toC := by
    intro j; rw [Finset.sum_mul]; apply Finset.sum_congr rfl; intro i _; ring
  simp only [inner]
  rw [mul_mul_mul_comm, Finset.mul_sum, Finset.sum_mul, Finset.sum_mul]
  apply Finset.sum_congr rfl
  intro j _
  ring

/-- bi-cubic integrand: rows are the coefficients of `y^j` -/
theorem poly2Eval44_toC (r0 r1 r2 r3 : Cx ℝ × Cx ℝ × Cx ℝ × Cx ℝ) (x y : ℝ) :
    (poly2Eval [[r0.1, r0.2.1, r0.2.2.1, r0.2.2.2], [r1.1, r1.2.1, r1.2.2.1, r1.2.2.2],
        [r2.1, r2.2.1, r2.2.2.1, r2.2.2.2], [r3.1, r3.2.1, r3.2.2.1, r3.2.2.2]] x y).toC
      = cubic (cubic r0.1.toC r0.2.1.toC r0.2.2.1.toC r0.2.2.2.toC x)
              (cubic r1.1.toC r1.2.1.toC r1.2.2.1.toC r1.2.2.2.toC x)
              (cubic r2.1.toC r2.2.1.toC r2.2.2.1.toC r2.2.2.2.toC x)
              (cubic r3.1.toC r3.2.1.toC r3.2.2.1.toC r3.2.2.2.toC x) y := by
  simp only [poly2Eval, List.foldr, Cx.toC_add', Cx.toC_muls, Cx.toC_zero, polyEval4_toC]
  simp only [cubic]; ring

/-- antiderivative in `x` of a bi-cubic, as a cubic in `y` -/
noncomputable def rowAnti (r : Cx ℝ × Cx ℝ × Cx ℝ × Cx ℝ) (a b : ℝ) : ℂ :=
  cubicAnti r.1.toC r.2.1.toC r.2.2.1.toC r.2.2.2.toC b - cubicAnti r.1.toC r.2.1.toC r.2.2.1.toC r.2.2.2.toC a

theorem simpson2dCore_bicubic (r0 r1 r2 r3 : Cx ℝ × Cx ℝ × Cx ℝ × Cx ℝ) (ax bx ay by_ : ℝ) (m : ℕ)
    (hm : 1 ≤ m) :
    (simpson2dCore (poly2Eval [[r0.1, r0.2.1, r0.2.2.1, r0.2.2.2], [r1.1, r1.2.1, r1.2.2.1, r1.2.2.2],
        [r2.1, r2.2.1, r2.2.2.1, r2.2.2.2], [r3.1, r3.2.1, r3.2.2.1, r3.2.2.2]]) ax bx ay by_ (2 * m)).toC
      = cubicAnti (rowAnti r0 ax bx) (rowAnti r1 ax bx) (rowAnti r2 ax bx) (rowAnti r3 ax bx) by_
        - cubicAnti (rowAnti r0 ax bx) (rowAnti r1 ax bx) (rowAnti r2 ax bx) (rowAnti r3 ax bx) ay := by
  rw [simpson2dCore_toC _ _ _ _ _ _ (by omega)]
  simp only [poly2Eval44_toC]
  have hm0 : ((2 * m : ℕ) : ℂ) ≠ 0 := by
    have : (2 * m : ℕ) ≠ 0 := by omega
    exact_mod_cast this
  set hx : ℂ := ((bx : ℂ) - ax) / ((2 * m : ℕ) : ℂ) with hhx
  set hy : ℂ := ((by_ : ℂ) - ay) / ((2 * m : ℕ) : ℂ) with hhy
  have ebx : (ax : ℂ) + ((2 * m : ℕ) : ℂ) * hx = bx := by rw [hhx]; field_simp; ring
  have eby : (ay : ℂ) + ((2 * m : ℕ) : ℂ) * hy = by_ := by rw [hhy]; field_simp; ring
  -- inner sums: exact in x for every y
  have inner : ∀ y : ℂ,
      (∑ i ∈ range (2 * m + 1), wK ℂ i (2 * m) *
        cubic (cubic r0.1.toC r0.2.1.toC r0.2.2.1.toC r0.2.2.2.toC ((ax : ℂ) + (i : ℂ) * hx))
              (cubic r1.1.toC r1.2.1.toC r1.2.2.1.toC r1.2.2.2.toC ((ax : ℂ) + (i : ℂ) * hx))
              (cubic r2.1.toC r2.2.1.toC r2.2.2.1.toC r2.2.2.2.toC ((ax : ℂ) + (i : ℂ) * hx))
              (cubic r3.1.toC r3.2.1.toC r3.2.2.1.toC r3.2.2.2.toC ((ax : ℂ) + (i : ℂ) * hx)) y) * (hx / 3)
        = cubic (rowAnti r0 ax bx) (rowAnti r1 ax bx) (rowAnti r2 ax bx) (rowAnti r3 ax bx) y := by
    intro y
    have key := simpson_telescope
      (fun x => cubic (cubic r0.1.toC r0.2.1.toC r0.2.2.1.toC r0.2.2.2.toC x)
              (cubic r1.1.toC r1.2.1.toC r1.2.2.1.toC r1.2.2.2.toC x)
              (cubic r2.1.toC r2.2.1.toC r2.2.2.1.toC r2.2.2.2.toC x)
              (cubic r3.1.toC r3.2.1.toC r3.2.2.1.toC r3.2.2.2.toC x) y)
      (fun x => cubic (cubicAnti r0.1.toC r0.2.1.toC r0.2.2.1.toC r0.2.2.2.toC x)
              (cubicAnti r1.1.toC r1.2.1.toC r1.2.2.1.toC r1.2.2.2.toC x)
              (cubicAnti r2.1.toC r2.2.1.toC r2.2.2.1.toC r2.2.2.2.toC x)
              (cubicAnti r3.1.toC r3.2.1.toC r3.2.2.1.toC r3.2.2.2.toC x) y)
      (ax : ℂ) hx m hm (fun x => by simp only [cubic, cubicAnti]; ring)
    rw [key, ebx]
    simp only [cubic, rowAnti]; ring
  have outer := simpson_telescope
    (cubic (rowAnti r0 ax bx) (rowAnti r1 ax bx) (rowAnti r2 ax bx) (rowAnti r3 ax bx))
    (cubicAnti (rowAnti r0 ax bx) (rowAnti r1 ax bx) (rowAnti r2 ax bx) (rowAnti r3 ax bx))
    (ay : ℂ) hy m hm (fun y => panel_exact_cubic _ _ _ _ y hy)
  rw [eby] at outer
  have hnx : ∀ i : ℕ, ((ax + (i : ℝ) * ((bx - ax) / ((2 * m : ℕ) : ℝ)) : ℝ) : ℂ) = (ax : ℂ) + (i : ℂ) * hx := by
    intro i; rw [hhx]; push_cast; ring
  have hny : ∀ j : ℕ, ((ay + (j : ℝ) * ((by_ - ay) / ((2 * m : ℕ) : ℝ)) : ℝ) : ℂ) = (ay : ℂ) + (j : ℂ) * hy := by
    intro j; rw [hhy]; push_cast; ring
  have hfx : ((((bx - ax) / ((2 * m : ℕ) : ℝ)) / 3 : ℝ) : ℂ) = hx / 3 := by rw [hhx]; push_cast; ring
  have hfy : ((((by_ - ay) / ((2 * m : ℕ) : ℝ)) / 3 : ℝ) : ℂ) = hy / 3 := by rw [hhy]; push_cast; ring
  simp only [hnx, hny, hfx, hfy, inner]
  exact outer

/-! ### adaptive Simpson -/

theorem mem_fst (f : ℝ → Cx ℝ) (a : ℝ) (fa : Cx ℝ) (b : ℝ) (fb : Cx ℝ) :
    (quadSimpsonsMem f a fa b fb).1 = (a + b) / 2 ∧ (quadSimpsonsMem f a fa b fb).2.1 = f ((a + b) / 2) := by
  simp [quadSimpsonsMem, lit_two]

theorem mem_val_toC (f : ℝ → Cx ℝ) (a : ℝ) (fa : Cx ℝ) (b : ℝ) (fb : Cx ℝ) :
    (quadSimpsonsMem f a fa b fb).2.2.toC
      = (((b - a) / 6 : ℝ) : ℂ) * (fa.toC + 4 * (f ((a + b) / 2)).toC + fb.toC) := by
  have h6 : (6.0 : ℝ) = 6 := by norm_num
  simp [quadSimpsonsMem, lit_two, lit_four, h6]

/-- one three-point Simpson value on a cubic is exact -/
theorem mem_cubic (c0 c1 c2 c3 : Cx ℝ) (a b : ℝ) :
    (quadSimpsonsMem (polyEval [c0, c1, c2, c3]) a (polyEval [c0, c1, c2, c3] a) b
        (polyEval [c0, c1, c2, c3] b)).2.2.toC
      = cubicAnti c0.toC c1.toC c2.toC c3.toC b - cubicAnti c0.toC c1.toC c2.toC c3.toC a := by
  rw [mem_val_toC]
  simp only [polyEval4_toC, cubic, cubicAnti]
  push_cast; ring

theorem Cx.abs_zero_of_toC {z : Cx ℝ} (h : z.toC = 0) : Cx.abs z = 0 := by
  rw [Cx.abs_eq, h, norm_zero]

/-- **asr_exact_cubic**: on a cubic, `quad_asr` returns the exact integral from every state that
carries exact endpoint/midpoint values and an exact `whole` — for every tolerance and every fuel. -/
theorem quadAsr_cubic (c0 c1 c2 c3 : Cx ℝ) (depth : ℕ) :
    ∀ (a b eps : ℝ) (whole : Cx ℝ),
      whole.toC = cubicAnti c0.toC c1.toC c2.toC c3.toC b - cubicAnti c0.toC c1.toC c2.toC c3.toC a →
      (quadAsr (polyEval [c0, c1, c2, c3]) a (polyEval [c0, c1, c2, c3] a) b (polyEval [c0, c1, c2, c3] b)
          eps whole ((a + b) / 2) (polyEval [c0, c1, c2, c3] ((a + b) / 2)) depth).toC
        = cubicAnti c0.toC c1.toC c2.toC c3.toC b - cubicAnti c0.toC c1.toC c2.toC c3.toC a := by
  induction depth with
  | zero => intro a b eps whole hw; simpa [quadAsr] using hw
  | succ d ih =>
    intro a b eps whole hw
    set f := polyEval [c0, c1, c2, c3] with hf
    unfold quadAsr
    have hl := mem_cubic c0 c1 c2 c3 a ((a + b) / 2)
    have hr := mem_cubic c0 c1 c2 c3 ((a + b) / 2) b
    rw [← hf] at hl hr
    split_ifs with hstop
    · exact hw
    · dsimp only
      split_ifs with hacc
      · -- subdivided: induction hypothesis on both halves
        obtain ⟨hl1, hl2⟩ := mem_fst f a (f a) ((a + b) / 2) (f ((a + b) / 2))
        obtain ⟨hr1, hr2⟩ := mem_fst f ((a + b) / 2) (f ((a + b) / 2)) b (f b)
        rw [Cx.toC_add', hl1, hl2, hr1, hr2]
        rw [ih a ((a + b) / 2) _ _ hl, ih ((a + b) / 2) b _ _ hr]
        ring
      · -- accepted: left + right + delta/15
        have h15 : (15.0 : ℝ) = 15 := by norm_num
        simp only [Cx.toC_add', Cx.toC_sub', Cx.toC_divs]
        rw [hl, hr, hw, h15]; push_cast; ring

theorem simpsonAdaptive_cubic (c0 c1 c2 c3 : Cx ℝ) (a b eps : ℝ) (depth : ℕ) :
    (simpsonAdaptive (polyEval [c0, c1, c2, c3]) a b eps depth).toC
      = cubicAnti c0.toC c1.toC c2.toC c3.toC b - cubicAnti c0.toC c1.toC c2.toC c3.toC a := by
  unfold simpsonAdaptive
  obtain ⟨h1, h2⟩ := mem_fst (polyEval [c0, c1, c2, c3]) a (polyEval [c0, c1, c2, c3] a) b
    (polyEval [c0, c1, c2, c3] b)
  simp only [h1, h2]
  exact quadAsr_cubic c0 c1 c2 c3 depth a b eps _ (mem_cubic c0 c1 c2 c3 a b)

/-! ### evaluations (termination within the fuel) -/

theorem quadAsrEvals_le (f : ℝ → Cx ℝ) (depth : ℕ) :
    ∀ (a : ℝ) (fa : Cx ℝ) (b : ℝ) (fb : Cx ℝ) (eps : ℝ) (whole : Cx ℝ) (m : ℝ) (fm : Cx ℝ),
      quadAsrEvals f a fa b fb eps whole m fm depth + 2 ≤ 2 ^ (depth + 1) := by
  induction depth with
  | zero => intro a fa b fb eps whole m fm; simp [quadAsrEvals]
  | succ d ih =>
    intro a fa b fb eps whole m fm
    unfold quadAsrEvals
    have hp : 2 ^ (d + 1 + 1) = 2 * 2 ^ (d + 1) := by ring
    have h4 : 4 ≤ 2 * 2 ^ (d + 1) := by
      have : 1 ≤ 2 ^ d := Nat.one_le_two_pow
      have : 2 ^ (d + 1) = 2 * 2 ^ d := by ring
      omega
    split_ifs with hstop
    · omega
    dsimp only
    split_ifs with hacc
    · have h1 := ih a fa m fm (eps / 2.0) (quadSimpsonsMem f a fa m fm).2.2
        (quadSimpsonsMem f a fa m fm).1 (quadSimpsonsMem f a fa m fm).2.1
      have h2 := ih m fm b fb (eps / 2.0) (quadSimpsonsMem f m fm b fb).2.2
        (quadSimpsonsMem f m fm b fb).1 (quadSimpsonsMem f m fm b fb).2.1
      omega
    · omega

theorem simpsonAdaptiveEvals_le (f : ℝ → Cx ℝ) (a b eps : ℝ) (depth : ℕ) :
    simpsonAdaptiveEvals f a b eps depth ≤ 2 ^ (depth + 1) + 1 := by
  unfold simpsonAdaptiveEvals
  have := quadAsrEvals_le f depth a (f a) b (f b) eps (quadSimpsonsMem f a (f a) b (f b)).2.2
    (quadSimpsonsMem f a (f a) b (f b)).1 (quadSimpsonsMem f a (f a) b (f b)).2.1
  simp only at this ⊢
  omega

theorem Cx.ext' {z w : Cx ℝ} (h1 : z.re = w.re) (h2 : z.im = w.im) : z = w := by
  cases z; cases w; simp_all

theorem asrStop_symm (a b eps : ℝ) : asrStop b a eps = asrStop a b eps := by
  simp only [asrStop, Transc.abs, abs_sub_comm]

theorem mem_rev (f : ℝ → Cx ℝ) (a : ℝ) (fa : Cx ℝ) (b : ℝ) (fb : Cx ℝ) :
    quadSimpsonsMem f b fb a fa
      = ((quadSimpsonsMem f a fa b fb).1, (quadSimpsonsMem f a fa b fb).2.1,
          Cx.neg (quadSimpsonsMem f a fa b fb).2.2) := by
  have hm : (b + a) / (2.0 : ℝ) = (a + b) / (2.0 : ℝ) := by rw [add_comm]
  simp only [quadSimpsonsMem, hm]
  refine Prod.ext rfl (Prod.ext rfl ?_)
  have h6 : (6.0 : ℝ) = 6 := by norm_num
  apply Cx.ext' <;> simp only [Cx.smul, Cx.add, Cx.neg, h6, lit_four] <;> ring

theorem Cx.abs_neg' (z : Cx ℝ) : Cx.abs (Cx.neg z) = Cx.abs z := by
  simp [Cx.abs, Cx.normSq, Cx.neg]

/-- **asr_reverse**: `quad_asr` on the reversed interval (with the negated `whole`) returns the
negated value -/
theorem quadAsr_reverse (f : ℝ → Cx ℝ) (depth : ℕ) :
    ∀ (a : ℝ) (fa : Cx ℝ) (b : ℝ) (fb : Cx ℝ) (eps : ℝ) (whole : Cx ℝ) (m : ℝ) (fm : Cx ℝ),
      quadAsr f b fb a fa eps (Cx.neg whole) m fm depth
        = Cx.neg (quadAsr f a fa b fb eps whole m fm depth) := by
  induction depth with
  | zero => intro a fa b fb eps whole m fm; rfl
  | succ d ih =>
    intro a fa b fb eps whole m fm
    unfold quadAsr
    rw [asrStop_symm]
    split_ifs with hstop
    · rfl
    · dsimp only
      rw [mem_rev f m fm b fb, mem_rev f a fa m fm]
      dsimp only
      set L := quadSimpsonsMem f a fa m fm
      set R := quadSimpsonsMem f m fm b fb
      have hdelta : Cx.sub (Cx.add (Cx.neg R.2.2) (Cx.neg L.2.2)) (Cx.neg whole)
          = Cx.neg (Cx.sub (Cx.add L.2.2 R.2.2) whole) := by
        apply Cx.ext' <;> simp only [Cx.sub, Cx.add, Cx.neg] <;> ring
      rw [hdelta, Cx.abs_neg']
      split_ifs with hacc
      · rw [ih m fm b fb, ih a fa m fm]
        apply Cx.ext' <;> simp only [Cx.add, Cx.neg] <;> ring
      · have h15 : (15.0 : ℝ) = 15 := by norm_num
        apply Cx.ext' <;> simp only [Cx.sub, Cx.add, Cx.neg, Cx.divs, h15] <;> ring

theorem simpsonAdaptive_reverse (f : ℝ → Cx ℝ) (a b eps : ℝ) (depth : ℕ) :
    simpsonAdaptive f b a eps depth = Cx.neg (simpsonAdaptive f a b eps depth) := by
  unfold simpsonAdaptive
  dsimp only
  rw [mem_rev f a (f a) b (f b)]
  exact quadAsr_reverse f depth a (f a) b (f b) eps _ _ _

theorem Cx.abs_mul' (c z : Cx ℝ) : Cx.abs (Cx.mul c z) = Cx.abs c * Cx.abs z := by
  rw [Cx.abs_eq, Cx.abs_eq, Cx.abs_eq, Cx.toC_mul', norm_mul]

theorem asrStop_scale (a b eps s : ℝ) (hs : 0 < s) : asrStop a b (s * eps) = asrStop a b eps := by
  simp only [asrStop, lit_two]
  have h1 : s * eps / 2 < s * eps ↔ eps / 2 < eps := by
    rw [mul_div_assoc]; exact mul_lt_mul_iff_right₀ hs
  have h2 : s * eps < s * eps / 2 ↔ eps < eps / 2 := by
    rw [mul_div_assoc]; exact mul_lt_mul_iff_right₀ hs
  simp only [h1, h2]

theorem mem_scale (f : ℝ → Cx ℝ) (c : Cx ℝ) (a : ℝ) (fa : Cx ℝ) (b : ℝ) (fb : Cx ℝ) :
    quadSimpsonsMem (fun x => Cx.mul c (f x)) a (Cx.mul c fa) b (Cx.mul c fb)
      = ((quadSimpsonsMem f a fa b fb).1, Cx.mul c (quadSimpsonsMem f a fa b fb).2.1,
          Cx.mul c (quadSimpsonsMem f a fa b fb).2.2) := by
  have h6 : (6.0 : ℝ) = 6 := by norm_num
  simp only [quadSimpsonsMem]
  refine Prod.ext rfl (Prod.ext rfl ?_)
  apply Cx.ext' <;> simp only [Cx.smul, Cx.add, Cx.mul, h6, lit_four] <;> ring

/-- **asr_homogeneous**: scaling the integrand by a non-zero complex constant `c` and the tolerance
by `|c|` scales the result by `c` (same subdivision tree) -/
theorem quadAsr_scale (f : ℝ → Cx ℝ) (c : Cx ℝ) (hc : 0 < Cx.abs c) (depth : ℕ) :
    ∀ (a : ℝ) (fa : Cx ℝ) (b : ℝ) (fb : Cx ℝ) (eps : ℝ) (whole : Cx ℝ) (m : ℝ) (fm : Cx ℝ),
      quadAsr (fun x => Cx.mul c (f x)) a (Cx.mul c fa) b (Cx.mul c fb) (Cx.abs c * eps)
          (Cx.mul c whole) m (Cx.mul c fm) depth
        = Cx.mul c (quadAsr f a fa b fb eps whole m fm depth) := by
  induction depth with
  | zero => intro a fa b fb eps whole m fm; rfl
  | succ d ih =>
    intro a fa b fb eps whole m fm
    unfold quadAsr
    rw [asrStop_scale a b eps _ hc]
    split_ifs with hstop
    · rfl
    · dsimp only
      rw [mem_scale f c a fa m fm, mem_scale f c m fm b fb]
      dsimp only
      set L := quadSimpsonsMem f a fa m fm
      set R := quadSimpsonsMem f m fm b fb
      have hdelta : Cx.sub (Cx.add (Cx.mul c L.2.2) (Cx.mul c R.2.2)) (Cx.mul c whole)
          = Cx.mul c (Cx.sub (Cx.add L.2.2 R.2.2) whole) := by
        apply Cx.ext' <;> simp only [Cx.sub, Cx.add, Cx.mul] <;> ring
      have h15 : (15.0 : ℝ) = 15 := by norm_num
      rw [hdelta, Cx.abs_mul']
      simp only [h15]
      have hcond : (15 : ℝ) * (Cx.abs c * eps) < Cx.abs c * Cx.abs (Cx.sub (Cx.add L.2.2 R.2.2) whole)
          ↔ (15 : ℝ) * eps < Cx.abs (Cx.sub (Cx.add L.2.2 R.2.2) whole) := by
        rw [show (15 : ℝ) * (Cx.abs c * eps) = Cx.abs c * ((15 : ℝ) * eps) by ring]
        exact mul_lt_mul_iff_right₀ hc
      simp only [hcond]
      have heps : Cx.abs c * eps / (2.0 : ℝ) = Cx.abs c * (eps / (2.0 : ℝ)) := mul_div_assoc _ _ _
      split_ifs with hacc
      · rw [heps, ih a fa m fm, ih m fm b fb]
        apply Cx.ext' <;> simp only [Cx.add, Cx.mul] <;> ring
      · apply Cx.ext' <;> simp only [Cx.sub, Cx.add, Cx.mul, Cx.divs] <;> ring

theorem simpsonAdaptive_scale (f : ℝ → Cx ℝ) (c : Cx ℝ) (hc : 0 < Cx.abs c) (a b eps : ℝ) (depth : ℕ) :
    simpsonAdaptive (fun x => Cx.mul c (f x)) a b (Cx.abs c * eps) depth
      = Cx.mul c (simpsonAdaptive f a b eps depth) := by
  unfold simpsonAdaptive
  dsimp only
  rw [mem_scale f c a (f a) b (f b)]
  exact quadAsr_scale f c hc depth a (f a) b (f b) eps _ _ _

end Spdc.Quad
