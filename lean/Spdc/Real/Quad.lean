import Spdc.Model.Quad
import Spdc.Real.Inst
import Mathlib.Algebra.BigOperators.Intervals
import Mathlib.Tactic.Ring
import Mathlib.Tactic.Linarith
import Mathlib.Tactic.FieldSimp
import Mathlib.Tactic.NormNum
/-!
# Helper lemmas for C12 (quadrature) over ℝ / ℂ
-/
open Finset
namespace Spdc.Quad
open Spdc

theorem list_range_map_sum {M : Type} [AddCommMonoid M] (g : ℕ → M) (n : ℕ) :
    ((List.range n).map g).sum = ∑ i ∈ range n, g i := by
  induction n with
  | zero => simp
  | succ n ih => rw [List.range_succ, List.map_append, List.sum_append, ih, Finset.sum_range_succ]; simp

/-- Simpson weight in any commutative ring -/
def wK (K : Type) [CommRing K] (i n : ℕ) : K :=
  if i = 0 ∨ i = n then 1 else if i % 2 = 1 then 4 else 2

theorem simpsonW_real (i d : ℕ) : (simpsonW i d : ℝ) = wK ℝ i d := by
  unfold simpsonW wK; split_ifs <;> norm_num

theorem wK_cast (i d : ℕ) : ((wK ℝ i d : ℝ) : ℂ) = wK ℂ i d := by
  unfold wK; split_ifs <;> norm_num

/-- for even `n` the weights are symmetric -/
theorem wK_symm {K : Type} [CommRing K] (m i : ℕ) (hi : i ≤ 2 * m) :
    wK K (2 * m - i) (2 * m) = wK K i (2 * m) := by
  unfold wK
  have h1 : (2 * m - i = 0 ∨ 2 * m - i = 2 * m) ↔ (i = 0 ∨ i = 2 * m) := by omega
  have h2 : (2 * m - i) % 2 = 1 ↔ i % 2 = 1 := by omega
  simp only [h1, h2]

/-- the 1-4-2-…-4-1 sum over `2m` sub-intervals is the sum over `m` panels of `F₀ + 4F₁ + F₂` -/
theorem weighted_eq_panels {K : Type} [CommRing K] (F : ℕ → K) (m : ℕ) (hm : 1 ≤ m) :
    ∑ i ∈ range (2 * m + 1), wK K i (2 * m) * F i
      = ∑ j ∈ range m, (F (2 * j) + 4 * F (2 * j + 1) + F (2 * j + 2)) := by
  induction m, hm using Nat.le_induction with
  | base => simp [wK, sum_range_succ]
  | succ m hm ih =>
    rw [sum_range_succ (n := m), ← ih]
    have e : 2 * (m + 1) + 1 = (2 * m + 1) + 2 := by ring
    rw [e, sum_range_succ, sum_range_succ, sum_range_succ (n := 2 * m)]
    have hcongr : ∑ i ∈ range (2 * m), wK K i (2 * (m + 1)) * F i
        = ∑ i ∈ range (2 * m), wK K i (2 * m) * F i := by
      apply sum_congr rfl
      intro i hi
      have hi' : i < 2 * m := mem_range.mp hi
      have h1 : i ≠ 2 * (m + 1) := by omega
      have h2 : i ≠ 2 * m := by omega
      simp [wK, h1, h2]
    rw [hcongr]
    have w1 : wK K (2 * m) (2 * (m + 1)) = 2 := by
      have : 2 * m ≠ 0 := by omega
      have h2 : 2 * m ≠ 2 * (m + 1) := by omega
      simp [wK, this, h2]
    have w2 : wK K (2 * m + 1) (2 * (m + 1)) = 4 := by
      have h2 : 2 * m + 1 ≠ 2 * (m + 1) := by omega
      simp [wK, h2]
    have w3 : wK K (2 * m + 1 + 1) (2 * (m + 1)) = 1 := by
      have : 2 * m + 1 + 1 = 2 * (m + 1) := by ring
      simp [wK, this]
    have w0 : wK K (2 * m) (2 * m) = 1 := by simp [wK]
    rw [w1, w2, w3]
    rw [sum_range_succ (fun i => wK K i (2 * m) * F i) (2 * m), w0]
    have c1 : 2 * m + 1 + 1 = 2 * m + 2 := by ring
    rw [c1]
    ring

/-- the model's weighted node sum as a `Finset` sum in ℂ -/
theorem simpsonSum_toC (f : ℝ → Cx ℝ) (a dx : ℝ) (d : ℕ) :
    (simpsonSum f a dx d).toC
      = ∑ i ∈ range (d + 1), wK ℂ i d * (f (a + (i : ℝ) * dx)).toC := by
  unfold simpsonSum
  rw [Cx.toC_sum, List.map_map, list_range_map_sum]
  apply Finset.sum_congr rfl
  intro i _
  simp [Function.comp, simpsonW_real, wK_cast, mul_comm]

theorem simpsonCore_toC (f : ℝ → Cx ℝ) (a b : ℝ) (d : ℕ) :
    (simpsonCore f a b d).toC
      = (∑ i ∈ range (d + 1), wK ℂ i d * (f (a + (i : ℝ) * ((b - a) / (d : ℝ)))).toC)
          * ((((b - a) / (d : ℝ)) / 3 : ℝ) : ℂ) := by
  unfold simpsonCore
  simp only [Cx.toC_muls, simpsonSum_toC, lit_three]


/-- complex cubic and its antiderivative -/
def cubic (c0 c1 c2 c3 x : ℂ) : ℂ := c0 + c1 * x + c2 * x ^ 2 + c3 * x ^ 3
noncomputable def cubicAnti (c0 c1 c2 c3 x : ℂ) : ℂ := c0 * x + c1 * x ^ 2 / 2 + c2 * x ^ 3 / 3 + c3 * x ^ 4 / 4

theorem polyEval4_toC (c0 c1 c2 c3 : Cx ℝ) (x : ℝ) :
    (polyEval [c0, c1, c2, c3] x).toC = cubic c0.toC c1.toC c2.toC c3.toC x := by
  simp only [polyEval, List.foldr, Cx.toC_add', Cx.toC_muls, Cx.toC_zero, cubic]
  ring

theorem panel_exact_cubic (c0 c1 c2 c3 x h : ℂ) :
    (cubic c0 c1 c2 c3 x + 4 * cubic c0 c1 c2 c3 (x + h) + cubic c0 c1 c2 c3 (x + 2 * h)) * (h / 3)
      = cubicAnti c0 c1 c2 c3 (x + 2 * h) - cubicAnti c0 c1 c2 c3 x := by
  simp only [cubic, cubicAnti]; ring

/-- the rule with `2m` sub-intervals applied to values `p (a + i·h)` of a function with the panel
property telescopes -/
theorem simpson_telescope (p P : ℂ → ℂ) (a h : ℂ) (m : ℕ) (hm : 1 ≤ m)
    (hp : ∀ x, (p x + 4 * p (x + h) + p (x + 2 * h)) * (h / 3) = P (x + 2 * h) - P x) :
    (∑ i ∈ range (2 * m + 1), wK ℂ i (2 * m) * p (a + (i : ℂ) * h)) * (h / 3)
      = P (a + (2 * m : ℕ) * h) - P a := by
  rw [weighted_eq_panels (fun i => p (a + (i : ℂ) * h)) m hm, Finset.sum_mul]
  have : ∀ j ∈ range m, (p (a + ((2 * j : ℕ) : ℂ) * h) + 4 * p (a + ((2 * j + 1 : ℕ) : ℂ) * h)
      + p (a + ((2 * j + 2 : ℕ) : ℂ) * h)) * (h / 3)
      = P (a + ((2 * (j + 1) : ℕ) : ℂ) * h) - P (a + ((2 * j : ℕ) : ℂ) * h) := by
    intro j _
    have := hp (a + ((2 * j : ℕ) : ℂ) * h)
    have e1 : a + ((2 * j + 1 : ℕ) : ℂ) * h = a + ((2 * j : ℕ) : ℂ) * h + h := by push_cast; ring
    have e2 : a + ((2 * j + 2 : ℕ) : ℂ) * h = a + ((2 * j : ℕ) : ℂ) * h + 2 * h := by push_cast; ring
    have e3 : a + ((2 * (j + 1) : ℕ) : ℂ) * h = a + ((2 * j : ℕ) : ℂ) * h + 2 * h := by push_cast; ring
    rw [e1, e2, e3]; exact this
  rw [Finset.sum_congr rfl this]
  rw [Finset.sum_range_sub (fun j => P (a + ((2 * j : ℕ) : ℂ) * h))]; simp

theorem simpsonCore_cubic (c0 c1 c2 c3 : Cx ℝ) (a b : ℝ) (m : ℕ) (hm : 1 ≤ m) :
    (simpsonCore (polyEval [c0, c1, c2, c3]) a b (2 * m)).toC
      = cubicAnti c0.toC c1.toC c2.toC c3.toC b - cubicAnti c0.toC c1.toC c2.toC c3.toC a := by
  rw [simpsonCore_toC]
  simp only [polyEval4_toC]
  have hm0 : ((2 * m : ℕ) : ℂ) ≠ 0 := by
    have : (2 * m : ℕ) ≠ 0 := by omega
    exact_mod_cast this
  set h : ℂ := ((b : ℂ) - a) / ((2 * m : ℕ) : ℂ) with hh
  have key := simpson_telescope (cubic c0.toC c1.toC c2.toC c3.toC) (cubicAnti c0.toC c1.toC c2.toC c3.toC)
    (a : ℂ) h m hm (fun x => panel_exact_cubic _ _ _ _ x h)
  have eb : (a : ℂ) + ((2 * m : ℕ) : ℂ) * h = b := by rw [hh]; field_simp; ring
  rw [eb] at key
  rw [← key]
  congr 1
  · apply Finset.sum_congr rfl
    intro i _
    congr 2
    rw [hh]; push_cast; ring
  · rw [hh]; push_cast; ring


/-! ### accepted division counts -/

theorem simpsonDivs_ok {divs d : ℕ} (h : simpsonDivs divs = .ok d) :
    5 ≤ divs ∧ d = divs + divs % 2 - 2 ∧ ∃ m, 2 ≤ m ∧ d = 2 * m := by
  unfold simpsonDivs at h
  split_ifs at h with h1 h2
  injection h with h
  subst h
  refine ⟨by omega, rfl, (divs + divs % 2 - 2) / 2, by omega, by omega⟩

theorem simpsonDivs_isOk (divs : ℕ) : (simpsonDivs divs).isOk = true ↔ 5 ≤ divs := by
  unfold simpsonDivs
  split_ifs with h1 h2 <;> simp [Outcome.isOk] <;> omega

theorem simpson2dDivs_ok {divs d : ℕ} (h : simpson2dDivs divs = .ok d) :
    3 ≤ divs ∧ d = divs + divs % 2 ∧ ∃ m, 2 ≤ m ∧ d = 2 * m := by
  unfold simpson2dDivs at h
  split_ifs at h with h1
  injection h with h
  subst h
  refine ⟨by omega, rfl, (divs + divs % 2) / 2, by omega, by omega⟩

theorem simpson2dDivs_isOk (divs : ℕ) : (simpson2dDivs divs).isOk = true ↔ 3 ≤ divs := by
  unfold simpson2dDivs
  split_ifs with h1 <;> simp [Outcome.isOk] <;> omega

theorem map_isOk {β γ : Type} (f : β → γ) (o : Outcome β) : (o.map f).isOk = o.isOk := by
  cases o <;> rfl

theorem map_eq_ok {β γ : Type} {f : β → γ} {o : Outcome β} {v : γ} (h : o.map f = .ok v) :
    ∃ d, o = .ok d ∧ v = f d := by
  cases o with
  | ok d => exact ⟨d, rfl, by simpa [Outcome.map] using h.symm⟩
  | err e => simp [Outcome.map] at h
  | panic s => simp [Outcome.map] at h

/-! ### reversal -/

theorem simpsonCore_reverse (f : ℝ → Cx ℝ) (a b : ℝ) (m : ℕ) (hm : 1 ≤ m) :
    simpsonCore f b a (2 * m) = Cx.neg (simpsonCore f a b (2 * m)) := by
  apply Cx.toC_injective
  rw [Cx.toC_neg', simpsonCore_toC, simpsonCore_toC]
  have hm0 : ((2 * m : ℕ) : ℝ) ≠ 0 := by
    have : (2 * m : ℕ) ≠ 0 := by omega
    exact_mod_cast this
  set h : ℝ := (b - a) / ((2 * m : ℕ) : ℝ) with hh
  have hneg : (a - b) / ((2 * m : ℕ) : ℝ) = -h := by rw [hh]; field_simp; ring
  rw [hneg]
  have hb : b = a + ((2 * m : ℕ) : ℝ) * h := by rw [hh]; field_simp; ring
  have hs : ∑ i ∈ range (2 * m + 1), wK ℂ i (2 * m) * (f (b + (i : ℝ) * -h)).toC
      = ∑ i ∈ range (2 * m + 1), wK ℂ i (2 * m) * (f (a + (i : ℝ) * h)).toC := by
    rw [← Finset.sum_range_reflect (fun i => wK ℂ i (2 * m) * (f (a + (i : ℝ) * h)).toC) (2 * m + 1)]
    apply Finset.sum_congr rfl
    intro i hi
    have hi' : i ≤ 2 * m := by have := mem_range.mp hi; omega
    have e : 2 * m + 1 - 1 - i = 2 * m - i := by omega
    rw [e, wK_symm m i hi']
    congr 3
    rw [Nat.cast_sub hi']
    conv_lhs => rw [hb]
    ring
  rw [hs]
  push_cast
  ring

theorem simpson_reverse' (f : ℝ → Cx ℝ) (a b : ℝ) (divs : ℕ) :
    simpson f b a divs = (simpson f a b divs).map Cx.neg := by
  unfold simpson
  cases hd : simpsonDivs divs with
  | ok d =>
    obtain ⟨_, _, m, hm, rfl⟩ := simpsonDivs_ok hd
    simp only [Outcome.map]
    rw [simpsonCore_reverse f a b m (by omega)]
  | err e => rfl
  | panic s => rfl

/-! ### linearity -/

theorem simpsonCore_linear (f g : ℝ → Cx ℝ) (al be : Cx ℝ) (a b : ℝ) (d : ℕ) :
    simpsonCore (fun x => Cx.add (Cx.mul al (f x)) (Cx.mul be (g x))) a b d
      = Cx.add (Cx.mul al (simpsonCore f a b d)) (Cx.mul be (simpsonCore g a b d)) := by
  apply Cx.toC_injective
  simp only [Cx.toC_add', Cx.toC_mul', simpsonCore_toC]
  rw [← mul_assoc, ← mul_assoc, ← add_mul, Finset.mul_sum, Finset.mul_sum, ← Finset.sum_add_distrib]
  congr 1
  apply Finset.sum_congr rfl
  intro i _
  ring

end Spdc.Quad
