import Spdc.Model.Hom
import Spdc.Real.Inst
import Mathlib.Algebra.BigOperators.Group.Finset.Basic
import Mathlib.Algebra.Order.BigOperators.Group.Finset
import Mathlib.Analysis.SpecialFunctions.Complex.Circle
import Mathlib.Tactic
/-!
# Helper lemmas for C09 / C10 — the HOM model at the ℝ instance

Bridges from the executable model (`sumList`, `List.range`, flat `Array`s) to `Finset` sums over ℂ.
-/
namespace Spdc.HomLemmas
open Spdc Spdc.Grid Spdc.Hom Finset

theorem sumList_map_range (n : ℕ) (t : ℕ → ℝ) :
    sumList ((List.range n).map t) = ∑ k ∈ Finset.range n, t k := by
  rw [sumList_eq]
  induction n with
  | zero => simp
  | succ n ih => rw [List.range_succ, List.map_append, List.sum_append, ih, Finset.sum_range_succ]; simp

theorem list_sum_map_getD {β : Type} (l : List β) (d : β) (h : β → ℝ) :
    (l.map h).sum = ∑ k ∈ Finset.range l.length, h (l.getD k d) := by
  induction l with
  | nil => simp
  | cons a l ih =>
    rw [List.length_cons, Finset.sum_range_succ', List.map_cons, List.sum_cons, ih]
    simp [add_comm]

theorem jsiNorm_eq (f : Array (Cx ℝ)) :
    jsiNorm f = ∑ k ∈ Finset.range f.size, Complex.normSq (at' f k).toC := by
  unfold jsiNorm
  rw [sumList_eq, list_sum_map_getD _ Cx.zero]
  simp [at']

/-- the summand in ℂ -/
theorem homTerm_eq (grid : Steps2D ℝ) (f g : Array (Cx ℝ)) (τ : ℝ) (k : ℕ) :
    homTerm grid f g τ k =
      ((starRingEnd ℂ) (at' f k).toC * (at' g k).toC *
        Complex.exp (((deltaW grid k * τ : ℝ) : ℂ) * Complex.I)).re := by
  unfold homTerm
  simp only [Cx.fromPolar, lit_one, one_mul, div_one]
  have : (⟨Transc.cos (deltaW grid k * τ), Transc.sin (deltaW grid k * τ)⟩ : Cx ℝ) = Cx.cis (deltaW grid k * τ) := rfl
  rw [this, ← Cx.toC_re, Cx.toC_mul', Cx.toC_mul', Cx.toC_conj, Cx.toC_cis]

theorem swapIdx_lt {n k : ℕ} (hk : k < n * n) : swapIdx n k < n * n := by
  have hn : 0 < n := by
    rcases Nat.eq_zero_or_pos n with h | h
    · subst h; simp at hk
    · exact h
  unfold swapIdx
  have h1 : k % n < n := Nat.mod_lt _ hn
  have h2 : k / n < n := Nat.div_lt_of_lt_mul hk
  nlinarith

theorem swapIdx_mod {n k : ℕ} (hk : k < n * n) : swapIdx n k % n = k / n := by
  unfold swapIdx
  have h2 : k / n < n := Nat.div_lt_of_lt_mul hk
  rw [Nat.mul_comm, Nat.mul_add_mod, Nat.mod_eq_of_lt h2]

theorem swapIdx_div {n k : ℕ} (hk : k < n * n) : swapIdx n k / n = k % n := by
  have hn : 0 < n := by
    rcases Nat.eq_zero_or_pos n with h | h
    · subst h; simp at hk
    · exact h
  unfold swapIdx
  have h2 : k / n < n := Nat.div_lt_of_lt_mul hk
  rw [Nat.mul_comm, Nat.mul_add_div hn, Nat.div_eq_of_lt h2, Nat.add_zero]

theorem swapIdx_invol {n k : ℕ} (hk : k < n * n) : swapIdx n (swapIdx n k) = k := by
  show swapIdx n k % n * n + swapIdx n k / n = k
  rw [swapIdx_mod hk, swapIdx_div hk]
  exact Nat.div_add_mod' k n


theorem at_swapArr {n : ℕ} (f : Array (Cx ℝ)) {k : ℕ} (hk : k < n * n) :
    at' (swapArr n f) k = at' f (swapIdx n k) := by
  simp [at', swapArr, hk]

theorem size_swapArr (n : ℕ) (f : Array (Cx ℝ)) : (swapArr n f).size = n * n := by
  simp [swapArr]

/-- reindexing a sum over the flat index range by the swap permutation -/
theorem sum_swapIdx (n : ℕ) (h : ℕ → ℝ) :
    ∑ k ∈ Finset.range (n * n), h (swapIdx n k) = ∑ k ∈ Finset.range (n * n), h k := by
  apply Finset.sum_nbij' (swapIdx n) (swapIdx n)
  · intro k hk; exact Finset.mem_range.mpr (swapIdx_lt (Finset.mem_range.mp hk))
  · intro k hk; exact Finset.mem_range.mpr (swapIdx_lt (Finset.mem_range.mp hk))
  · intro k hk; exact swapIdx_invol (Finset.mem_range.mp hk)
  · intro k hk; exact swapIdx_invol (Finset.mem_range.mp hk)
  · intro k _; rfl

theorem homInterf_eq (grid : Steps2D ℝ) (f g : Array (Cx ℝ)) (τ : ℝ) :
    homInterf grid f g τ = ∑ k ∈ Finset.range grid.len, homTerm grid f g τ k := by
  unfold homInterf; exact sumList_map_range _ _

theorem abs_term_le (a b : ℂ) (θ : ℝ) :
    |((starRingEnd ℂ) a * b * Complex.exp ((θ : ℂ) * Complex.I)).re| ≤
      (Complex.normSq a + Complex.normSq b) / 2 := by
  have h1 := Complex.abs_re_le_norm ((starRingEnd ℂ) a * b * Complex.exp ((θ : ℂ) * Complex.I))
  have h2 : ‖(starRingEnd ℂ) a * b * Complex.exp ((θ : ℂ) * Complex.I)‖ = ‖a‖ * ‖b‖ := by
    rw [norm_mul, norm_mul, Complex.norm_exp_ofReal_mul_I, mul_one, RCLike.norm_conj]
  rw [h2] at h1
  have h3 : ‖a‖ * ‖b‖ ≤ (‖a‖ ^ 2 + ‖b‖ ^ 2) / 2 := by nlinarith [sq_nonneg (‖a‖ - ‖b‖)]
  rw [Complex.normSq_eq_norm_sq, Complex.normSq_eq_norm_sq]
  linarith

/-- core bound: the interference sum of an array with its exchanged-position counterpart is
bounded by the norm -/
theorem abs_homInterf_le (n : ℕ) (grid : Steps2D ℝ) (hx : grid.x.n = n) (hy : grid.y.n = n)
    (f : Array (Cx ℝ)) (hf : f.size = n * n) (τ : ℝ) :
    |homInterf grid f (swapArr n f) τ| ≤ jsiNorm f := by
  have hlen : grid.len = n * n := by simp [Steps2D.len, hx, hy]
  rw [homInterf_eq, jsiNorm_eq, hlen, hf]
  calc |∑ k ∈ Finset.range (n * n), homTerm grid f (swapArr n f) τ k|
      ≤ ∑ k ∈ Finset.range (n * n), |homTerm grid f (swapArr n f) τ k| := Finset.abs_sum_le_sum_abs _ _
    _ ≤ ∑ k ∈ Finset.range (n * n),
          (Complex.normSq (at' f k).toC + Complex.normSq (at' f (swapIdx n k)).toC) / 2 := by
        apply Finset.sum_le_sum
        intro k hk
        rw [homTerm_eq, at_swapArr f (Finset.mem_range.mp hk)]
        exact abs_term_le _ _ _
    _ = ∑ k ∈ Finset.range (n * n), Complex.normSq (at' f k).toC := by
        rw [← Finset.sum_div, Finset.sum_add_distrib,
          sum_swapIdx n (fun k => Complex.normSq (at' f k).toC)]
        ring

/-! ### the rate -/

theorem homRate_none_ok (grid : Steps2D ℝ) (f g : Array (Cx ℝ)) (τ : ℝ)
    (hf : grid.len ≤ f.size) (hg : grid.len ≤ g.size) :
    homRate grid f g τ none = .ok (1 / 2 * (1 - homInterf grid f g τ / jsiNorm f)) := by
  simp [homRate, hf, hg, lit_half, lit_one]

theorem homRate_some_eq_none (grid : Steps2D ℝ) (f g : Array (Cx ℝ)) (τ : ℝ) :
    homRate grid f g τ (some (jsiNorm f)) = homRate grid f g τ none := by
  simp [homRate]

theorem rate_mem_of_abs_le {I N : ℝ} (hN : 0 < N) (h : |I| ≤ N) :
    0 ≤ 1 / 2 * (1 - I / N) ∧ 1 / 2 * (1 - I / N) ≤ 1 := by
  have hb := abs_le.mp h
  have h1 : I / N ≤ 1 := by rw [div_le_one hN]; exact hb.2
  have h2 : -1 ≤ I / N := by rw [le_div_iff₀ hN]; linarith [hb.1]
  constructor <;> linarith

theorem visibilityOf_eq (r : ℝ) : visibilityOf r = 1 - 2 * r := by
  simp only [visibilityOf, lit_half]; ring

/-! ### grid values under the swap permutation (identical axes) -/

theorem value_swapIdx {n : ℕ} (ax : Steps ℝ) (hn : ax.n = n) {k : ℕ} (hk : k < n * n) :
    (Steps2D.value ⟨ax, ax⟩ (swapIdx n k)) =
      ((Steps2D.value ⟨ax, ax⟩ k).2, (Steps2D.value ⟨ax, ax⟩ k).1) := by
  simp only [Steps2D.value, get2dIndices, hn, swapIdx_mod hk, swapIdx_div hk]

theorem deltaW_swapIdx {n : ℕ} (ax : Steps ℝ) (hn : ax.n = n) {k : ℕ} (hk : k < n * n) :
    deltaW ⟨ax, ax⟩ (swapIdx n k) = - deltaW ⟨ax, ax⟩ k := by
  simp only [deltaW, value_swapIdx ax hn hk]; ring

theorem at_sampled (J : ℝ → ℝ → Cx ℝ) (grid : Steps2D ℝ) {k : ℕ} (hk : k < grid.len) :
    at' (sampled J grid) k = J (grid.value k).1 (grid.value k).2 := by
  simp [at', sampled, hk]

theorem at_sampledSwapped (J : ℝ → ℝ → Cx ℝ) (grid : Steps2D ℝ) {k : ℕ} (hk : k < grid.len) :
    at' (sampledSwapped J grid) k = J (grid.value k).2 (grid.value k).1 := by
  simp [at', sampledSwapped, hk]

theorem size_sampled (J : ℝ → ℝ → Cx ℝ) (grid : Steps2D ℝ) : (sampled J grid).size = grid.len := by
  simp [sampled]

theorem size_sampledSwapped (J : ℝ → ℝ → Cx ℝ) (grid : Steps2D ℝ) :
    (sampledSwapped J grid).size = grid.len := by
  simp [sampledSwapped]

/-- on identical axes the exchanged-argument sampling is the sampled array read at exchanged
positions -/
theorem sampledSwapped_eq_swapArr (J : ℝ → ℝ → Cx ℝ) {n : ℕ} (ax : Steps ℝ) (hn : ax.n = n) :
    sampledSwapped J ⟨ax, ax⟩ = swapArr n (sampled J ⟨ax, ax⟩) := by
  have hlen : (Steps2D.len ⟨ax, ax⟩ : ℕ) = n * n := by simp [Steps2D.len, hn]
  apply Array.ext
  · simp [sampledSwapped, swapArr, hlen]
  · intro k h1 h2
    have hk : k < n * n := by simpa [sampledSwapped, hlen] using h1
    have e1 := at_sampledSwapped J ⟨ax, ax⟩ (k := k) (by rw [hlen]; exact hk)
    have e2 := at_swapArr (n := n) (sampled J ⟨ax, ax⟩) hk
    have e3 := at_sampled J ⟨ax, ax⟩ (k := swapIdx n k) (by rw [hlen]; exact swapIdx_lt hk)
    rw [value_swapIdx ax hn hk] at e3
    have l1 : (sampledSwapped J ⟨ax, ax⟩)[k] = at' (sampledSwapped J ⟨ax, ax⟩) k := by
      simp [at', Array.getD, h1]
    have l2 : (swapArr n (sampled J ⟨ax, ax⟩))[k] = at' (swapArr n (sampled J ⟨ax, ax⟩)) k := by
      simp [at', Array.getD, h2]
    rw [l1, l2, e1, e2, e3]

/-! ### symmetric arrays, Gaussian reduction, scaling -/

theorem homTerm_zero_delay_self (grid : Steps2D ℝ) (f : Array (Cx ℝ)) (k : ℕ) :
    homTerm grid f f 0 k = Complex.normSq (at' f k).toC := by
  rw [homTerm_eq]
  simp [Complex.normSq_apply, Complex.mul_re]

/-- a complex number of modulus `r` and phase `θ` -/
theorem toC_fromPolar (r θ : ℝ) :
    (Cx.fromPolar r θ).toC = (r : ℂ) * Complex.exp ((θ : ℂ) * Complex.I) := by
  apply Complex.ext <;>
    simp [Cx.fromPolar, Cx.toC, Transc.cos, Transc.sin, Complex.exp_ofReal_mul_I_re,
      Complex.exp_ofReal_mul_I_im]

theorem gaussian_term (A B : ℝ) (t0 d τ : ℝ) :
    ((starRingEnd ℂ) ((A : ℂ) * Complex.exp (((t0 * d / 2 : ℝ) : ℂ) * Complex.I)) *
        ((B : ℂ) * Complex.exp (((t0 * (-d) / 2 : ℝ) : ℂ) * Complex.I)) *
        Complex.exp (((d * τ : ℝ) : ℂ) * Complex.I)).re = A * B * Real.cos (d * (τ - t0)) := by
  have hconj : (starRingEnd ℂ) (Complex.exp (((t0 * d / 2 : ℝ) : ℂ) * Complex.I)) =
      Complex.exp (((-(t0 * d / 2) : ℝ) : ℂ) * Complex.I) := by
    rw [← Complex.exp_conj]; congr 1
    rw [map_mul, Complex.conj_I, Complex.conj_ofReal]; push_cast; ring
  rw [map_mul, Complex.conj_ofReal, hconj]
  have : (A : ℂ) * Complex.exp (((-(t0 * d / 2) : ℝ) : ℂ) * Complex.I) *
      ((B : ℂ) * Complex.exp (((t0 * (-d) / 2 : ℝ) : ℂ) * Complex.I)) *
      Complex.exp (((d * τ : ℝ) : ℂ) * Complex.I) =
      ((A * B : ℝ) : ℂ) * Complex.exp (((d * (τ - t0) : ℝ) : ℂ) * Complex.I) := by
    rw [show (A : ℂ) * Complex.exp (((-(t0 * d / 2) : ℝ) : ℂ) * Complex.I) *
      ((B : ℂ) * Complex.exp (((t0 * (-d) / 2 : ℝ) : ℂ) * Complex.I)) *
      Complex.exp (((d * τ : ℝ) : ℂ) * Complex.I) = (A : ℂ) * (B : ℂ) *
        (Complex.exp (((-(t0 * d / 2) : ℝ) : ℂ) * Complex.I) *
         Complex.exp (((t0 * (-d) / 2 : ℝ) : ℂ) * Complex.I) *
         Complex.exp (((d * τ : ℝ) : ℂ) * Complex.I)) by ring]
    rw [← Complex.exp_add, ← Complex.exp_add]
    push_cast
    congr 2
    ring
  rw [this, Complex.re_ofReal_mul, Complex.exp_ofReal_mul_I_re]

/-- multiply every entry by a complex constant -/
def scaleArr (c : Cx ℝ) (f : Array (Cx ℝ)) : Array (Cx ℝ) := f.map (Cx.mul c)

theorem size_scaleArr (c : Cx ℝ) (f : Array (Cx ℝ)) : (scaleArr c f).size = f.size := by
  simp [scaleArr]

theorem at_scaleArr (c : Cx ℝ) (f : Array (Cx ℝ)) {k : ℕ} (hk : k < f.size) :
    at' (scaleArr c f) k = Cx.mul c (at' f k) := by
  simp [at', scaleArr, hk]

theorem homTerm_scale (grid : Steps2D ℝ) (c : Cx ℝ) (f g : Array (Cx ℝ)) (τ : ℝ) {k : ℕ}
    (hf : k < f.size) (hg : k < g.size) :
    homTerm grid (scaleArr c f) (scaleArr c g) τ k = Complex.normSq c.toC * homTerm grid f g τ k := by
  rw [homTerm_eq, homTerm_eq, at_scaleArr c f hf, at_scaleArr c g hg, Cx.toC_mul', Cx.toC_mul', map_mul]
  rw [show (starRingEnd ℂ) c.toC * (starRingEnd ℂ) (at' f k).toC * (c.toC * (at' g k).toC) *
      Complex.exp (((deltaW grid k * τ : ℝ) : ℂ) * Complex.I) =
      ((starRingEnd ℂ) c.toC * c.toC) * ((starRingEnd ℂ) (at' f k).toC * (at' g k).toC *
      Complex.exp (((deltaW grid k * τ : ℝ) : ℂ) * Complex.I)) by ring]
  rw [← Complex.normSq_eq_conj_mul_self, Complex.re_ofReal_mul]

theorem jsiNorm_scale (c : Cx ℝ) (f : Array (Cx ℝ)) :
    jsiNorm (scaleArr c f) = Complex.normSq c.toC * jsiNorm f := by
  rw [jsiNorm_eq, jsiNorm_eq, size_scaleArr, Finset.mul_sum]
  apply Finset.sum_congr rfl
  intro k hk
  rw [at_scaleArr c f (Finset.mem_range.mp hk), Cx.toC_mul', map_mul]

end Spdc.HomLemmas
