import Spdc.Model.GridProg
/-!
# Closed forms of std's default `nth` / `nth_back` on the grid iterators

For a state with `index ≤ index_back` (the invariant of every reachable state): `nth k` is positional
access to the point `index + k` of the range if that point is still owned (`index + k < index_back`),
otherwise `None`; the cursor moves to `min (index + k + 1) index_back`.  Symmetrically from the back.
-/
namespace Spdc.Grid

section scalar
variable {α : Type} [Add α] [Sub α] [Mul α] [Div α] [NatCast α]

theorem Iter1.advance_spec (k : Nat) : ∀ (it : Iter1 α), it.index ≤ it.indexBack →
    it.advance k = ({ it with index := min (it.index + k) it.indexBack },
                    decide (it.index + k ≤ it.indexBack)) := by
  induction k with
  | zero =>
    intro it h
    cases it with | mk s i j =>
    simp only [Iter1.advance, Nat.add_zero]
    simp only at h
    simp [Nat.min_eq_left h, h]
  | succ k ih =>
    intro it h
    cases it with | mk s i j =>
    simp only at h
    unfold Iter1.advance
    by_cases hge : i ≥ j
    · have hij : i = j := by omega
      subst hij
      simp [Iter1.next]
    · have hlt : i < j := by omega
      have hn : (Iter1.next ⟨s, i, j⟩ : Option α × Iter1 α) = (some (s.value i), ⟨s, i + 1, j⟩) := by
        simp [Iter1.next, hge]
      rw [hn]
      simp only
      rw [ih ⟨s, i + 1, j⟩ (by simp only; omega)]
      have e : i + 1 + k = i + (k + 1) := by omega
      simp only [e]

theorem Iter1.advanceBack_spec (k : Nat) : ∀ (it : Iter1 α), it.index ≤ it.indexBack →
    it.advanceBack k = ({ it with indexBack := max (it.indexBack - k) it.index },
                        decide (it.index + k ≤ it.indexBack)) := by
  induction k with
  | zero =>
    intro it h
    cases it with | mk s i j =>
    simp only at h
    simp [Iter1.advanceBack, Nat.max_eq_left h, h]
  | succ k ih =>
    intro it h
    cases it with | mk s i j =>
    simp only at h
    unfold Iter1.advanceBack
    by_cases hle : j ≤ i
    · have hij : i = j := by omega
      subst hij
      simp [Iter1.nextBack]
    · have hn : (Iter1.nextBack ⟨s, i, j⟩ : Option α × Iter1 α)
          = (some (s.value (j - 1)), ⟨s, i, j - 1⟩) := by
        simp [Iter1.nextBack, hle]
      rw [hn]
      simp only
      rw [ih ⟨s, i, j - 1⟩ (by simp only; omega)]
      have e : j - 1 - k = j - (k + 1) := by omega
      have e2 : (i + k ≤ j - 1) = (i + (k + 1) ≤ j) := by apply propext; omega
      simp only [e, e2]

theorem Iter1.nth_spec (it : Iter1 α) (h : it.index ≤ it.indexBack) (k : Nat) :
    it.nth k = (if it.index + k < it.indexBack then some (it.steps.value (it.index + k)) else none,
                { it with index := min (it.index + k + 1) it.indexBack }) := by
  cases it with | mk s i j =>
  simp only at h
  unfold Iter1.nth
  rw [Iter1.advance_spec k _ h]
  simp only
  by_cases hk : i + k ≤ j
  · simp only [hk, decide_true]
    by_cases hlt : i + k < j
    · have h1 : min (i + k) j = i + k := by omega
      have h2 : min (i + k + 1) j = i + k + 1 := by omega
      simp [Iter1.next, h1, h2, hlt]
    · have h1 : min (i + k) j = j := by omega
      have h2 : min (i + k + 1) j = j := by omega
      simp [Iter1.next, h1, h2, hlt]
  · have hlt : ¬ (i + k < j) := by omega
    have h1 : min (i + k) j = j := by omega
    have h2 : min (i + k + 1) j = j := by omega
    simp [hk, hlt, h1, h2]

theorem Iter1.nthBack_spec (it : Iter1 α) (h : it.index ≤ it.indexBack) (k : Nat) :
    it.nthBack k = (if it.index + k < it.indexBack then some (it.steps.value (it.indexBack - 1 - k)) else none,
                    { it with indexBack := max (it.indexBack - (k + 1)) it.index }) := by
  cases it with | mk s i j =>
  simp only at h
  unfold Iter1.nthBack
  rw [Iter1.advanceBack_spec k _ h]
  simp only
  by_cases hk : i + k ≤ j
  · simp only [hk, decide_true]
    by_cases hlt : i + k < j
    · have h1 : max (j - k) i = j - k := by omega
      have h2 : max (j - (k + 1)) i = j - k - 1 := by omega
      have h3 : j - 1 - k = j - k - 1 := by omega
      simp [Iter1.nextBack, h1, h2, h3, hlt]
    · have h1 : max (j - k) i = i := by omega
      have h2 : max (j - (k + 1)) i = i := by omega
      simp [Iter1.nextBack, h1, h2, hlt]
  · have hlt : ¬ (i + k < j) := by omega
    have h1 : max (j - k) i = i := by omega
    have h2 : max (j - (k + 1)) i = i := by omega
    simp [hk, hlt, h1, h2]

end scalar

section scalar2
variable {α : Type} [Add α] [Sub α] [Mul α] [Div α] [NatCast α] [OfScientific α]

theorem Iter2.advance_spec (k : Nat) : ∀ (it : Iter2 α), it.index ≤ it.indexBack →
    it.advance k = ({ it with index := min (it.index + k) it.indexBack },
                    decide (it.index + k ≤ it.indexBack)) := by
  induction k with
  | zero =>
    intro it h
    cases it with | mk s lo hi i j =>
    simp only [Iter2.advance, Nat.add_zero]
    simp only at h
    simp [Nat.min_eq_left h, h]
  | succ k ih =>
    intro it h
    cases it with | mk s lo hi i j =>
    simp only at h
    unfold Iter2.advance
    by_cases hge : i ≥ j
    · have hij : i = j := by omega
      subst hij
      simp [Iter2.next]
    · have hlt : i < j := by omega
      have hn : (Iter2.next ⟨s, lo, hi, i, j⟩ : Option (α × α) × Iter2 α) = (some (s.value i), ⟨s, lo, hi, i + 1, j⟩) := by
        simp [Iter2.next, hge]
      rw [hn]
      simp only
      rw [ih ⟨s, lo, hi, i + 1, j⟩ (by simp only; omega)]
      have e : i + 1 + k = i + (k + 1) := by omega
      simp only [e]

theorem Iter2.advanceBack_spec (k : Nat) : ∀ (it : Iter2 α), it.index ≤ it.indexBack →
    it.advanceBack k = ({ it with indexBack := max (it.indexBack - k) it.index },
                        decide (it.index + k ≤ it.indexBack)) := by
  induction k with
  | zero =>
    intro it h
    cases it with | mk s lo hi i j =>
    simp only at h
    simp [Iter2.advanceBack, Nat.max_eq_left h, h]
  | succ k ih =>
    intro it h
    cases it with | mk s lo hi i j =>
    simp only at h
    unfold Iter2.advanceBack
    by_cases hle : j ≤ i
    · have hij : i = j := by omega
      subst hij
      simp [Iter2.nextBack]
    · have hn : (Iter2.nextBack ⟨s, lo, hi, i, j⟩ : Option (α × α) × Iter2 α)
          = (some (s.value (j - 1)), ⟨s, lo, hi, i, j - 1⟩) := by
        simp [Iter2.nextBack, hle]
      rw [hn]
      simp only
      rw [ih ⟨s, lo, hi, i, j - 1⟩ (by simp only; omega)]
      have e : j - 1 - k = j - (k + 1) := by omega
      have e2 : (i + k ≤ j - 1) = (i + (k + 1) ≤ j) := by apply propext; omega
      simp only [e, e2]

theorem Iter2.nth_spec (it : Iter2 α) (h : it.index ≤ it.indexBack) (k : Nat) :
    it.nth k = (if it.index + k < it.indexBack then some (it.steps.value (it.index + k)) else none,
                { it with index := min (it.index + k + 1) it.indexBack }) := by
  cases it with | mk s lo hi i j =>
  simp only at h
  unfold Iter2.nth
  rw [Iter2.advance_spec k _ h]
  simp only
  by_cases hk : i + k ≤ j
  · simp only [hk, decide_true]
    by_cases hlt : i + k < j
    · have h1 : min (i + k) j = i + k := by omega
      have h2 : min (i + k + 1) j = i + k + 1 := by omega
      simp [Iter2.next, h1, h2, hlt]
    · have h1 : min (i + k) j = j := by omega
      have h2 : min (i + k + 1) j = j := by omega
      simp [Iter2.next, h1, h2, hlt]
  · have hlt : ¬ (i + k < j) := by omega
    have h1 : min (i + k) j = j := by omega
    have h2 : min (i + k + 1) j = j := by omega
    simp [hk, hlt, h1, h2]

theorem Iter2.nthBack_spec (it : Iter2 α) (h : it.index ≤ it.indexBack) (k : Nat) :
    it.nthBack k = (if it.index + k < it.indexBack then some (it.steps.value (it.indexBack - 1 - k)) else none,
                    { it with indexBack := max (it.indexBack - (k + 1)) it.index }) := by
  cases it with | mk s lo hi i j =>
  simp only at h
  unfold Iter2.nthBack
  rw [Iter2.advanceBack_spec k _ h]
  simp only
  by_cases hk : i + k ≤ j
  · simp only [hk, decide_true]
    by_cases hlt : i + k < j
    · have h1 : max (j - k) i = j - k := by omega
      have h2 : max (j - (k + 1)) i = j - k - 1 := by omega
      have h3 : j - 1 - k = j - k - 1 := by omega
      simp [Iter2.nextBack, h1, h2, h3, hlt]
    · have h1 : max (j - k) i = i := by omega
      have h2 : max (j - (k + 1)) i = i := by omega
      simp [Iter2.nextBack, h1, h2, hlt]
  · have hlt : ¬ (i + k < j) := by omega
    have h1 : max (j - k) i = i := by omega
    have h2 : max (j - (k + 1)) i = i := by omega
    simp [hk, hlt, h1, h2]

end scalar2

end Spdc.Grid
