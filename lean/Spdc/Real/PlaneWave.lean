import Spdc.Real.PM
import Mathlib.Analysis.SpecialFunctions.Integrals.Basic
import Mathlib.Analysis.SpecialFunctions.Trigonometric.Sinc
/-!
# Collinear / plane-wave reductions of the coincidence integrand (helper lemmas for C05)
-/
open Complex in
theorem exp_sub_exp_neg (x : ℝ) :
    Complex.exp (Complex.I * x * (1:ℝ)) - Complex.exp (Complex.I * x * ((-1:ℝ):ℝ)) = 2 * Complex.I * (Real.sin x : ℂ) := by
  have h1 : Complex.I * x * ((1:ℝ):ℂ) = (x:ℂ) * Complex.I := by push_cast; ring
  have h2 : Complex.I * x * (((-1:ℝ):ℝ):ℂ) = (-(x:ℂ)) * Complex.I := by push_cast; ring
  rw [h1, h2, Complex.exp_mul_I, Complex.exp_mul_I, Complex.cos_neg, Complex.sin_neg, Complex.ofReal_sin]
  ring

theorem half_integral_exp (c0 ff : ℝ) :
    ‖(1 / 2 : ℂ) * ∫ z in (-1:ℝ)..1, Complex.exp (Complex.I * ((c0:ℂ) + (ff:ℂ) * (z:ℂ)))‖
      = |Real.sinc ff| := by
  have hsplit : ∀ z : ℝ, Complex.exp (Complex.I * ((c0:ℂ) + (ff:ℂ) * (z:ℂ)))
      = Complex.exp (Complex.I * c0) * Complex.exp (Complex.I * ff * z) := by
    intro z; rw [← Complex.exp_add]; congr 1; ring
  simp_rw [hsplit]
  rw [intervalIntegral.integral_const_mul]
  have hn : ‖Complex.exp (Complex.I * c0)‖ = 1 := by
    rw [mul_comm]; exact Complex.norm_exp_ofReal_mul_I c0
  by_cases hff : ff = 0
  · subst hff
    simp [hn]
    norm_num
  · have hc : Complex.I * (ff:ℂ) ≠ 0 := mul_ne_zero Complex.I_ne_zero (by exact_mod_cast hff)
    rw [integral_exp_mul_complex hc, exp_sub_exp_neg, Real.sinc_of_ne_zero hff]
    rw [norm_mul, norm_mul, hn]
    have : (2 * Complex.I * (Real.sin ff : ℂ)) / (Complex.I * (ff:ℂ)) = ((2 * Real.sin ff / ff : ℝ) : ℂ) := by
      push_cast
      field_simp
    rw [this, Complex.norm_real]
    simp only [Real.norm_eq_abs, norm_div, Complex.norm_ofNat, norm_one, one_mul]
    rw [abs_mul, abs_two, abs_div]
    ring

namespace Spdc.PM
open Spdc

/-- a collected beam along the pump axis -/
structure Beam.Collinear (b : Beam ℝ) : Prop where
  theta : b.theta = 0
  thetaE : b.thetaE = 0

def Beam.w2 (b : Beam ℝ) : ℝ := b.wx * b.wy

theorem chain_collinear (b : Beam ℝ) (h : b.Collinear) (L ω : ℝ) :
    (chain b L ω).gam1 = -(b.w2 / 4) ∧ (chain b L ω).gam2 = -(b.w2 / 4) ∧ (chain b L ω).gam3 = 0
      ∧ (chain b L ω).gam4 = 0 ∧ (chain b L ω).del3 = 0
      ∧ (chain b L ω).del4 = -(|(chain b L ω).k| / b.n ω * b.z0) := by
  simp only [chain, h.theta, h.thetaE, Transc.cos, Transc.sin, Transc.tan, Transc.abs, powiNeg2,
    Real.cos_zero, Real.sin_zero, Real.tan_zero, Beam.w2, lit_one, lit_two, lit_025, lit_05]
  refine ⟨by ring, by ring, by ring, by ring, by ring, by ring⟩

/-- the free-space propagation constant `ks_f = |k_s|/n_s` of a beam at `ω` -/
noncomputable def Beam.kf (b : Beam ℝ) (L ω : ℝ) : ℝ := |(chain b L ω).k| / b.n ω

structure Setup.Collinear (S : Setup ℝ) : Prop where
  sig : S.sig.Collinear
  idl : S.idl.Collinear

noncomputable def Setup.sigmaX (S : Setup ℝ) : ℝ :=
  S.wpx * S.wpx * S.sig.w2 + S.wpx * S.wpx * S.idl.w2 + S.sig.w2 * S.idl.w2
noncomputable def Setup.sigmaY (S : Setup ℝ) : ℝ :=
  S.wpy * S.wpy * S.sig.w2 + S.wpy * S.wpy * S.idl.w2 + S.sig.w2 * S.idl.w2
/-- the waist-position phase `φ₀ = ks_f·z0s + ki_f·z0i` -/
noncomputable def Setup.phi0 (S : Setup ℝ) (ωs ωi : ℝ) : ℝ :=
  S.sig.kf S.L ωs * S.sig.z0 + S.idl.kf S.L ωi * S.idl.z0
/-- `n = ½·L·tan ρ` -/
noncomputable def Setup.nn (S : Setup ℝ) : ℝ := 1 / 2 * S.L * Real.tan S.rho

@[simp] theorem cx_add_re (z w : Cx ℝ) : (z + w).re = z.re + w.re := rfl
@[simp] theorem cx_add_im (z w : Cx ℝ) : (z + w).im = z.im + w.im := rfl
@[simp] theorem cx_sub_re (z w : Cx ℝ) : (z - w).re = z.re - w.re := rfl
@[simp] theorem cx_sub_im (z w : Cx ℝ) : (z - w).im = z.im - w.im := rfl

theorem ideal_coef_collinear (S : Setup ℝ) (h : S.Collinear) (ωs ωi z : ℝ) :
    let A := (coef S ωs ωi z).ideal
    A.a1.toC = ((-((S.wpx * S.wpx + S.sig.w2) / 4) : ℝ) : ℂ)
    ∧ A.a2.toC = ((-((S.wpy * S.wpy + S.sig.w2) / 4) : ℝ) : ℂ)
    ∧ A.a3.toC = ((-((S.wpx * S.wpx + S.idl.w2) / 4) : ℝ) : ℂ)
    ∧ A.a4.toC = ((-((S.wpy * S.wpy + S.idl.w2) / 4) : ℝ) : ℂ)
    ∧ A.a5.toC = 0 ∧ A.a7.toC = 0
    ∧ A.a6.toC = ((S.nn * (1 + z) : ℝ) : ℂ) * Complex.I
    ∧ A.a8.toC = ((-(S.wpx * S.wpx / 2) : ℝ) : ℂ)
    ∧ A.a9.toC = ((-(S.wpy * S.wpy / 2) : ℝ) : ℂ)
    ∧ A.a10.toC = ((S.phi0 ωs ωi + (pre S ωs ωi).ee + (pre S ωs ωi).ff * z : ℝ) : ℂ) * Complex.I := by
  intro A
  obtain ⟨g1s, g2s, g3s, g4s, d3s, d4s⟩ := chain_collinear S.sig h.sig S.L ωs
  obtain ⟨g1i, g2i, g3i, g4i, d3i, d4i⟩ := chain_collinear S.idl h.idl S.L ωi
  refine ⟨?_, ?_, ?_, ?_, ?_, ?_, ?_, ?_, ?_, ?_⟩
  case refine_7 =>
    have hnn : (pre S ωs ωi).nn = S.nn := by
      simp [pre, Setup.nn, Transc.tan, lit_05]
    apply Complex.ext
    · simp [A, coef, Coef.ideal, Pre.coef, Cx.toC, Cx.ofImag, lit_zero]
    · simp only [A, coef, Coef.ideal, Pre.coef, Cx.toC, Cx.ofImag, hnn, lit_one, Complex.mul_im,
        Complex.ofReal_re, Complex.ofReal_im, Complex.I_re, Complex.I_im]
      ring
  all_goals
    apply Complex.ext <;>
    simp [A, coef, Coef.ideal, Pre.coef, pre, Cx.toC, Cx.ofReal, Cx.ofImag,
      g1s, g2s, g3s, g4s, d3s, d4s, g1i, g2i, g3i, g4i, d3i, d4i, lit_zero, lit_025, lit_05, lit_one, z0p,
      Setup.nn, Setup.phi0, Beam.kf, Transc.tan] <;> ring

theorem denoms_ideal' (S : Setup ℝ) (h : S.Collinear) (ωs ωi z : ℝ) :
    (coef S ωs ωi z).ideal.denom1.toC = ((S.sigmaX / 4 : ℝ) : ℂ)
    ∧ (coef S ωs ωi z).ideal.denom2.toC = ((S.sigmaY / 4 : ℝ) : ℂ) := by
  obtain ⟨h1, h2, h3, h4, -, -, -, h8, h9, -⟩ := ideal_coef_collinear S h ωs ωi z
  constructor
  · rw [denom1_toC, h1, h3, h8]; simp only [Setup.sigmaX]; push_cast; ring
  · rw [denom2_toC, h2, h4, h9]; simp only [Setup.sigmaY]; push_cast; ring

/-- `x′² = n²·(Ws²+Wi²)/Σ` -/
noncomputable def Setup.xp2 (S : Setup ℝ) : ℝ := S.nn ^ 2 * (S.sig.w2 + S.idl.w2) / S.sigmaY

theorem expo_collinear (A1 A3 A6 A8 P s i Nz T Sg a : ℂ) (ha : a ≠ 0) (hS : Sg ≠ 0)
    (hadef : a = P + s) (hSdef : Sg = P * s + P * i + s * i) (hA6 : A6 * A6 = -(Nz * Nz)) :
    expo A1 (-(a / 4)) A3 (-((P + i) / 4)) 0 A6 0 A8 (-(P / 2)) T = T - Nz * Nz * (s + i) / Sg := by
  unfold expo
  have hd2 : 4 * -(a / 4) * -((P + i) / 4) - -(P / 2) * -(P / 2) = Sg / 4 := by
    rw [hSdef, hadef]; ring
  rw [hd2, hA6]
  have h0 : A1⁻¹ * (0 * 0 + (-2 * A1 * 0 + 0 * A8) * (-2 * A1 * 0 + 0 * A8) / (4 * A1 * A3 - A8 * A8)) = 0 := by
    simp
  rw [h0]
  have h5 : (-2 * -(a / 4) + -(P / 2)) = s / 2 := by rw [hadef]; ring
  rw [h5]
  field_simp
  rw [hSdef, hadef]
  ring

theorem exponent_ideal' (S : Setup ℝ) (h : S.Collinear) (ωs ωi z : ℝ)
    (ha : S.wpy * S.wpy + S.sig.w2 ≠ 0) (hS : S.sigmaY ≠ 0) :
    (coef S ωs ωi z).ideal.exponent.toC
      = ((S.phi0 ωs ωi + (pre S ωs ωi).ee + (pre S ωs ωi).ff * z : ℝ) : ℂ) * Complex.I
        - ((S.xp2 * (1 + z) ^ 2 : ℝ) : ℂ) := by
  obtain ⟨h1, h2, h3, h4, h5, h7, h6, h8, h9, h10⟩ := ideal_coef_collinear S h ωs ωi z
  rw [exponent_toC, h1, h2, h3, h4, h5, h6, h7, h8, h9, h10]
  have key := expo_collinear (((-((S.wpx * S.wpx + S.sig.w2) / 4) : ℝ) : ℂ))
    (((-((S.wpx * S.wpx + S.idl.w2) / 4) : ℝ) : ℂ)) (((S.nn * (1 + z) : ℝ) : ℂ) * Complex.I)
    (((-(S.wpx * S.wpx / 2) : ℝ) : ℂ)) ((S.wpy * S.wpy : ℝ) : ℂ) ((S.sig.w2 : ℝ) : ℂ) ((S.idl.w2 : ℝ) : ℂ)
    ((S.nn * (1 + z) : ℝ) : ℂ)
    (((S.phi0 ωs ωi + (pre S ωs ωi).ee + (pre S ωs ωi).ff * z : ℝ) : ℂ) * Complex.I)
    ((S.sigmaY : ℝ) : ℂ) ((S.wpy * S.wpy + S.sig.w2 : ℝ) : ℂ)
    (by exact_mod_cast ha) (by exact_mod_cast hS) (by push_cast; ring)
    (by simp only [Setup.sigmaY]; push_cast; ring)
    (by rw [mul_mul_mul_comm, Complex.I_mul_I]; ring)
  have e2 : ((-((S.wpy * S.wpy + S.sig.w2) / 4) : ℝ) : ℂ) = -(((S.wpy * S.wpy + S.sig.w2 : ℝ) : ℂ) / 4) := by
    push_cast; ring
  have e4 : ((-((S.wpy * S.wpy + S.idl.w2) / 4) : ℝ) : ℂ) = -((((S.wpy * S.wpy : ℝ) : ℂ) + ((S.idl.w2 : ℝ) : ℂ)) / 4) := by
    push_cast; ring
  have e9 : ((-(S.wpy * S.wpy / 2) : ℝ) : ℂ) = -(((S.wpy * S.wpy : ℝ) : ℂ) / 2) := by
    push_cast; ring
  rw [e2, e4, e9, key]
  simp only [Setup.xp2]
  push_cast
  ring

/-- `Complex::sqrt` of a non-negative real -/
theorem cx_sqrt_nonneg (p : ℝ) (hp : 0 ≤ p) : (Cx.sqrt (⟨p, 0⟩ : Cx ℝ)) = ⟨Real.sqrt p, 0⟩ := by
  unfold Cx.sqrt
  simp only [lit_zero, lt_irrefl, not_false_eq_true, and_self, if_true, not_lt.mpr hp, Transc.sqrt]

theorem cx_eq_of_toC_real (z : Cx ℝ) (x : ℝ) (h : z.toC = (x : ℂ)) : z = ⟨x, 0⟩ := by
  apply Cx.toC_injective
  rw [h]; apply Complex.ext <;> simp [Cx.toC]

theorem sqrt_denoms_ideal (S : Setup ℝ) (h : S.Collinear) (ωs ωi z : ℝ) (hc : S.wpx = S.wpy)
    (hpos : 0 ≤ S.sigmaY) :
    let A := (coef S ωs ωi z).ideal
    ((A.denom1 * A.denom2).sqrt).toC = ((S.sigmaY / 4 : ℝ) : ℂ) := by
  intro A
  obtain ⟨hd1, hd2⟩ := denoms_ideal' S h ωs ωi z
  have hxy : S.sigmaX = S.sigmaY := by simp only [Setup.sigmaX, Setup.sigmaY, hc]
  have hprod : (A.denom1 * A.denom2) = ⟨(S.sigmaY / 4) * (S.sigmaY / 4), 0⟩ := by
    apply cx_eq_of_toC_real
    rw [Cx.toC_mul, hd1, hd2, hxy]; push_cast; ring
  rw [hprod, cx_sqrt_nonneg _ (mul_self_nonneg _), Real.sqrt_mul_self (by positivity)]
  apply Complex.ext <;> simp [Cx.toC]

/-- closed form of the diffraction-free integrand for collinear beams and a circular pump -/
theorem pmIdeal_collinear (S : Setup ℝ) (h : S.Collinear) (ωs ωi z : ℝ) (hc : S.wpx = S.wpy)
    (ha : S.wpy * S.wpy + S.sig.w2 ≠ 0) (hpos : 0 < S.sigmaY) :
    (pmIdeal S ωs ωi z).toC
      = ((S.apod z : ℝ) : ℂ) * Complex.exp
          (((S.phi0 ωs ωi + (pre S ωs ωi).ee + (pre S ωs ωi).ff * z : ℝ) : ℂ) * Complex.I
            - ((S.xp2 * (1 + z) ^ 2 : ℝ) : ℂ)) / ((S.sigmaY / 4 : ℝ) : ℂ) := by
  unfold pmIdeal Coef.integrand
  rw [Cx.toC_div, Cx.toC_smul, Cx.toC_exp, exponent_ideal' S h ωs ωi z ha (ne_of_gt hpos),
    sqrt_denoms_ideal S h ωs ωi z hc (le_of_lt hpos)]

/-- the plane-wave hypotheses of the sinc law -/
structure Setup.PlaneWave (S : Setup ℝ) : Prop where
  col : S.Collinear
  circ : S.wpx = S.wpy
  wp : 0 < S.wpy
  ws : 0 < S.sig.w2
  wi : 0 < S.idl.w2
  apod : ∀ z, S.apod z = 1

theorem Setup.PlaneWave.sigma_pos {S : Setup ℝ} (h : S.PlaneWave) : 0 < S.sigmaY := by
  have := h.wp; have := h.ws; have := h.wi
  simp only [Setup.sigmaY]; positivity

theorem Setup.PlaneWave.a_ne {S : Setup ℝ} (h : S.PlaneWave) : S.wpy * S.wpy + S.sig.w2 ≠ 0 := by
  have := h.wp; have := h.ws
  positivity

theorem xp2_zero_of_rho (S : Setup ℝ) (hρ : S.rho = 0) : S.xp2 = 0 := by
  simp [Setup.xp2, Setup.nn, hρ]

/-- without walk-off: `|½∫ pmIdeal dz| = (4/Σ)·|sinc(ff)|` -/
theorem sinc_limit' (S : Setup ℝ) (h : S.PlaneWave) (hρ : S.rho = 0) (ωs ωi : ℝ) :
    ‖(1 / 2 : ℂ) * ∫ z in (-1:ℝ)..1, (pmIdeal S ωs ωi z).toC‖
      = 4 / S.sigmaY * |Real.sinc (pre S ωs ωi).ff| := by
  have hpos := h.sigma_pos
  have hform : ∀ z : ℝ, (pmIdeal S ωs ωi z).toC
      = (((4 / S.sigmaY : ℝ)) : ℂ) * Complex.exp (Complex.I *
          (((S.phi0 ωs ωi + (pre S ωs ωi).ee : ℝ) : ℂ) + (((pre S ωs ωi).ff : ℝ) : ℂ) * (z : ℂ))) := by
    intro z
    rw [pmIdeal_collinear S h.col ωs ωi z h.circ h.a_ne hpos, h.apod z, xp2_zero_of_rho S hρ]
    have hne : ((S.sigmaY : ℝ) : ℂ) ≠ 0 := by exact_mod_cast ne_of_gt hpos
    push_cast
    rw [show (0:ℂ) * (1 + (z:ℂ)) ^ 2 = 0 by ring, sub_zero]
    rw [show ((↑(S.phi0 ωs ωi) + ↑(pre S ωs ωi).ee + ↑(pre S ωs ωi).ff * (z:ℂ)) * Complex.I)
        = Complex.I * (↑(S.phi0 ωs ωi) + ↑(pre S ωs ωi).ee + ↑(pre S ωs ωi).ff * (z:ℂ)) by ring]
    field_simp
  simp_rw [hform]
  rw [intervalIntegral.integral_const_mul, ← mul_assoc, mul_comm (1 / 2 : ℂ), mul_assoc, norm_mul,
    half_integral_exp, Complex.norm_real, Real.norm_eq_abs, abs_of_pos (by positivity)]

/-- at perfect phase matching (`ff = 0`), with walk-off:
`|½∫ pmIdeal dz| = (4/Σ)·½∫ exp(−x′²(1+z)²) dz` -/
theorem peak_integral (S : Setup ℝ) (h : S.PlaneWave) (ωs ωi : ℝ) (hff : (pre S ωs ωi).ff = 0) :
    ‖(1 / 2 : ℂ) * ∫ z in (-1:ℝ)..1, (pmIdeal S ωs ωi z).toC‖
      = 4 / S.sigmaY * (1 / 2 * ∫ z in (-1:ℝ)..1, Real.exp (-(S.xp2 * (1 + z) ^ 2))) := by
  have hpos := h.sigma_pos
  have hform : ∀ z : ℝ, (pmIdeal S ωs ωi z).toC
      = ((4 / S.sigmaY : ℝ) : ℂ) * Complex.exp (((S.phi0 ωs ωi + (pre S ωs ωi).ee : ℝ) : ℂ) * Complex.I)
          * ((Real.exp (-(S.xp2 * (1 + z) ^ 2)) : ℝ) : ℂ) := by
    intro z
    rw [pmIdeal_collinear S h.col ωs ωi z h.circ h.a_ne hpos, h.apod z, hff]
    have hne : ((S.sigmaY : ℝ) : ℂ) ≠ 0 := by exact_mod_cast ne_of_gt hpos
    rw [Complex.ofReal_exp, mul_assoc, ← Complex.exp_add]
    push_cast
    rw [show (↑(S.phi0 ωs ωi) + ↑(pre S ωs ωi).ee + (0:ℂ) * ↑z) * Complex.I - ↑S.xp2 * (1 + (z:ℂ)) ^ 2
        = (↑(S.phi0 ωs ωi) + ↑(pre S ωs ωi).ee) * Complex.I + -(↑S.xp2 * (1 + (z:ℂ)) ^ 2) by ring]
    field_simp
  simp_rw [hform]
  rw [intervalIntegral.integral_const_mul, intervalIntegral.integral_ofReal]
  have hn : ‖Complex.exp (((S.phi0 ωs ωi + (pre S ωs ωi).ee : ℝ) : ℂ) * Complex.I)‖ = 1 :=
    Complex.norm_exp_ofReal_mul_I _
  have hI : 0 ≤ ∫ z in (-1:ℝ)..1, Real.exp (-(S.xp2 * (1 + z) ^ 2)) :=
    intervalIntegral.integral_nonneg (by norm_num) (fun z _ => le_of_lt (Real.exp_pos _))
  rw [norm_mul, norm_mul, norm_mul, hn, Complex.norm_real, Complex.norm_real, Real.norm_eq_abs,
    Real.norm_eq_abs, abs_of_pos (by positivity), abs_of_nonneg hI]
  simp
  ring

/-- substitution `u = x′(1+z)`: `½∫_{-1}^{1} exp(−(x′(1+z))²) dz = (1/x)∫₀ˣ exp(−u²) du`, `x = 2x′` -/
theorem walkoff_integral (xp : ℝ) (hx : xp ≠ 0) :
    1 / 2 * ∫ z in (-1:ℝ)..1, Real.exp (-(xp ^ 2 * (1 + z) ^ 2))
      = 1 / (2 * xp) * ∫ u in (0:ℝ)..(2 * xp), Real.exp (-(u ^ 2)) := by
  have key := intervalIntegral.integral_comp_mul_add (a := (-1:ℝ)) (b := 1)
    (fun u : ℝ => Real.exp (-(u ^ 2))) hx xp
  have h1 : (fun z : ℝ => Real.exp (-(xp ^ 2 * (1 + z) ^ 2)))
      = fun z : ℝ => (fun u : ℝ => Real.exp (-(u ^ 2))) (xp * z + xp) := by
    funext z; simp only; congr 1; ring
  rw [h1, key]
  simp only [smul_eq_mul]
  rw [show xp * (-1) + xp = 0 by ring, show xp * 1 + xp = 2 * xp by ring]
  field_simp

end Spdc.PM
