import Spdc.Model.Compose
import Spdc.Real.Jsa
import Spdc.Real.DeltaK
import Spdc.Real.Beam
import Spdc.Real.Poling
/-!
# ℝ-side lemmas about the composed model (`Spdc/Model/Compose.lean`)

How the composition commutes with the three operations the layer theorems are about — exchange of
signal and idler, scaling of pump power / `deff`, the support test — and how the adapters between the
layers' record types relate (`DeltaK.kEff ∘ ppDK = Poling.PP.kEff`, the three spellings of `2πc/x`).
The composed-model theorems themselves are appended to `Props/C03.lean`, `C06.lean`, `C07.lean`.
-/
namespace Spdc.Compose
open Spdc

/-! ### adapters -/

theorem inverse_signalPol (t : PM.PMType) : t.inverse.signalPol = t.idlerPol := by cases t <;> rfl
theorem inverse_idlerPol (t : PM.PMType) : t.inverse.idlerPol = t.signalPol := by cases t <;> rfl
theorem inverse_pumpPol (t : PM.PMType) : t.inverse.pumpPol = t.pumpPol := by cases t <;> rfl

theorem pmDK_idlerPol (t : PM.PMType) : polOfDK (pmDK t).idlerPol = polIndex t.idlerPol := by
  cases t <;> rfl

theorem polPM_polIndex (p : PM.Pol) : polPM (polIndex p) = p := by cases p <;> rfl

/-- the two models of `k_eff` (C03's and C19's) agree through the adapter (same values, a panic in
exactly the same cases; the panic texts differ) -/
theorem kEff_ppDK (p : Poling.PP ℝ) (ke : ℝ) : DeltaK.kEff (ppDK p) = .ok ke ↔ p.kEff = .ok ke := by
  cases p with
  | off => simp [ppDK, DeltaK.kEff, Poling.PP.kEff]
  | on period sign apod =>
    by_cases hp : (0.0 : ℝ) < period <;> cases sign <;>
      simp [ppDK, DeltaK.kEff, Poling.PP.kEff, DeltaK.signMul, Poling.Sign.mul, DeltaK.twoPi,
        Poling.twoPi, lit_one, hp]

theorem kEff_ppDK_of_ok {p : Poling.PP ℝ} {ke : ℝ} (h : p.kEff = .ok ke) : DeltaK.kEff (ppDK p) = .ok ke :=
  (kEff_ppDK p ke).mpr h

/-- the unit layer's and C03's `2πc/ω` -/
theorem wavelengthOfFreq_units (ω : ℝ) :
    DeltaK.wavelengthOfFreq ω = Units.frequencyToVacuumWavelength ω := by
  simp [DeltaK.wavelengthOfFreq, Units.frequencyToVacuumWavelength, Units.frequencyToWavelength,
    Units.twoPiC, Units.twoPi, DeltaK.twoPi, DeltaK.c0, Units.cLight]

theorem freqOfWavelength_units (l : ℝ) :
    DeltaK.freqOfWavelength l = Units.vacuumWavelengthToFrequency l := by
  simp [DeltaK.freqOfWavelength, Units.vacuumWavelengthToFrequency, Units.wavelengthToFrequency,
    Units.twoPiC, Units.twoPi, DeltaK.twoPi, DeltaK.c0, Units.cLight]

/-- the pump's centre frequency is `2πc/λ_p` of the primitive wavelength -/
theorem omegaP_eq (S : Setup ℝ) : omegaP S = Units.vacuumWavelengthToFrequency S.lamP := rfl

theorem omegaP_formula (S : Setup ℝ) : omegaP S = 2 * Real.pi * 299792458 / S.lamP := by
  have hc : (299792458.0 : ℝ) = 299792458 := by norm_num
  simp [omegaP_eq, Units.vacuumWavelengthToFrequency, Units.wavelengthToFrequency, Units.twoPiC,
    Units.twoPi_eq, Units.cLight, lit_one, hc]

/-- the signal's centre frequency is `2πc/λ_s` of the primitive wavelength -/
theorem signal_frequency (S : Setup ℝ) :
    (signalBeam S).frequency = Units.vacuumWavelengthToFrequency S.sig.lam := rfl

/-- the pump points along `ẑ` -/
theorem pump_direction (S : Setup ℝ) : (pumpBeam S).direction = ⟨0, 0, 1⟩ := by
  simp only [pumpBeam, Beam.step, Beam.setAngles, Beam.updateDirection, lit_zero,
    Units.normalizeAngle_zero, Units.normalizeAngleSigned_zero, Beam.directionFromPolar_eq,
    Beam.polarVector, Transc.sin, Transc.cos, Real.sin_zero, Real.cos_zero, mul_one, mul_zero]

/-- `frequency_to_vacuum_wavelength ∘ vacuum_wavelength_to_frequency = id` off zero -/
theorem wavelength_roundtrip {l : ℝ} (hl : l ≠ 0) :
    Units.frequencyToVacuumWavelength (Units.vacuumWavelengthToFrequency l) = l := by
  have hc : (299792458.0 : ℝ) = 299792458 := by norm_num
  have hpi := Real.pi_pos
  simp only [Units.vacuumWavelengthToFrequency, Units.frequencyToVacuumWavelength,
    Units.wavelengthToFrequency, Units.frequencyToWavelength, Units.twoPiC, Units.twoPi_eq,
    Units.cLight, lit_one, hc, mul_one]
  field_simp

/-- the pump's `vacuum_wavelength()` is the primitive `λ_p` -/
theorem pump_wavelength (S : Setup ℝ) (h : S.lamP ≠ 0) : Beam.vacuumWavelength (pumpBeam S) = S.lamP :=
  wavelength_roundtrip h

/-- the signal's `vacuum_wavelength()` is the primitive `λ_s` -/
theorem signal_wavelength (S : Setup ℝ) (h : S.sig.lam ≠ 0) :
    Beam.vacuumWavelength (signalBeam S) = S.sig.lam :=
  wavelength_roundtrip h

/-- an `"auto"` idler is the beam of the optimum idler of the composed inputs -/
theorem idlerBeam_auto (S : Setup ℝ) (h : S.idlerAuto = true) (i : Beam.Beam ℝ)
    (hi : idlerBeam S = .ok i) :
    ∃ o, DeltaK.optimumIdler (idlerIn S) = .ok o ∧ i = beamOfIdlerOut S o := by
  simp only [idlerBeam, h, if_true, autoIdler] at hi
  cases ho : DeltaK.optimumIdler (idlerIn S) with
  | ok o =>
    rw [ho] at hi
    simp only [Outcome.map] at hi
    exact ⟨o, rfl, by injection hi with hi; exact hi.symm⟩
  | err e => rw [ho] at hi; cases hi
  | panic e => rw [ho] at hi; cases hi

/-! ### exchange of signal and idler (explicit idler) -/

theorem signalBeam_swap (S : Setup ℝ) : signalBeam S.swap = explicitIdler S := by
  simp only [signalBeam, explicitIdler, Setup.swap, inverse_signalPol]

theorem explicitIdler_swap (S : Setup ℝ) : explicitIdler S.swap = signalBeam S := by
  simp only [signalBeam, explicitIdler, Setup.swap, inverse_idlerPol]

theorem pumpBeam_swap (S : Setup ℝ) : pumpBeam S.swap = pumpBeam S := by
  simp only [pumpBeam, Setup.swap, inverse_pumpPol]

theorem refractiveIndex_swap (S : Setup ℝ) (b : Beam.Beam ℝ) : refractiveIndex S.swap b = refractiveIndex S b := rfl

theorem pmBeam_swap (S : Setup ℝ) (b : Beam.Beam ℝ) (z0 : ℝ) : pmBeam S.swap b z0 = pmBeam S b z0 := rfl

theorem walkoff_swap (S : Setup ℝ) : walkoff S.swap = walkoff S := by
  unfold walkoff
  rw [pumpBeam_swap]
  rfl

theorem kEff_swap (S : Setup ℝ) : kEff S.swap = kEff S := rfl

theorem idlerBeam_explicit (S : Setup ℝ) (h : S.idlerAuto = false) : idlerBeam S = .ok (explicitIdler S) := by
  simp [idlerBeam, h]

/-- the composed coefficient inputs commute with the exchange: the joint-spectrum view of the
exchanged primitive setup is the exchanged view -/
theorem jsetupOf_swap (S : Setup ℝ) (rho ke : ℝ) :
    jsetupOf S.swap (signalBeam S) rho ke = (jsetupOf S (explicitIdler S) rho ke).swap := by
  simp only [jsetupOf, pmSetupOf, PM.JSetup.swap, PM.Setup.swap, signalBeam_swap, pumpBeam_swap,
    pmBeam_swap, refractiveIndex_swap]
  rfl

theorem jsetup_swap (S : Setup ℝ) (h : S.idlerAuto = false) :
    jsetup S.swap = (jsetup S).map PM.JSetup.swap := by
  have h' : S.swap.idlerAuto = false := h
  unfold jsetup
  rw [idlerBeam_explicit S h, idlerBeam_explicit S.swap h', walkoff_swap, kEff_swap, explicitIdler_swap]
  cases walkoff S with
  | ok rho =>
    cases kEff S with
    | ok ke => simp only [Outcome.bind, Outcome.map, jsetupOf_swap]
    | err e => rfl
    | panic s => rfl
  | err e => rfl
  | panic s => rfl

theorem omegaP_swap (S : Setup ℝ) : omegaP S.swap = omegaP S := by
  unfold omegaP; rw [pumpBeam_swap]

theorem offSupport_swap (S : Setup ℝ) (ωs ωi : ℝ) : offSupport S.swap ωi ωs = offSupport S ωs ωi := by
  unfold offSupport pumpAmplitude
  rw [omegaP_swap, PM.invalidFrequencies_comm, add_comm ωi ωs]
  rfl

/-! ### scaling of pump power and deff -/

theorem jsetup_scaled (S : Setup ℝ) (a b : ℝ) :
    jsetup (S.scaled a b) = (jsetup S).map fun J => J.scaled a b := by
  have h1 : idlerBeam (S.scaled a b) = idlerBeam S := rfl
  have h2 : walkoff (S.scaled a b) = walkoff S := rfl
  have h3 : kEff (S.scaled a b) = kEff S := rfl
  unfold jsetup
  rw [h1, h2, h3]
  cases idlerBeam S with
  | ok i =>
    cases walkoff S with
    | ok rho =>
      cases kEff S with
      | ok ke => rfl
      | err e => rfl
      | panic s => rfl
    | err e => rfl
    | panic s => rfl
  | err e => rfl
  | panic s => rfl

theorem offSupport_scaled (S : Setup ℝ) (a b ωs ωi : ℝ) :
    offSupport (S.scaled a b) ωs ωi = offSupport S ωs ωi := rfl

/-- a successful `jsetup` is an assembled view -/
theorem jsetup_ok {S : Setup ℝ} {J : PM.JSetup ℝ} (h : jsetup S = .ok J) :
    ∃ i rho ke, idlerBeam S = .ok i ∧ walkoff S = .ok rho ∧ kEff S = .ok ke ∧ J = jsetupOf S i rho ke := by
  unfold jsetup at h
  cases hi : idlerBeam S with
  | ok i =>
    cases hw : walkoff S with
    | ok rho =>
      cases hk : kEff S with
      | ok ke =>
        rw [hi, hw, hk] at h
        simp only [Outcome.bind] at h
        injection h with h
        exact ⟨i, rho, ke, rfl, rfl, rfl, h.symm⟩
      | err e => rw [hi, hw, hk] at h; cases h
      | panic e => rw [hi, hw, hk] at h; cases h
    | err e => rw [hi, hw] at h; cases h
    | panic e => rw [hi, hw] at h; cases h
  | err e => rw [hi] at h; cases h
  | panic e => rw [hi] at h; cases h

/-- the joint-spectrum view carries the primitive pump data unchanged -/
theorem jsetup_pump {S : Setup ℝ} {J : PM.JSetup ℝ} (h : jsetup S = .ok J) :
    J.omegaP = omegaP S ∧ J.bandwidth = S.bandwidth ∧ J.threshold = S.threshold := by
  obtain ⟨i, rho, ke, -, -, -, rfl⟩ := jsetup_ok h
  exact ⟨rfl, rfl, rfl⟩

/-! ### the support test in words -/

theorem offSupport_iff (S : Setup ℝ) (ωs ωi : ℝ) :
    offSupport S ωs ωi = true ↔
      (pumpAmplitude S (ωs + ωi) < S.threshold ∨ ωs ≤ 0 ∨ ωi ≤ 0 ∨ omegaP S < ωs ∨ omegaP S < ωi
        ∨ 3 / 4 * omegaP S < |ωs - ωi|) := by
  unfold offSupport
  rw [Bool.or_eq_true, decide_eq_true_iff, PM.invalidFrequencies_iff]
  tauto

/-! ### the two Simpson paths -/

/-- the quadrature layer's Simpson weights are the phase-matching layer's -/
theorem simpsonW_eq (n d : Nat) : (Quad.simpsonW n d : ℝ) = PM.simpsonWeight n d := rfl

/-- `Quad.simpson` on `[-1, 1]` scaled by `½` is `PM.pmCoincSimpson` (two transcriptions of the same
Rust: the generic `math::simpson` and its use inside `phasematch_fiber_coupling`), whenever the
division count passes the two assertions (the panic texts of the two transcriptions differ) -/
theorem half_simpson_eq (P : PM.Setup ℝ) (divs : Nat) (ωs ωi : ℝ)
    (h1 : ¬ divs + divs % 2 < 2) (h2 : ¬ divs + divs % 2 - 2 < 4) :
    (Quad.simpson (PM.pmIntegrand P ωs ωi) (-(1.0 : ℝ)) (1.0 : ℝ) divs).map (Cx.smul (0.5 : ℝ))
      = PM.pmCoincSimpson P divs ωs ωi := by
  unfold Quad.simpson Quad.simpsonDivs PM.pmCoincSimpson
  simp only [h1, h2, if_false, Outcome.map]
  congr 1
  simp only [Quad.simpsonCore, Quad.simpsonSum, PM.pmCoincQ, PM.quadSum, PM.simpsonNodes,
    List.map_map]
  rfl

end Spdc.Compose
