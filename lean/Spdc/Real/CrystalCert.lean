import Spdc.Real.CrystalAxes
import Spdc.Real.CrystalCertData
import Mathlib.Data.Rat.Cast.Order
import Mathlib.Data.Rat.Cast.CharZero
/-!
# C01-T4: antitone-partition certificates (kernel-checked) and the optical-class lemmas
-/
namespace Spdc.Crystals
open Set

/-- last point of the chain `p :: pts` -/
def lastQ : ℚ → List ℚ → ℚ
  | p, [] => p
  | _, q :: r => lastQ q r

/-- Boolean certificate: along `p :: pts` the points increase and `g pᵢ < f pᵢ₊₁` -/
def chainOK (f g : ℚ → ℚ) : ℚ → List ℚ → Bool
  | _, [] => true
  | p, q :: rest => decide (p ≤ q) && decide (g p < f q) && chainOK f g q rest

theorem le_lastQ (f g : ℚ → ℚ) : ∀ (pts : List ℚ) (p : ℚ), chainOK f g p pts = true → p ≤ lastQ p pts
  | [], p, _ => le_refl p
  | q :: rest, p, h => by
    simp only [chainOK, Bool.and_eq_true, decide_eq_true_eq] at h
    exact le_trans h.1.1 (le_lastQ f g rest q h.2)

/-- **antitone-partition certificate**: two antitone functions `f`, `g` on `[p, b]`; if along a
partition `p = p₀ ≤ p₁ ≤ … ≤ p_N = b` one has `g pᵢ < f pᵢ₊₁`, then `g < f` on all of `[p, b]`.
The partition is checked on rational evaluations `fQ`, `gQ` that cast to `f`, `g`. -/
theorem gt_of_chainOK {f g : ℝ → ℝ} {fQ gQ : ℚ → ℚ} (hf : ∀ q : ℚ, ((fQ q : ℚ) : ℝ) = f q)
    (hg : ∀ q : ℚ, ((gQ q : ℚ) : ℝ) = g q) :
    ∀ (pts : List ℚ) (p : ℚ), pts ≠ [] → chainOK fQ gQ p pts = true →
      AntitoneOn f (Icc (p : ℝ) (lastQ p pts)) → AntitoneOn g (Icc (p : ℝ) (lastQ p pts)) →
      ∀ x ∈ Icc (p : ℝ) (lastQ p pts), g x < f x
  | [], _, hne, _, _, _ => absurd rfl hne
  | q :: rest, p, _, h, af, ag => by
    intro x hx
    have hh := h
    simp only [chainOK, Bool.and_eq_true, decide_eq_true_eq] at hh
    obtain ⟨⟨hpq, hgf⟩, hrest⟩ := hh
    have hqb : q ≤ lastQ q rest := le_lastQ fQ gQ rest q hrest
    have hpqR : (p : ℝ) ≤ q := by exact_mod_cast hpq
    have hqbR : (q : ℝ) ≤ (lastQ q rest : ℚ) := by exact_mod_cast hqb
    have hgfR : g p < f q := by rw [← hf, ← hg]; exact_mod_cast hgf
    simp only [lastQ] at af ag hx ⊢
    by_cases hxq : x ≤ q
    · have h1 : g x ≤ g p := ag ⟨le_refl _, le_trans hpqR hqbR⟩ hx hx.1
      have h2 : f q ≤ f x := af hx ⟨hpqR, hqbR⟩ hxq
      linarith
    · have hxq' : (q : ℝ) < x := not_le.mp hxq
      have hne : rest ≠ [] := by
        rintro rfl
        simp only [lastQ] at hx
        exact absurd hx.2 (not_le.mpr hxq')
      have sub : Icc (q : ℝ) (lastQ q rest : ℚ) ⊆ Icc (p : ℝ) (lastQ q rest : ℚ) :=
        Icc_subset_Icc_left hpqR
      exact gt_of_chainOK hf hg rest q hne hrest (af.mono sub) (ag.mono sub) x ⟨hxq'.le, hx.2⟩

/-- from a gap between squared indices to a gap between indices, with room `t ≤ δ` for the
difference of the thermo-optic terms -/
theorem lt_of_sq_gap {Ss Sb δ t : ℝ} (h0 : 0 ≤ Ss) (hU : Ss < 15.7609) (hδ : 0 ≤ δ) (ht : t ≤ δ)
    (h : Ss + (7.94 * δ + δ * δ) < Sb) : Real.sqrt Ss + t < Real.sqrt Sb := by
  have hs : Real.sqrt Ss < 3.97 := by
    rw [show (3.97 : ℝ) = Real.sqrt (3.97 ^ 2) by rw [Real.sqrt_sq (by norm_num)]]
    exact Real.sqrt_lt_sqrt h0 (by norm_num at hU ⊢; linarith)
  have hs0 : 0 ≤ Real.sqrt Ss := Real.sqrt_nonneg _
  have hsq : Real.sqrt Ss * Real.sqrt Ss = Ss := Real.mul_self_sqrt h0
  have : Real.sqrt Ss + δ < Real.sqrt Sb := by
    rw [Real.lt_sqrt (by linarith)]
    nlinarith
  linarith


/-- wrapper: certificate ⇒ gap on the whole window -/
theorem gap_of_cert {f s : ℝ → ℝ} {fQ sQ : ℚ → ℚ} {a b : ℝ} (hf : ∀ q : ℚ, ((fQ q : ℚ) : ℝ) = f q)
    (hs : ∀ q : ℚ, ((sQ q : ℚ) : ℝ) = s q) (mQ p : ℚ) (pts : List ℚ) (hne : pts ≠ [])
    (hok : chainOK fQ (fun q => sQ q + mQ) p pts = true) (ha : (p : ℝ) = a)
    (hb : ((lastQ p pts : ℚ) : ℝ) = b) (af : StrictAntiOn f (Icc a b))
    (as : StrictAntiOn s (Icc a b)) : ∀ x ∈ Icc a b, s x + (mQ : ℝ) < f x := by
  subst ha hb
  have ag : AntitoneOn (fun x => s x + (mQ : ℝ)) (Icc (p : ℝ) (lastQ p pts : ℚ)) := by
    intro x hx y hy hxy
    have := as.antitoneOn hx hy hxy
    simp only; linarith
  exact gt_of_chainOK (f := f) (g := fun x => s x + (mQ : ℝ)) (fQ := fQ) (gQ := fun q => sQ q + mQ) hf
    (by intro q; push_cast; rw [hs]) pts p hne hok af.antitoneOn ag

/-! casts of the rational evaluations -/
theorem cast_bboNoSq (q : ℚ) : ((bboNoSq q : ℚ) : ℝ) = bboNoSq (q : ℝ) := by
  simp only [bboNoSq, sellA, sqr]; push_cast; rfl
theorem cast_bboNeSq (q : ℚ) : ((bboNeSq q : ℚ) : ℝ) = bboNeSq (q : ℝ) := by
  simp only [bboNeSq, sellA, sqr]; push_cast; rfl
theorem cast_ktpNxSq (q : ℚ) : ((ktpNxSq q : ℚ) : ℝ) = ktpNxSq (q : ℝ) := by
  simp only [ktpNxSq, sellB, sqr]; push_cast; rfl
theorem cast_ktpNySqLo (q : ℚ) : ((ktpNySqLo q : ℚ) : ℝ) = ktpNySqLo (q : ℝ) := by
  simp only [ktpNySqLo, sellB, sqr]; push_cast; rfl
theorem cast_ktpNySqHi (q : ℚ) : ((ktpNySqHi q : ℚ) : ℝ) = ktpNySqHi (q : ℝ) := by
  simp only [ktpNySqHi, sellB, sqr]; push_cast; rfl
theorem cast_ktpNzSq (q : ℚ) : ((ktpNzSq q : ℚ) : ℝ) = ktpNzSq (q : ℝ) := by
  simp only [ktpNzSq, sellB, sqr]; push_cast; rfl
theorem cast_biboNxSq (q : ℚ) : ((biboNxSq q : ℚ) : ℝ) = biboNxSq (q : ℝ) := by
  simp only [biboNxSq, sellA, sqr]; push_cast; rfl
theorem cast_biboNySq (q : ℚ) : ((biboNySq q : ℚ) : ℝ) = biboNySq (q : ℝ) := by
  simp only [biboNySq, sellA, sqr]; push_cast; rfl
theorem cast_biboNzSq (q : ℚ) : ((biboNzSq q : ℚ) : ℝ) = biboNzSq (q : ℝ) := by
  simp only [biboNzSq, sellA, sqr]; push_cast; rfl
theorem cast_lnNoSq (q : ℚ) : ((lnNoSq q : ℚ) : ℝ) = lnNoSq (q : ℝ) := by
  simp only [lnNoSq, sellA, sqr]; push_cast; rfl
theorem cast_lnNeSq (q : ℚ) : ((lnNeSq q : ℚ) : ℝ) = lnNeSq (q : ℝ) := by
  simp only [lnNeSq, sellA, sqr]; push_cast; rfl
theorem cast_kdpNoSq (q : ℚ) : ((kdpNoSq q : ℚ) : ℝ) = kdpNoSq (q : ℝ) := by
  simp only [kdpNoSq, sellK, sqr]; push_cast; rfl
theorem cast_kdpNeSq (q : ℚ) : ((kdpNeSq q : ℚ) : ℝ) = kdpNeSq (q : ℝ) := by
  simp only [kdpNeSq, sellK, sqr]; push_cast; rfl
theorem cast_ags1NoSq (q : ℚ) : ((ags1NoSq q : ℚ) : ℝ) = ags1NoSq (q : ℝ) := by
  simp only [ags1NoSq, sellInv, sqr]; push_cast; rfl
theorem cast_ags1NeSq (q : ℚ) : ((ags1NeSq q : ℚ) : ℝ) = ags1NeSq (q : ℝ) := by
  simp only [ags1NeSq, sellInv, sqr]; push_cast; rfl
theorem cast_ags2NoSq (q : ℚ) : ((ags2NoSq q : ℚ) : ℝ) = ags2NoSq (q : ℝ) := by
  simp only [ags2NoSq, sellInv, sqr]; push_cast; rfl
theorem cast_ags2NeSq (q : ℚ) : ((ags2NeSq q : ℚ) : ℝ) = ags2NeSq (q : ℝ) := by
  simp only [ags2NeSq, sellInv, sqr]; push_cast; rfl
theorem cast_lio2NoSq (q : ℚ) : ((lio2NoSq q : ℚ) : ℝ) = lio2NoSq (q : ℝ) := by
  simp only [lio2NoSq, sellP, sqr]; push_cast; rfl
theorem cast_lio2NeSq (q : ℚ) : ((lio2NeSq q : ℚ) : ℝ) = lio2NeSq (q : ℝ) := by
  simp only [lio2NeSq, sellP, sqr]; push_cast; rfl
theorem cast_lio1NoSq (q : ℚ) : ((lio1NoSq q : ℚ) : ℝ) = lio1NoSq (q : ℝ) := by
  simp only [lio1NoSq, sellStd]; push_cast; rfl
theorem cast_lio1NeSq (q : ℚ) : ((lio1NeSq q : ℚ) : ℝ) = lio1NeSq (q : ℝ) := by
  simp only [lio1NeSq, sellStd]; push_cast; rfl
theorem cast_agsNoSq (q : ℚ) : ((agsNoSq q : ℚ) : ℝ) = agsNoSq (q : ℝ) := by
  simp only [agsNoSq, sellStd]; push_cast; rfl
theorem cast_agsNeSq (q : ℚ) : ((agsNeSq q : ℚ) : ℝ) = agsNeSq (q : ℝ) := by
  simp only [agsNeSq, sellStd]; push_cast; rfl

/-! the thirteen gap certificates (margin `7.94 δ + δ²`, δ = 180 K × |Δ dn/dT|) -/
theorem bbo_chain : chainOK bboNoSq (fun q => bboNeSq q +
    (7.94 * Cert.bboDelta + Cert.bboDelta * Cert.bboDelta)) (189/1000) Cert.bboPts = true := by
  decide +kernel
theorem bbo_gap : ∀ l ∈ Icc (0.189 : ℝ) 3.5, bboNeSq l +
    (7.94 * ((Cert.bboDelta : ℚ) : ℝ) + ((Cert.bboDelta : ℚ) : ℝ) * ((Cert.bboDelta : ℚ) : ℝ)) < bboNoSq l := by
  have h := gap_of_cert (a := 0.189) (b := 3.5) cast_bboNoSq cast_bboNeSq
    (7.94 * Cert.bboDelta + Cert.bboDelta * Cert.bboDelta) (189/1000) Cert.bboPts (by decide)
    bbo_chain (by norm_num) (by norm_num [lastQ, Cert.bboPts]) bboNo_good.anti bboNe_good.anti
  intro l hl
  have := h l hl
  push_cast at this
  exact this
theorem ktpZX_chain : chainOK ktpNzSq (fun q => ktpNxSq q +
    (7.94 * Cert.ktpZXDelta + Cert.ktpZXDelta * Cert.ktpZXDelta)) (35/100) Cert.ktpZXPts = true := by
  decide +kernel
theorem ktpZX_gap : ∀ l ∈ Icc (0.35 : ℝ) 3.5, ktpNxSq l +
    (7.94 * ((Cert.ktpZXDelta : ℚ) : ℝ) + ((Cert.ktpZXDelta : ℚ) : ℝ) * ((Cert.ktpZXDelta : ℚ) : ℝ)) < ktpNzSq l := by
  have h := gap_of_cert (a := 0.35) (b := 3.5) cast_ktpNzSq cast_ktpNxSq
    (7.94 * Cert.ktpZXDelta + Cert.ktpZXDelta * Cert.ktpZXDelta) (35/100) Cert.ktpZXPts (by decide)
    ktpZX_chain (by norm_num) (by norm_num [lastQ, Cert.ktpZXPts]) ktpNz_good.anti ktpNx_good.anti
  intro l hl
  have := h l hl
  push_cast at this
  exact this
theorem ktpZYLo_chain : chainOK ktpNzSq (fun q => ktpNySqLo q +
    (7.94 * Cert.ktpZYLoDelta + Cert.ktpZYLoDelta * Cert.ktpZYLoDelta)) (35/100) Cert.ktpZYLoPts = true := by
  decide +kernel
theorem ktpZYLo_gap : ∀ l ∈ Icc (0.35 : ℝ) 3.5, ktpNySqLo l +
    (7.94 * ((Cert.ktpZYLoDelta : ℚ) : ℝ) + ((Cert.ktpZYLoDelta : ℚ) : ℝ) * ((Cert.ktpZYLoDelta : ℚ) : ℝ)) < ktpNzSq l := by
  have h := gap_of_cert (a := 0.35) (b := 3.5) cast_ktpNzSq cast_ktpNySqLo
    (7.94 * Cert.ktpZYLoDelta + Cert.ktpZYLoDelta * Cert.ktpZYLoDelta) (35/100) Cert.ktpZYLoPts (by decide)
    ktpZYLo_chain (by norm_num) (by norm_num [lastQ, Cert.ktpZYLoPts]) ktpNz_good.anti ktpNyLo_good.anti
  intro l hl
  have := h l hl
  push_cast at this
  exact this
theorem ktpZYHi_chain : chainOK ktpNzSq (fun q => ktpNySqHi q +
    (7.94 * Cert.ktpZYHiDelta + Cert.ktpZYHiDelta * Cert.ktpZYHiDelta)) (35/100) Cert.ktpZYHiPts = true := by
  decide +kernel
theorem ktpZYHi_gap : ∀ l ∈ Icc (0.35 : ℝ) 3.5, ktpNySqHi l +
    (7.94 * ((Cert.ktpZYHiDelta : ℚ) : ℝ) + ((Cert.ktpZYHiDelta : ℚ) : ℝ) * ((Cert.ktpZYHiDelta : ℚ) : ℝ)) < ktpNzSq l := by
  have h := gap_of_cert (a := 0.35) (b := 3.5) cast_ktpNzSq cast_ktpNySqHi
    (7.94 * Cert.ktpZYHiDelta + Cert.ktpZYHiDelta * Cert.ktpZYHiDelta) (35/100) Cert.ktpZYHiPts (by decide)
    ktpZYHi_chain (by norm_num) (by norm_num [lastQ, Cert.ktpZYHiPts]) ktpNz_good.anti ktpNyHi_good.anti
  intro l hl
  have := h l hl
  push_cast at this
  exact this
theorem biboZX_chain : chainOK biboNzSq (fun q => biboNxSq q +
    (7.94 * Cert.biboZXDelta + Cert.biboZXDelta * Cert.biboZXDelta)) (286/1000) Cert.biboZXPts = true := by
  decide +kernel
theorem biboZX_gap : ∀ l ∈ Icc (0.286 : ℝ) 2.5, biboNxSq l +
    (7.94 * ((Cert.biboZXDelta : ℚ) : ℝ) + ((Cert.biboZXDelta : ℚ) : ℝ) * ((Cert.biboZXDelta : ℚ) : ℝ)) < biboNzSq l := by
  have h := gap_of_cert (a := 0.286) (b := 2.5) cast_biboNzSq cast_biboNxSq
    (7.94 * Cert.biboZXDelta + Cert.biboZXDelta * Cert.biboZXDelta) (286/1000) Cert.biboZXPts (by decide)
    biboZX_chain (by norm_num) (by norm_num [lastQ, Cert.biboZXPts]) biboNz_good.anti biboNx_good.anti
  intro l hl
  have := h l hl
  push_cast at this
  exact this
theorem biboZY_chain : chainOK biboNzSq (fun q => biboNySq q +
    (7.94 * Cert.biboZYDelta + Cert.biboZYDelta * Cert.biboZYDelta)) (286/1000) Cert.biboZYPts = true := by
  decide +kernel
theorem biboZY_gap : ∀ l ∈ Icc (0.286 : ℝ) 2.5, biboNySq l +
    (7.94 * ((Cert.biboZYDelta : ℚ) : ℝ) + ((Cert.biboZYDelta : ℚ) : ℝ) * ((Cert.biboZYDelta : ℚ) : ℝ)) < biboNzSq l := by
  have h := gap_of_cert (a := 0.286) (b := 2.5) cast_biboNzSq cast_biboNySq
    (7.94 * Cert.biboZYDelta + Cert.biboZYDelta * Cert.biboZYDelta) (286/1000) Cert.biboZYPts (by decide)
    biboZY_chain (by norm_num) (by norm_num [lastQ, Cert.biboZYPts]) biboNz_good.anti biboNy_good.anti
  intro l hl
  have := h l hl
  push_cast at this
  exact this
theorem ln_chain : chainOK lnNoSq (fun q => lnNeSq q +
    (7.94 * Cert.lnDelta + Cert.lnDelta * Cert.lnDelta)) (4/10) Cert.lnPts = true := by
  decide +kernel
theorem ln_gap : ∀ l ∈ Icc (0.4 : ℝ) 3.4, lnNeSq l +
    (7.94 * ((Cert.lnDelta : ℚ) : ℝ) + ((Cert.lnDelta : ℚ) : ℝ) * ((Cert.lnDelta : ℚ) : ℝ)) < lnNoSq l := by
  have h := gap_of_cert (a := 0.4) (b := 3.4) cast_lnNoSq cast_lnNeSq
    (7.94 * Cert.lnDelta + Cert.lnDelta * Cert.lnDelta) (4/10) Cert.lnPts (by decide)
    ln_chain (by norm_num) (by norm_num [lastQ, Cert.lnPts]) lnNo_good.anti lnNe_good.anti
  intro l hl
  have := h l hl
  push_cast at this
  exact this
theorem kdp_chain : chainOK kdpNoSq (fun q => kdpNeSq q +
    (7.94 * Cert.kdpDelta + Cert.kdpDelta * Cert.kdpDelta)) (2/10) Cert.kdpPts = true := by
  decide +kernel
theorem kdp_gap : ∀ l ∈ Icc (0.2 : ℝ) 1.5, kdpNeSq l +
    (7.94 * ((Cert.kdpDelta : ℚ) : ℝ) + ((Cert.kdpDelta : ℚ) : ℝ) * ((Cert.kdpDelta : ℚ) : ℝ)) < kdpNoSq l := by
  have h := gap_of_cert (a := 0.2) (b := 1.5) cast_kdpNoSq cast_kdpNeSq
    (7.94 * Cert.kdpDelta + Cert.kdpDelta * Cert.kdpDelta) (2/10) Cert.kdpPts (by decide)
    kdp_chain (by norm_num) (by norm_num [lastQ, Cert.kdpPts]) kdpNo_good.anti kdpNe_good.anti
  intro l hl
  have := h l hl
  push_cast at this
  exact this
theorem ags1_chain : chainOK ags1NoSq (fun q => ags1NeSq q +
    (7.94 * Cert.ags1Delta + Cert.ags1Delta * Cert.ags1Delta)) (1) Cert.ags1Pts = true := by
  decide +kernel
theorem ags1_gap : ∀ l ∈ Icc (1 : ℝ) 13.5, ags1NeSq l +
    (7.94 * ((Cert.ags1Delta : ℚ) : ℝ) + ((Cert.ags1Delta : ℚ) : ℝ) * ((Cert.ags1Delta : ℚ) : ℝ)) < ags1NoSq l := by
  have h := gap_of_cert (a := 1) (b := 13.5) cast_ags1NoSq cast_ags1NeSq
    (7.94 * Cert.ags1Delta + Cert.ags1Delta * Cert.ags1Delta) (1) Cert.ags1Pts (by decide)
    ags1_chain (by norm_num) (by norm_num [lastQ, Cert.ags1Pts]) ags1No_good.anti ags1Ne_good.anti
  intro l hl
  have := h l hl
  push_cast at this
  exact this
theorem ags2_chain : chainOK ags2NoSq (fun q => ags2NeSq q +
    (7.94 * Cert.ags2Delta + Cert.ags2Delta * Cert.ags2Delta)) (1) Cert.ags2Pts = true := by
  decide +kernel
theorem ags2_gap : ∀ l ∈ Icc (1 : ℝ) 13.5, ags2NeSq l +
    (7.94 * ((Cert.ags2Delta : ℚ) : ℝ) + ((Cert.ags2Delta : ℚ) : ℝ) * ((Cert.ags2Delta : ℚ) : ℝ)) < ags2NoSq l := by
  have h := gap_of_cert (a := 1) (b := 13.5) cast_ags2NoSq cast_ags2NeSq
    (7.94 * Cert.ags2Delta + Cert.ags2Delta * Cert.ags2Delta) (1) Cert.ags2Pts (by decide)
    ags2_chain (by norm_num) (by norm_num [lastQ, Cert.ags2Pts]) ags2No_good.anti ags2Ne_good.anti
  intro l hl
  have := h l hl
  push_cast at this
  exact this
theorem lio2_chain : chainOK lio2NoSq (fun q => lio2NeSq q +
    (7.94 * Cert.lio2Delta + Cert.lio2Delta * Cert.lio2Delta)) (3/10) Cert.lio2Pts = true := by
  decide +kernel
theorem lio2_gap : ∀ l ∈ Icc (0.3 : ℝ) 5, lio2NeSq l +
    (7.94 * ((Cert.lio2Delta : ℚ) : ℝ) + ((Cert.lio2Delta : ℚ) : ℝ) * ((Cert.lio2Delta : ℚ) : ℝ)) < lio2NoSq l := by
  have h := gap_of_cert (a := 0.3) (b := 5) cast_lio2NoSq cast_lio2NeSq
    (7.94 * Cert.lio2Delta + Cert.lio2Delta * Cert.lio2Delta) (3/10) Cert.lio2Pts (by decide)
    lio2_chain (by norm_num) (by norm_num [lastQ, Cert.lio2Pts]) lio2No_good.anti lio2Ne_good.anti
  intro l hl
  have := h l hl
  push_cast at this
  exact this
theorem lio1_chain : chainOK lio1NoSq (fun q => lio1NeSq q +
    (7.94 * Cert.lio1Delta + Cert.lio1Delta * Cert.lio1Delta)) (3/10) Cert.lio1Pts = true := by
  decide +kernel
theorem lio1_gap : ∀ l ∈ Icc (0.3 : ℝ) 5, lio1NeSq l +
    (7.94 * ((Cert.lio1Delta : ℚ) : ℝ) + ((Cert.lio1Delta : ℚ) : ℝ) * ((Cert.lio1Delta : ℚ) : ℝ)) < lio1NoSq l := by
  have h := gap_of_cert (a := 0.3) (b := 5) cast_lio1NoSq cast_lio1NeSq
    (7.94 * Cert.lio1Delta + Cert.lio1Delta * Cert.lio1Delta) (3/10) Cert.lio1Pts (by decide)
    lio1_chain (by norm_num) (by norm_num [lastQ, Cert.lio1Pts]) lio1No_good.anti lio1Ne_good.anti
  intro l hl
  have := h l hl
  push_cast at this
  exact this
theorem ags_chain : chainOK agsNoSq (fun q => agsNeSq q +
    (7.94 * Cert.agsDelta + Cert.agsDelta * Cert.agsDelta)) (5/10) Cert.agsPts = true := by
  decide +kernel
theorem ags_gap : ∀ l ∈ Icc (0.5 : ℝ) 13, agsNeSq l +
    (7.94 * ((Cert.agsDelta : ℚ) : ℝ) + ((Cert.agsDelta : ℚ) : ℝ) * ((Cert.agsDelta : ℚ) : ℝ)) < agsNoSq l := by
  have h := gap_of_cert (a := 0.5) (b := 13) cast_agsNoSq cast_agsNeSq
    (7.94 * Cert.agsDelta + Cert.agsDelta * Cert.agsDelta) (5/10) Cert.agsPts (by decide)
    ags_chain (by norm_num) (by norm_num [lastQ, Cert.agsPts]) agsNo_good.anti agsNe_good.anti
  intro l hl
  have := h l hl
  push_cast at this
  exact this

end Spdc.Crystals
