import Spdc.Model.Grid
import Spdc.Model.Wire
/-! Line-protocol handlers for the grid family (C14, C15) — Float instance of the model. -/
namespace Spdc.Driver.Grid
open Spdc Spdc.Grid Spdc.Wire

def optFl : Option Float → String
  | some x => fl x
  | none => "-"

def pairs (l : List (Float × Float)) : String :=
  " ".intercalate (l.map fun p => fl p.1 ++ " " ++ fl p.2)

def parseScript (s : String) : List Bool := s.toList.filterMap fun c =>
  if c = 'F' then some false else if c = 'B' then some true else none

/-- preorder token list `n<k>` / `l`, comma separated -/
partial def parseTree : List String → Option (SplitTree × List String)
  | "l" :: r => some (.leaf, r)
  | t :: r =>
    match t.toList with
    | 'n' :: ds =>
      match (String.ofList ds).toNat? with
      | some k =>
        match parseTree r with
        | some (l, r1) =>
          match parseTree r1 with
          | some (rt, r2) => some (.node k l rt, r2)
          | none => none
        | none => none
      | none => none
    | _ => none
  | [] => none

def steps? (a b n : String) : Option (Steps Float) := do
  let a ← parseFl a; let b ← parseFl b; let n ← parseNat n
  pure ⟨a, b, n⟩

def outList (o : Outcome (List Nat)) : String :=
  match o with
  | .ok l => " ".intercalate (l.map toString)
  | .err e => "ERR:" ++ e
  | .panic _ => "PANIC"

def handle (op : String) (args : List String) : Option String :=
  match op, args with
  | "steps", [a, b, n] => do
    let s ← steps? a b n
    pure (fls s.collect)
  | "steps_drain", [a, b, n, script] => do
    let s ← steps? a b n
    pure (" ".intercalate ((s.iter.drain (parseScript script)).map optFl))
  | "steps_lens", [a, b, n, script] => do
    let s ← steps? a b n
    pure (" ".intercalate ((s.iter.len :: s.iter.drainLens (parseScript script)).map toString))
  | "steps2d_lens", [ax, bx, nx, ay, by', ny, script] => do
    let x ← steps? ax bx nx; let y ← steps? ay by' ny
    let s : Steps2D Float := ⟨x, y⟩
    let it : Iter2 Float := ⟨s, 0, s.len, 0, s.len⟩
    pure (" ".intercalate ((it.len :: it.drainLens (parseScript script)).map toString))
  | "steps_width", [a, b, n] => do
    let s ← steps? a b n
    pure (fl s.divisionWidth)
  | "steps2d", [ax, bx, nx, ay, by', ny] => do
    let x ← steps? ax bx nx; let y ← steps? ay by' ny
    pure (pairs (Steps2D.collect ⟨x, y⟩))
  | "steps2d_drain", [ax, bx, nx, ay, by', ny, script] => do
    let x ← steps? ax bx nx; let y ← steps? ay by' ny
    let s : Steps2D Float := ⟨x, y⟩
    let it : Iter2 Float := ⟨s, 0, s.len, 0, s.len⟩
    pure (" ".intercalate ((it.drain (parseScript script)).map fun
      | some p => fl p.1 ++ " " ++ fl p.2
      | none => "-"))
  | "idx2", [i, c] => do
    let i ← parseNat i; let c ← parseNat c
    if c = 0 then pure "PANIC" else
    let p := get2dIndices i c
    pure s!"{p.1} {p.2}"
  | "idx1", [c, r, cols] => do
    let c ← parseNat c; let r ← parseNat r; let cols ← parseNat cols
    pure (match get1dIndex c r cols with
      | .ok n => toString n
      | _ => "PANIC")
  | "transpose", cols :: vs => do
    let cols ← parseNat cols
    let v ← vs.mapM parseNat
    pure (outList (transposeVec v cols))
  | "split1", [a, b, n, k] => do
    let s ← steps? a b n; let k ← parseNat k
    pure (match split1 s k with
      | .ok (l, r) => s!"{l.n} {r.n} " ++ fls (l.collect ++ r.collect)
      | _ => "PANIC")
  | "split2", [ax, bx, nx, ay, by', ny, k] => do
    let x ← steps? ax bx nx; let y ← steps? ay by' ny; let k ← parseNat k
    let s : Steps2D Float := ⟨x, y⟩
    pure (match split2 s.producer k with
      | .ok (l, r) => s!"{l.len} {r.len} " ++ pairs (l.collect ++ r.collect)
      | _ => "PANIC")
  | "tree1", [a, b, n, tree] => do
    let s ← steps? a b n
    let (t, _) ← parseTree (tree.splitOn ",")
    pure (match leaves1 s t with
      | some l => fls l
      | none => "PANIC")
  | "tree2", [ax, bx, nx, ay, by', ny, tree] => do
    let x ← steps? ax bx nx; let y ← steps? ay by' ny
    let (t, _) ← parseTree (tree.splitOn ",")
    let s : Steps2D Float := ⟨x, y⟩
    pure (match leaves2 s.producer t with
      | some l => pairs l
      | none => "PANIC")
  | "conv_recip", [k, ax, bx, nx, ay, by', ny] => do
    let k ← parseFl k
    let x ← steps? ax bx nx; let y ← steps? ay by' ny
    let r := convRecip k (⟨x, y⟩ : Steps2D Float)
    pure s!"{fl r.x.a} {fl r.x.b} {r.x.n} {fl r.y.a} {fl r.y.b} {r.y.n}"
  | "to_sumdiff", [ax, bx, nx, ay, by', ny] => do
    let x ← steps? ax bx nx; let y ← steps? ay by' ny
    let r := toSumDiff (⟨x, y⟩ : Steps2D Float)
    pure s!"{fl r.x.a} {fl r.x.b} {r.x.n} {fl r.y.a} {fl r.y.b} {r.y.n}"
  | "from_sumdiff", [ax, bx, nx, ay, by', ny] => do
    let x ← steps? ax bx nx; let y ← steps? ay by' ny
    let r := fromSumDiff (⟨x, y⟩ : Steps2D Float)
    pure s!"{fl r.x.a} {fl r.x.b} {r.x.n} {fl r.y.a} {fl r.y.b} {r.y.n}"
  | "sd_points", [ax, bx, nx, ay, by', ny] => do
    let x ← steps? ax bx nx; let y ← steps? ay by' ny
    pure (pairs ((Steps2D.collect (⟨x, y⟩ : Steps2D Float)).map sumDiffPoint))
  | _, _ => none

end Spdc.Driver.Grid
