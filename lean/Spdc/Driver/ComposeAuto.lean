import Spdc.Model.ComposeAuto
import Spdc.Driver.Compose
import Spdc.Driver.Config
/-!
Line-protocol handlers for part 2 of the composed model (`Spdc/Model/ComposeAuto.lean`) — Float.

* `cmpa_from_config <key=value descriptor of Driver/Config>`            ⇒ `OK <setup tokens>` | `ERR:<class>` | `PANIC`
* `cmpa_jsi_from_config <descriptor> | ωs ωi divs`                        ⇒ jsi
* `cmpa_snell <primitive setup of Driver/Compose> | external`            ⇒ internal angle of the signal
* `cmpa_opt_theta | cmpa_opt_period | cmpa_sign <primitive setup>`        ⇒ value | `ERR` | `PANIC`
* `cmpa_as_optimum <primitive setup>` ⇒ `OK cθ <beams> <O | P signed-period> z0s z0i` | `ERR` | `PANIC`

No value computed by the real crate is on any of these lines.
-/
namespace Spdc.Driver.ComposeAuto
open Spdc Spdc.Compose Spdc.Wire

/-- error classes as the harness prints them -/
def errClass (e : String) : String :=
  if e.startsWith "Could not determine poling period" then "period"
  else if e.startsWith "Signal wavelength must be greater" then "ls<=lp"
  else e

def outcomeTok {β : Type} (f : β → String) : Outcome β → String
  | .ok b => "OK " ++ f b
  | .err e => "ERR:" ++ errClass e
  | .panic _ => "PANIC"

def config? (args : List String) : Option (Cfg.Config Float) :=
  (Driver.Config.rawConfig (Driver.Config.kvs args)).map (·.fill)

def polingTok (S : Setup Float) : String :=
  match S.poling with
  | .off => "O"
  | .on p _ => "P " ++ fl p

def optimumTokens (S : Setup Float) : String :=
  s!"{fl S.cTheta} {Driver.Compose.beamsStr S} {polingTok S} {fl S.sig.z0} {fl S.idl.z0}"

def handle (op : String) (args : List String) : Option String := do
  if !op.startsWith "cmpa_" then none else
  let secs := Driver.Compose.splitBar args
  let xs := secs.getD 1 []
  match op with
  | "cmpa_from_config" => do
    let cfg ← config? (secs.getD 0 [])
    pure (outcomeTok Driver.Config.setupTokens (trySpdc cfg))
  | "cmpa_jsi_from_config" => do
    let cfg ← config? (secs.getD 0 [])
    match xs with
    | [ωs, ωi, divs] => do
      let ωs ← parseFl ωs; let ωi ← parseFl ωi; let divs ← parseNat divs
      -- value, 0, forward-error scale `norm · (envelope · ½Σ|f|w·dx/3)²` of the quadrature behind it
      pure (match fromConfig cfg with
        | .ok S =>
          if offSupport S ωs ωi then s!"{fl 0.0} {fl 0.0} {fl 0.0}"
          else
            -- `jsiFromConfig cfg = (fromConfig cfg).bind (jsi · divs ωs ωi)`: evaluated on the `S` at hand
            (match jsi S divs ωs ωi, pmCoincAbs S divs ωs ωi, jsiNormalization S ωs ωi with
              | .ok v, .ok sc, .ok n =>
                let a := pumpAmplitude S (ωs + ωi)
                s!"{fl v} {fl 0.0} {fl (if v == 0.0 then 0.0 else n * ((a * sc) * (a * sc)))}"
              | .err _, _, _ => "ERR"
              | _, _, _ => "PANIC")
        | .err _ => "ERR"
        | .panic _ => "PANIC")
    | _ => none
  | _ => do
    let S ← Driver.Compose.setup? (secs.getD 0 [])
    let s := signalBeam S
    let p := pumpBeam S
    match op with
    | "cmpa_snell" =>
      match ← xs.mapM parseFl with
      | [e] => pure (Driver.Compose.out fl (snellInternalB S s e))
      | _ => none
    | "cmpa_opt_theta" => pure (Driver.Compose.out fl (optimumThetaB S s p))
    | "cmpa_opt_period" => pure (Driver.Compose.out fl (optimumPolingPeriodB S s p))
    | "cmpa_sign" =>
      pure (Driver.Compose.out (fun b => if b then "NEGATIVE" else "POSITIVE") (computeSignB S s p))
    | "cmpa_as_optimum" =>
      pure (match asOptimum S with
        | .ok o => "OK " ++ optimumTokens o
        | .err _ => "ERR"
        | .panic _ => "PANIC")
    | _ => none

end Spdc.Driver.ComposeAuto
