import Spdc.Model.Compose
import Spdc.Model.Wire
import Spdc.Driver.Poling
import Spdc.Driver.PM
/-!
Line-protocol handlers for the COMPOSED model (`Spdc/Model/Compose.lean`) — Float instance.

Every op takes the primitive setup only:

```
<crystal> <pm> <cp> cθ cφ L T λp wpx wpy bw power thr deff   (14)
λs θs φs wsx wsy z0s   λi θi φi wix wiy z0i   <auto>           (13)
off | on <signed period> <window tokens of Driver/Poling>
| <op-specific floats / naturals>
```
and recomputes the printed quantity through all layers.
-/
namespace Spdc.Driver.Compose
open Spdc Spdc.Compose Spdc.Wire

def splitBar (l : List String) : List (List String) :=
  let rec go (acc : List String) (out : List (List String)) : List String → List (List String)
    | [] => (acc.reverse :: out).reverse
    | "|" :: r => go [] (acc.reverse :: out) r
    | t :: r => go (t :: acc) out r
  go [] [] l

def bool? : String → Option Bool
  | "0" => some false
  | "1" => some true
  | _ => none

def beamSpec? : List Float → Option (BeamSpec Float)
  | [lam, th, ph, wx, wy, z0] => some ⟨lam, th, ph, wx, wy, z0⟩
  | _ => none

def poling? : List String → Option (PolingSpec Float)
  | ["off"] => some .off
  | "on" :: p :: rest => do
    let p ← parseFl p
    let (a, r) ← Driver.Poling.parseApod rest
    if r.isEmpty then pure (.on p a) else none
  | _ => none

def setup? (t : List String) : Option (Setup Float) := do
  match t with
  | crystal :: pm :: cp :: rest =>
    let crystal ← Crystals.fromString crystal
    let pm ← Driver.PM.pmType? pm
    let cp ← bool? cp
    let fs ← (rest.take 23).mapM parseFl
    if fs.length ≠ 23 then none else
    let sig ← beamSpec? ((fs.drop 11).take 6)
    let idl ← beamSpec? ((fs.drop 17).take 6)
    match rest.drop 23 with
    | auto :: pol =>
      let auto ← bool? auto
      let poling ← poling? pol
      match fs.take 11 with
      | [cθ, cφ, L, T, lamP, wpx, wpy, bw, power, thr, deff] =>
        pure { crystal, cTheta := cθ, cPhi := cφ, L, T, counterProp := cp, pm, lamP, wpx, wpy,
               bandwidth := bw, power, threshold := thr, deff, sig, idl, idlerAuto := auto, poling }
      | _ => none
    | [] => none
  | _ => none

def cx (z : Cx Float) : String := fl z.re ++ " " ++ fl z.im
def v3 (v : Vec3 Float) : String := fls [v.x, v.y, v.z]

def out {β : Type} (f : β → String) : Outcome β → String
  | .ok b => f b
  | .err _ => "ERR"
  | .panic _ => "PANIC"

def polStr : Index.Pol → String
  | .ordinary => "o"
  | .extraordinary => "e"

def beamStr (b : Beam.Beam Float) : String :=
  s!"{fl b.phi} {fl b.theta} {v3 b.direction} {fl b.frequency} {fl (Beam.vacuumWavelength b)} {polStr b.polarization} {fl b.waist.x} {fl b.waist.y}"

def beamsStr (S : Setup Float) : String :=
  out (fun i => beamStr (signalBeam S) ++ " " ++ beamStr i ++ " " ++ beamStr (pumpBeam S)) (idlerBeam S)

def handle (op : String) (args : List String) : Option String := do
  if !op.startsWith "cmp_" then none else
  let secs := splitBar args
  let S ← setup? (secs.getD 0 [])
  let xs := secs.getD 1 []
  match op with
  | "cmp_beams" => pure (beamsStr S)
  | "cmp_swap_beams" => pure (beamsStr S.swap)
  | "cmp_indices" =>
    match ← xs.mapM parseFl with
    | [ωs, ωi] =>
      let pr := fun ω => v3 (principal S (Units.frequencyToVacuumWavelength ω))
      let p := pumpBeam S
      pure (out (fun i =>
        s!"{pr ωs} {pr ωi} {pr (ωs + ωi)} {fl (refractiveIndex S (signalBeam S) ωs)} {fl (refractiveIndex S i ωi)} {fl (refractiveIndex S p (ωs + ωi))} {fl (refractiveIndex S p p.frequency)}")
        (idlerBeam S))
    | _ => none
  | "cmp_theta_ext" =>
    pure (out (fun i => s!"{fl (thetaExternal S (signalBeam S))} {fl (thetaExternal S i)}") (idlerBeam S))
  | "cmp_waist_pos" =>
    pure (out (fun i => s!"{fl (optimalWaistPosition S (signalBeam S))} {fl (optimalWaistPosition S i)}")
      (idlerBeam S))
  | "cmp_walkoff" => pure (out fl (walkoff S))
  | "cmp_keff" => pure (out fl (kEff S))
  | "cmp_apod" => do
    let zs ← xs.mapM parseFl
    pure (fls (zs.map (apodWeight S)))
  | "cmp_wavevectors" =>
    match ← xs.mapM parseFl with
    | [ωs, ωi] =>
      let p := pumpBeam S
      pure (out (fun i =>
        s!"{v3 (Compose.wavevector S (signalBeam S) ωs)} {v3 (Compose.wavevector S i ωi)} {v3 (Compose.wavevector S p p.frequency)}")
        (idlerBeam S))
    | _ => none
  | "cmp_deltak" =>
    match ← xs.mapM parseFl with
    | [ωs, ωi] => pure (out v3 (deltaK S ωs ωi))
    | _ => none
  | "cmp_integrand" =>
    match ← xs.mapM parseFl with
    | ωs :: ωi :: zs =>
      pure (out (fun (J : PM.JSetup Float) =>
        " ".intercalate (zs.map fun z => cx (PM.pmIntegrand J.toSetup ωs ωi z))) (jsetup S))
    | _ => none
  | "cmp_pm_coinc" =>
    match xs with
    | [ωs, ωi, divs] => do
      let ωs ← parseFl ωs; let ωi ← parseFl ωi; let divs ← parseNat divs
      pure (match pmCoinc S divs ωs ωi, pmCoincAbs S divs ωs ωi with
        | .ok z, .ok sc => cx z ++ " " ++ fl sc
        | .err _, _ => "ERR"
        | _, _ => "PANIC")
    | _ => none
  | "cmp_pump_amp" =>
    match ← xs.mapM parseFl with
    | [ω] => pure (fl (pumpAmplitude S ω))
    | _ => none
  | "cmp_norm" =>
    match ← xs.mapM parseFl with
    | [ωs, ωi] =>
      pure (match jsiNormalization S ωs ωi, jsiSinglesNormalization S ωs ωi with
        | .ok a, .ok b => fl a ++ " " ++ fl b
        | .err _, _ => "ERR"
        | _, _ => "PANIC")
    | _ => none
  | "cmp_jsa_raw" | "cmp_jsa" | "cmp_jsi" =>
    match xs with
    | [ωs, ωi, divs] => do
      let ωs ← parseFl ωs; let ωi ← parseFl ωi; let divs ← parseNat divs
      if offSupport S ωs ωi then
        pure (if op == "cmp_jsi" then s!"{fl 0.0} {fl 0.0} {fl 0.0}" else cx Cx.zero ++ " " ++ fl 0.0)
      else
        let a := pumpAmplitude S (ωs + ωi)
        -- the forward-error scale of the quadrature sum behind the value
        let sc : Outcome Float := (pmCoincAbs S divs ωs ωi).map fun s => a * s
        let nrm := jsiNormalization S ωs ωi
        pure (match op with
          | "cmp_jsa_raw" =>
            (match jsaRaw S divs ωs ωi, sc with
              | .ok z, .ok s => cx z ++ " " ++ fl s
              | .err _, _ => "ERR"
              | _, _ => "PANIC")
          | "cmp_jsa" =>
            (match jsa S divs ωs ωi, sc, nrm with
              | .ok z, .ok s, .ok n => cx z ++ " " ++ fl (n.sqrt * s)
              | .err _, _, _ => "ERR"
              | _, _, _ => "PANIC")
          | _ =>
            (match jsi S divs ωs ωi, sc, nrm with
              | .ok v, .ok s, .ok n => s!"{fl v} {fl 0.0} {fl (n * (s * s))}"
              | .err _, _, _ => "ERR"
              | _, _, _ => "PANIC"))
    | _ => none
  | "cmp_singles_integrand" =>
    match ← xs.mapM parseFl with
    | ωs :: ωi :: zs =>
      let rec pairs : List Float → List (Float × Float)
        | a :: b :: r => (a, b) :: pairs r
        | _ => []
      pure (out (fun (J : PM.JSetup Float) =>
        " ".intercalate ((pairs zs).map fun p => cx (singlesIntegrandOf J.toSetup ωs ωi p.1 p.2))) (jsetup S))
    | _ => none
  | "cmp_pm_singles" =>
    match xs with
    | [ωs, ωi, divs] => do
      let ωs ← parseFl ωs; let ωi ← parseFl ωi; let divs ← parseNat divs
      pure (out fl (pmSingles S divs ωs ωi))
    | _ => none
  | "cmp_jsi_singles" =>
    match xs with
    | [ωs, ωi, divs] => do
      let ωs ← parseFl ωs; let ωi ← parseFl ωi; let divs ← parseNat divs
      pure (out fl (jsiSingles S divs ωs ωi))
    | _ => none
  | _ => none

end Spdc.Driver.Compose
