import Spdc.Model.Poling
import Spdc.Model.Wire
/-!
Line-protocol handlers for the poling family (C19) — Float instance of the model.

Window tokens: `off` | `gaussian <fwhm>` | `bartlett|blackman|connes|cosine|hamming|welch <a>` | `interp <n> v…`
-/
namespace Spdc.Driver.Poling
open Spdc Spdc.Poling Spdc.Wire

def takeFls : Nat → List String → Option (List Float × List String)
  | 0, r => some ([], r)
  | n + 1, t :: r => do
    let x ← parseFl t
    let (xs, r') ← takeFls n r
    pure (x :: xs, r')
  | _ + 1, [] => none

def parseApod : List String → Option (Apod Float × List String)
  | "off" :: r => some (.off, r)
  | "interp" :: n :: r => do
    let n ← parseNat n
    let (vs, r') ← takeFls n r
    pure (.interpolate vs, r')
  | kind :: a :: r => do
    let a ← parseFl a
    match kind with
    | "gaussian" => pure (.gaussian a, r)
    | "bartlett" => pure (.bartlett a, r)
    | "blackman" => pure (.blackman a, r)
    | "connes" => pure (.connes a, r)
    | "cosine" => pure (.cosine a, r)
    | "hamming" => pure (.hamming a, r)
    | "welch" => pure (.welch a, r)
    | _ => none
  | _ => none

def apodWire : Apod Float → String
  | .off => "off"
  | .gaussian a => "gaussian " ++ fl a
  | .bartlett a => "bartlett " ++ fl a
  | .blackman a => "blackman " ++ fl a
  | .connes a => "connes " ++ fl a
  | .cosine a => "cosine " ++ fl a
  | .hamming a => "hamming " ++ fl a
  | .welch a => "welch " ++ fl a
  | .interpolate vs => s!"interp {vs.length}" ++ String.join (vs.map fun v => " " ++ fl v)

def outFl : Outcome Float → String
  | .ok x => fl x
  | .err e => "ERR:" ++ e
  | .panic _ => "PANIC"

def infinity : Float := 1.0 / 0.0

def stateWire (p : PP Float) : String :=
  match p with
  | .off => s!"off {fl infinity} {outFl p.kEff}"
  | .on period sign apod =>
    let sg := match sign with | .pos => "+" | .neg => "-"
    s!"on {sg} {fl period} {fl (sign.mul period)} {outFl p.kEff} {apodWire apod}"

partial def parseOps : List String → Option (List (Op Float))
  | [] => some []
  | "N" :: p :: r => do
    let p ← parseFl p
    let (w, r') ← parseApod r
    let rest ← parseOps r'
    pure (.new p w :: rest)
  | "W" :: p :: r => do
    let p ← parseFl p
    let rest ← parseOps r
    pure (.withPeriod p :: rest)
  | "A" :: p :: r => do
    let p ← parseFl p
    let rest ← parseOps r
    pure (.assignPeriod p :: rest)
  | "S" :: r => do
    let (w, r') ← parseApod r
    let rest ← parseOps r'
    pure (.setApodization w :: rest)
  | "T" :: r => do
    let (w, r') ← parseApod r
    let rest ← parseOps r'
    pure (.withApodization w :: rest)
  | _ => none

def pairs (l : List (Float × Float)) : String :=
  " ".intercalate (l.map fun p => fl p.1 ++ " " ++ fl p.2)

def handle (op : String) (args : List String) : Option String :=
  match op, args with
  | "apod", z :: len :: rest => do
    let z ← parseFl z; let len ← parseFl len
    let (w, _) ← parseApod rest
    pure (outFl (window w z len))
  | "apod_cfg", rest => do
    let (w, _) ← parseApod rest
    pure (apodWire w.viaConfig)
  | "pp_seq", rest => do
    let ops ← parseOps rest
    let states := (ops.foldl (fun (acc : PP Float × List String) o =>
      let p := acc.1.step o
      (p, stateWire p :: acc.2)) (PP.off, [])).2.reverse
    pure (" | ".intercalate states)
  | "num_domains", len :: period :: [] => do
    let len ← parseFl len; let period ← parseFl period
    pure (toString ((PP.new period .off).numDomains len))
  | "domains", len :: period :: rest => do
    let len ← parseFl len; let period ← parseFl period
    let (w, _) ← parseApod rest
    pure (match (PP.new period w).polingDomains len with
      | .ok l => s!"{l.length} " ++ pairs l
      | _ => "PANIC")
  | "domain_lengths", len :: period :: rest => do
    let len ← parseFl len; let period ← parseFl period
    let (w, _) ← parseApod rest
    pure (match (PP.new period w).polingDomainLengths len with
      | .ok l => s!"{l.length} " ++ pairs l
      | _ => "PANIC")
  | _, _ => none

end Spdc.Driver.Poling
