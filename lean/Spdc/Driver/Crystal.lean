import Spdc.Model.Crystals
import Spdc.Model.CrystalText
import Spdc.Model.Wire
/-! Line-protocol handlers for the crystal family (C01) — Float instance of the model. -/
namespace Spdc.Driver.Crystal
open Spdc Spdc.Crystals Spdc.Wire

def metaLine (m : Meta Float) : String :=
  let r := match m.range with
    | some (lo, hi) => fl lo ++ " " ++ fl hi
    | none => "none"
  s!"{m.id} {m.axisType.toString} {m.pointGroup} {r} {m.tempKnown} | {m.name} | {m.referenceUrl}"

def handle (op : String) (args : List String) : Option String :=
  match op, args with
  | "indices", [v, lam, t] => do
    let c ← Crystal.ofVariant v
    let lam ← parseFl lam
    let t ← parseFl t
    let n := indices c lam t
    pure s!"{fl n.x} {fl n.y} {fl n.z}"
  | "indices_expr", [v, lam, t] => do
    -- expression crystal built by the harness from its own transcription of the formulas:
    -- expected to equal the built-in model up to meval's evaluation order
    let c ← Crystal.ofVariant v
    let lam ← parseFl lam
    let t ← parseFl t
    let n := indices c lam t
    pure s!"{fl n.x} {fl n.y} {fl n.z}"
  | "meta", [v] => do
    let c ← Crystal.ofVariant v
    pure (metaLine (getMeta c))
  | "all_meta", [] =>
    pure (" ".intercalate ((allMeta (α := Float)).map (·.id)))
  | "from_string", [s] =>
    pure (match fromString s with
      | some c => c.variant
      | none => "OTHER")
  | "from_string_hex", [h] => do
    -- identifier in a textual variant (whitespace, case, quotes …): `from_string` and `FromStr` take the exact id only
    let s ← decodeHexAscii h
    let o := match fromString s with
      | some c => c.variant
      | none => "OTHER"
    pure s!"{o} {o}"
  | "parse_form", [form, _crystal] => parseFormOutcome form
  | "to_string", [v] => do
    let c ← Crystal.ofVariant v
    pure (Crystals.toString c)
  | "serde", [v] => do
    let c ← Crystal.ofVariant v
    pure ("\"" ++ c.variant ++ "\"")
  | _, _ => none

end Spdc.Driver.Crystal
