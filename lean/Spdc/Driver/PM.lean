import Spdc.Model.PM
import Spdc.Model.Norm
import Spdc.Model.Jsa
import Spdc.Model.Wire
/-! Line-protocol handlers for the phase-matching family (C05, C06, C07) — Float instance. -/
namespace Spdc.Driver.PM
open Spdc Spdc.PM Spdc.Wire

/-- 9 floats: phi theta thetaE wx wy z0 sgn n ω -/
def beam? : List Float → Option (Beam Float × Float × List Float)
  | phi :: theta :: thetaE :: wx :: wy :: z0 :: sgn :: n :: om :: rest =>
    some (⟨phi, theta, thetaE, wx, wy, z0, sgn, fun _ => n, om, .o⟩, om, rest)
  | _ => none

/-- apodisation table `(z, weight)`: lookup by the bits of `z` (NaN when absent) -/
def apodOf (tab : List (Float × Float)) (z : Float) : Float :=
  match tab.find? (fun p => p.1.toBits == z.toBits || p.1 == z) with
  | some p => p.2
  | none => 0.0 / 0.0

def pairsOf : List Float → List (Float × Float)
  | a :: b :: r => (a, b) :: pairsOf r
  | _ => []

/-- 24 floats of a setup: L sig(9) idl(9) wpx wpy nP rho keff; returns setup (without apod), ωs, ωi, rest -/
def setup? (l : List Float) : Option (Setup Float × Float × Float × List Float) :=
  match l with
  | L :: r0 =>
    match beam? r0 with
    | some (s, ωs, r1) =>
      match beam? r1 with
      | some (i, ωi, wpx :: wpy :: nP :: rho :: keff :: r2) =>
        some (⟨L, s, i, wpx, wpy, fun _ => nP, rho, keff, fun _ => 1.0, .t0_o_oo⟩, ωs, ωi, r2)
      | _ => none
    | none => none
  | [] => none

def cx (z : Cx Float) : String := fl z.re ++ " " ++ fl z.im

/-- `<m> <2m floats>` as strings → table -/
def table? (args : List String) : Option (List (Float × Float)) :=
  match args with
  | m :: rest => do
    let m ← parseNat m
    let fs ← rest.mapM parseFl
    if fs.length ≠ 2 * m then none else pure (pairsOf fs)
  | [] => none

def pmType? : String → Option PMType
  | "Type0_o_oo" => some .t0_o_oo
  | "Type0_e_ee" => some .t0_e_ee
  | "Type1_e_oo" => some .t1_e_oo
  | "Type2_e_eo" => some .t2_e_eo
  | "Type2_e_oe" => some .t2_e_oe
  | _ => none

def pmTypeStr : PMType → String
  | .t0_o_oo => "Type0_o_oo"
  | .t0_e_ee => "Type0_e_ee"
  | .t1_e_oo => "Type1_e_oo"
  | .t2_e_eo => "Type2_e_eo"
  | .t2_e_oe => "Type2_e_oe"

def pol? : String → Option Pol
  | "o" => some .o
  | "e" => some .e
  | _ => none
def polStr : Pol → String
  | .o => "o"
  | .e => "e"

/-- swap-record beam: phi theta wx wy freq z0 pol -/
def swapBeam? : List String → Option (Beam Float × List String)
  | phi :: theta :: wx :: wy :: freq :: z0 :: pol :: rest => do
    let phi ← parseFl phi; let theta ← parseFl theta; let wx ← parseFl wx; let wy ← parseFl wy
    let freq ← parseFl freq; let z0 ← parseFl z0; let pol ← pol? pol
    pure (⟨phi, theta, 0.0, wx, wy, z0, 1.0, fun _ => 1.0, freq, pol⟩, rest)
  | _ => none

def swapBeamStr (b : Beam Float) : String :=
  s!"{fl b.phi} {fl b.theta} {fl b.wx} {fl b.wy} {fl b.freq} {fl b.z0} {polStr b.pol}"

/-- jsa-level args: `<24 setup> omegaP bw thr power deff ppOn`, rest returned as strings -/
def jsetup? (args : List String) : Option (JSetup Float × Float × Float × List String) := do
  let head := args.take 30
  let rest := args.drop 30
  let fs ← head.mapM parseFl
  let (S, ωs, ωi, r) ← setup? fs
  match r with
  | [omegaP, bw, thr, power, deff, ppOn] =>
    pure ({ toSetup := S, omegaP := omegaP, bandwidth := bw, threshold := thr, power := power,
            deff := deff, ppOn := ppOn != 0.0 }, ωs, ωi, rest)
  | _ => none

/-- Simpson nodes/scale as `phasematch_fiber_coupling` uses them; `none` = panic -/
def simpson? (divs : Nat) : Option (List (Float × Float) × Float) :=
  if divs + divs % 2 < 2 then none
  else
    let d := divs + divs % 2 - 2
    if d < 4 then none
    else
      let dx : Float := (1.0 - (-1.0)) / (d : Float)
      some (simpsonNodes d, dx / 3.0)

def handle (op : String) (args : List String) : Option String :=
  match op with
  | "pm_integrand" => do
    let fs ← (args.take 24).mapM parseFl
    let (S, ωs, ωi, _) ← setup? fs
    let tab ← table? (args.drop 24)
    let S := { S with apod := apodOf tab }
    pure (" ".intercalate (tab.map fun p => cx (pmIntegrand S ωs ωi p.1)))
  | "half_dkz_l" => do
    let fs ← args.mapM parseFl
    let (S, ωs, ωi, _) ← setup? fs
    pure (fl (halfDkzL S ωs ωi))
  | "pm_coinc" => do
    let fs ← (args.take 24).mapM parseFl
    let (S, ωs, ωi, _) ← setup? fs
    match args.drop 24 with
    | divs :: rest => do
      let divs ← parseNat divs
      let tab ← table? rest
      let S := { S with apod := apodOf tab }
      pure (match pmCoincSimpson S divs ωs ωi, simpson? divs with
        | .ok z, some (nodes, scale) =>
          cx z ++ " " ++ fl (0.5 * (quadAbsSum nodes (pmIntegrand S ωs ωi) * scale))
        | _, _ => "PANIC")
    | [] => none
  | "pm_coinc_gl" => do
    -- `<24 setup> <m> (z apod)*m <m> (weight)*m` : Gauss–Legendre rule supplied by the harness
    let fs ← (args.take 24).mapM parseFl
    let (S, ωs, ωi, _) ← setup? fs
    match args.drop 24 with
    | m :: rest => do
      let m ← parseNat m
      let tab ← table? (m.repr :: rest.take (2 * m))
      match rest.drop (2 * m) with
      | m2 :: wts => do
        let m2 ← parseNat m2
        let wts ← wts.mapM parseFl
        if m2 ≠ m ∨ wts.length ≠ m then none else
        let S := { S with apod := apodOf tab }
        let nodes := (tab.map Prod.fst).zip wts
        pure (cx (pmCoincQ S nodes 1.0 ωs ωi) ++ " "
          ++ fl (0.5 * (quadAbsSum nodes (pmIntegrand S ωs ωi) * 1.0)))
      | [] => none
    | [] => none
  | "jsa_raw" => do
    let (J, ωs, ωi, rest) ← jsetup? args
    match rest with
    | divs :: rest => do
      let divs ← parseNat divs
      let tab ← table? rest
      let J : JSetup Float := { J with toSetup := { J.toSetup with apod := apodOf tab } }
      match simpson? divs with
      | none =>
        -- the quadrature is only reached inside the support
        if invalidFrequencies ωs ωi J.omegaP
            || pumpSpectralAmplitude (ωs + ωi) J.omegaP J.bandwidth < J.threshold then
          pure (cx Cx.zero ++ " " ++ fl 0.0)
        else pure "PANIC"
      | some (nodes, scale) =>
        let a := pumpSpectralAmplitude (ωs + ωi) J.omegaP J.bandwidth
        let sc : Float :=
          if invalidFrequencies ωs ωi J.omegaP || a < J.threshold then 0.0
          else a * (0.5 * (quadAbsSum nodes (pmIntegrand J.toSetup ωs ωi) * scale))
        pure (cx (jsaRaw J nodes scale ωs ωi) ++ " " ++ fl sc)
    | [] => none
  | "jsa" => do
    -- normalisation layer: `<30 tokens> rawre rawim` ⇒ jsa.re jsa.im jsi
    let (J, ωs, ωi, rest) ← jsetup? args
    match ← rest.mapM parseFl with
    | [rr, ri] =>
      let r : Cx Float := ⟨rr, ri⟩
      pure (cx (jsaOfRaw J ωs ωi r) ++ " " ++ fl (jsiOfRaw J ωs ωi r))
    | _ => none
  | "norms" => do
    let (J, ωs, ωi, _) ← jsetup? args
    pure (fl (jsiNormalization J.normIn J.sig J.idl ωs ωi) ++ " "
      ++ fl (jsiSinglesNormalization J.normIn J.sig J.idl ωs ωi))
  | "pump_amp" => do
    match ← args.mapM parseFl with
    | [ω, ω0, bw] => pure (fl (pumpSpectralAmplitude ω ω0 bw))
    | _ => none
  | "spectral_width" => do
    match ← args.mapM parseFl with
    | [lam, bw] => pure (fl (fwhmToSpectralWidth lam bw))
    | _ => none
  | "invalid_freq" => do
    match ← args.mapM parseFl with
    | [ωs, ωi, ωp] => pure (if invalidFrequencies ωs ωi ωp then "1" else "0")
    | _ => none
  | "counts_corr" => do
    match ← args.mapM parseFl with
    | [lp, ls, li, ns, ni, np, ngs, ngi] => pure (fl (countsCorrection lp ls li ns ni np ngs ngi))
    | _ => none
  | "jsi_singles_raw" => do
    -- `ωs ωi ωp0 bandwidth threshold fs` ⇒ jsi_singles_raw, with `fs` the singles phase-matching value
    match ← args.mapM parseFl with
    | [ωs, ωi, ωp, bw, thr, fs] =>
      let S : Setup Float := ⟨1.0, ⟨0.0, 0.0, 0.0, 1.0, 1.0, 0.0, 1.0, fun _ => 1.0, ωs, .o⟩,
        ⟨0.0, 0.0, 0.0, 1.0, 1.0, 0.0, 1.0, fun _ => 1.0, ωi, .o⟩, 1.0, 1.0, fun _ => 1.0, 0.0, 0.0,
        fun _ => 1.0, .t0_o_oo⟩
      let J : JSetup Float :=
        { toSetup := S, omegaP := ωp, bandwidth := bw, threshold := thr, power := 1.0, deff := 1.0,
          ppOn := false }
      pure (fl (jsiSinglesRaw (fun _ _ _ => fs) J ωs ωi))
    | _ => none
  | "pm_consts" =>
    pure (fls [(cLight : Float), (eps0 : Float), (twoPi : Float), (Transc.pi : Float),
      (fwhmOverWaist : Float)])
  | "swap" =>
    match args with
    | pm :: rest => do
      let pm ← pmType? pm
      let (s, r1) ← swapBeam? rest
      let (i, _) ← swapBeam? r1
      let S : Setup Float := ⟨1.0, s, i, 1.0, 1.0, fun _ => 1.0, 0.0, 0.0, fun _ => 1.0, pm⟩
      let T := S.swap
      pure (pmTypeStr T.pm ++ " " ++ swapBeamStr T.sig ++ " " ++ swapBeamStr T.idl)
    | [] => none
  | "pm_inverse" =>
    match args with
    | [pm] => do
      let pm ← pmType? pm
      pure s!"{pmTypeStr pm.inverse} {polStr pm.pumpPol} {polStr pm.signalPol} {polStr pm.idlerPol}"
    | _ => none
  | _ => none

end Spdc.Driver.PM
