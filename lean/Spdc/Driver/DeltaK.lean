import Spdc.Model.DeltaK
import Spdc.Model.Wire
/-! Line-protocol handlers for phase mismatch / optimum idler (C03) — Float instance of the model. -/
namespace Spdc.Driver.DeltaK
open Spdc Spdc.DeltaK Spdc.Wire

def parsePM : String → Option PMType
  | "Type0_o_oo" => some .t0_o_oo
  | "Type0_e_ee" => some .t0_e_ee
  | "Type1_e_oo" => some .t1_e_oo
  | "Type2_e_eo" => some .t2_e_eo
  | "Type2_e_oe" => some .t2_e_oe
  | _ => none

def showPol : Pol → String
  | .o => "Ordinary"
  | .e => "Extraordinary"

def parseBool : String → Option Bool
  | "0" => some false
  | "1" => some true
  | _ => none

/-- `off x… 0` | `on <period> <neg>` -/
def parsePoling (kind period neg : String) : Option (Poling Float) := do
  let p ← parseFl period
  let n ← parseBool neg
  match kind with
  | "off" => pure .off
  | "on" => pure (.on p n)
  | _ => none

def vec? (x y z : String) : Option (Vec3 Float) := do
  let x ← parseFl x; let y ← parseFl y; let z ← parseFl z
  pure ⟨x, y, z⟩

def showVec (v : Vec3 Float) : String := s!"{fl v.x} {fl v.y} {fl v.z}"

def handle (op : String) (args : List String) : Option String :=
  match op, args with
  | "opt_idler", [pm, cp, ls, lp, ns, np, th, ph, k, p, n, wx, wy] => do
    let pm ← parsePM pm; let cp ← parseBool cp
    let ls ← parseFl ls; let lp ← parseFl lp; let ns ← parseFl ns; let np ← parseFl np
    let th ← parseFl th; let ph ← parseFl ph; let pp ← parsePoling k p n
    let wx ← parseFl wx; let wy ← parseFl wy
    let i : IdlerIn Float := ⟨pm, cp, ls, lp, ns, np, th, ph, pp, wx, wy⟩
    pure (match optimumIdler i with
      | .ok o =>
        s!"OK {showPol o.pol} {fl o.phi} {fl o.theta} {fl o.omega} {fl (wavelengthOfFreq o.omega)} " ++
          showVec o.dir ++ s!" {fl o.wx} {fl o.wy}"
      | .err _ => "ERR"
      | .panic _ => "PANIC")
  | "delta_k", [sx, sy, sz, ix, iy, iz, px, py, pz, ns, ni, np, ws, wi, wp, k, p, n] => do
    let ds ← vec? sx sy sz; let di ← vec? ix iy iz; let dp ← vec? px py pz
    let ns ← parseFl ns; let ni ← parseFl ni; let np ← parseFl np
    let ws ← parseFl ws; let wi ← parseFl wi; let wp ← parseFl wp
    let pp ← parsePoling k p n
    pure (match deltaK ds di dp ns ni np ws wi wp pp with
      | .ok v => showVec v
      | .err _ => "ERR"
      | .panic _ => "PANIC")
  | "dk_from_angles", [phs, ths, phi, thi, php, thp, ns, ni, np, ws, wi, wp, k, p, n] => do
    let phs ← parseFl phs; let ths ← parseFl ths; let phi ← parseFl phi; let thi ← parseFl thi
    let php ← parseFl php; let thp ← parseFl thp
    let ns ← parseFl ns; let ni ← parseFl ni; let np ← parseFl np
    let ws ← parseFl ws; let wi ← parseFl wi; let wp ← parseFl wp
    let pp ← parsePoling k p n
    pure (match deltaKAngles phs ths phi thi php thp ns ni np ws wi wp pp with
      | .ok v => showVec v
      | .err _ => "ERR"
      | .panic _ => "PANIC")
  | "k_eff", [k, p, n] => do
    let pp ← parsePoling k p n
    pure (match kEff pp with
      | .ok v => fl v
      | .err _ => "ERR"
      | .panic _ => "PANIC")
  | "dk_wavevector", [x, y, z, n, w] => do
    let d ← vec? x y z; let n ← parseFl n; let w ← parseFl w
    pure (showVec (wavevector d n w))
  | _, _ => none

end Spdc.Driver.DeltaK
