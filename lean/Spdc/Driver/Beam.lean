import Spdc.Model.Beam
import Spdc.Model.Wire
/-! Line-protocol handlers for the beam family (C13) — Float instance of the model. -/
namespace Spdc.Driver.Beam
open Spdc Spdc.Index Spdc.Units Spdc.Beam Spdc.Wire

def parsePol : String → Option Pol
  | "o" => some .ordinary
  | "e" => some .extraordinary
  | _ => none

def polTok : Pol → String
  | .ordinary => "o"
  | .extraordinary => "e"

def stateStr (b : Spdc.Beam.Beam Float) : String :=
  fls [b.phi, b.theta, b.direction.x, b.direction.y, b.direction.z, b.frequency] ++ " " ++
    polTok b.polarization ++ " " ++ fls [b.waist.x, b.waist.y]

def parseOp : List String → Option (Op Float)
  | ["sphi", x] => do pure (.setPhi (← parseFl x))
  | ["stheta", x] => do pure (.setThetaInternal (← parseFl x))
  | ["sang", p, t] => do pure (.setAngles (← parseFl p) (← parseFl t))
  | ["sext", t] => do pure (.setThetaExternal (← parseFl t))
  | ["sfreq", x] => do pure (.setFrequency (← parseFl x))
  | ["swl", x] => do pure (.setVacuumWavelength (← parseFl x))
  | ["spol", p] => do pure (.setPolarization (← parsePol p))
  | ["wpol", p] => do pure (.withPolarization (← parsePol p))
  | ["swaist", x, y] => do pure (.setWaist (← parseFl x) (← parseFl y))
  | ["pump"] => some .intoPump
  | _ => none

/-- split a token list at `|` -/
def splitBar (l : List String) : List (List String) :=
  let r := l.foldl (fun (acc : List (List String) × List String) t =>
    if t = "|" then (acc.2.reverse :: acc.1, []) else (acc.1, t :: acc.2)) ([], [])
  (r.2.reverse :: r.1).reverse

def f1 (g : Float → Float) : List String → Option String
  | [x] => do pure (fl (g (← parseFl x)))
  | _ => none

def f2 (g : Float → Float → Float) : List String → Option String
  | [x, y] => do pure (fl (g (← parseFl x) (← parseFl y)))
  | _ => none

def handle (op : String) (args : List String) : Option String :=
  match op, args with
  | "fmod", a => f2 FMod.fmod a
  | "norm_angle", a => f1 normalizeAngle a
  | "norm_angle_signed", a => f1 normalizeAngleSigned a
  | "dir_from_polar", [p, t] => do
    let d := directionFromPolar (← parseFl p) (← parseFl t)
    pure (fls [d.x, d.y, d.z])
  | "beam_seq", toks =>
    match splitBar toks with
    | ("new" :: [pol, p, t, lam, wx, wy]) :: rest => do
      let b0 := Spdc.Beam.new (← parsePol pol) (← parseFl p) (← parseFl t) (← parseFl lam)
        ⟨← parseFl wx, ← parseFl wy⟩
      let ops ← rest.mapM parseOp
      let states := ops.foldl (fun (acc : List (Spdc.Beam.Beam Float)) o =>
        match acc with
        | b :: _ => step b o :: acc
        | [] => acc) [b0]
      pure (" | ".intercalate (states.reverse.map stateStr))
    | _ => none
  | "snell_ext", [nx, ny, nz, cθ, cφ, p, pol, t] => do
    pure (fl (snellExternal ⟨← parseFl nx, ← parseFl ny, ← parseFl nz⟩ (← parseFl cθ) (← parseFl cφ)
      (← parseFl p) (← parsePol pol) (← parseFl t)))
  | "snell_int", [nx, ny, nz, cθ, cφ, p, pol, e] => do
    pure (match snellInternal ⟨← parseFl nx, ← parseFl ny, ← parseFl nz⟩ (← parseFl cθ) (← parseFl cφ)
        (← parseFl p) (← parsePol pol) (← parseFl e) with
      | .ok x => fl x
      | _ => "PANIC")
  | "waist_pos", [nx, ny, nz, cθ, cφ, len, pol] => do
    pure (fl (optimalWaistPosition ⟨← parseFl nx, ← parseFl ny, ← parseFl nz⟩ (← parseFl cθ)
      (← parseFl cφ) (← parseFl len) (← parsePol pol)))
  | "wavevector", [dx, dy, dz, ω, idx] => do
    let b : Spdc.Beam.Beam Float :=
      { waist := ⟨0.0, 0.0⟩, frequency := 0.0, polarization := .ordinary, theta := 0.0, phi := 0.0,
        direction := ⟨← parseFl dx, ← parseFl dy, ← parseFl dz⟩ }
    let k := wavevector b (← parseFl ω) (← parseFl idx)
    pure (fls [k.x, k.y, k.z])
  | "c2k", a => f1 celsiusToKelvin a
  | "k2c", a => f1 kelvinToCelsius a
  | "wl2freq", a => f2 wavelengthToFrequency a
  | "freq2wl", a => f2 frequencyToWavelength a
  | "vac_wl2freq", a => f1 vacuumWavelengthToFrequency a
  | "freq2vac_wl", a => f1 frequencyToVacuumWavelength a
  | "freq2wn", a => f2 frequencyToWavenumber a
  | "wn2freq", a => f2 wavenumberToFrequency a
  | "fwhm2sigma", a => f1 fwhmToSigma a
  | "fwhm2waist", a => f1 fwhmToWaist a
  | "waist2fwhm", a => f1 waistToFwhm a
  | _, _ => none

end Spdc.Driver.Beam
