import Spdc.Model.Index
import Spdc.Model.Wire
/-! Line-protocol handlers for the index family (C02) — Float instance of the model. -/
namespace Spdc.Driver.Index
open Spdc Spdc.Index Spdc.Wire

def parsePol : String → Option Pol
  | "o" => some .ordinary
  | "e" => some .extraordinary
  | _ => none

def outF : Outcome Float → String
  | .ok x => fl x
  | .err e => "ERR:" ++ e
  | .panic _ => "PANIC"

def v3 (v : Vec3 Float) : String := fls [v.x, v.y, v.z]

def rootsStr : Roots Float → String
  | .no => "No"
  | .one x => "One " ++ fl x
  | .two a b => "Two " ++ fl a ++ " " ++ fl b

/-- test functions for `derivative_at` -/
def testFn : String → Option (Float → Float)
  | "sin" => some Float.sin
  | "sq" => some fun x => x * x
  | "exp" => some Float.exp
  | "recip" => some fun x => 1.0 / x
  | "cube" => some fun x => x * x * x
  | _ => none

def handle (op : String) (args : List String) : Option String :=
  match op, args with
  | "to_crystal_frame", [θ, φ, x, y, z] => do
    let θ ← parseFl θ; let φ ← parseFl φ
    let x ← parseFl x; let y ← parseFl y; let z ← parseFl z
    pure (v3 (toCrystalFrame θ φ ⟨x, y, z⟩))
  | "quad_roots", [a2, a1, a0] => do
    let a2 ← parseFl a2; let a1 ← parseFl a1; let a0 ← parseFl a0
    pure (rootsStr (quadRoots a2 a1 a0))
  | "index_along", [nx, ny, nz, θ, φ, x, y, z, pol] => do
    let nx ← parseFl nx; let ny ← parseFl ny; let nz ← parseFl nz
    let θ ← parseFl θ; let φ ← parseFl φ
    let x ← parseFl x; let y ← parseFl y; let z ← parseFl z
    let pol ← parsePol pol
    let n : Vec3 Float := ⟨nx, ny, nz⟩
    let d : Vec3 Float := ⟨x, y, z⟩
    pure (fl (indexAlong n θ φ d pol) ++ " ; " ++ fl (indexAlongSpecClamped n θ φ d pol))
  | "index_along_pinned", [nx, ny, nz, θ, φ, x, y, z, pol] => do
    let nx ← parseFl nx; let ny ← parseFl ny; let nz ← parseFl nz
    let θ ← parseFl θ; let φ ← parseFl φ
    let x ← parseFl x; let y ← parseFl y; let z ← parseFl z
    let pol ← parsePol pol
    pure (fl (indexAlongPinned ⟨nx, ny, nz⟩ θ φ ⟨x, y, z⟩ pol))
  | "walkoff", [nx, ny, nz, θ, φ, x, y, z, pol] => do
    let nx ← parseFl nx; let ny ← parseFl ny; let nz ← parseFl nz
    let θ ← parseFl θ; let φ ← parseFl φ
    let x ← parseFl x; let y ← parseFl y; let z ← parseFl z
    let pol ← parsePol pol
    pure (outF (walkoff ⟨nx, ny, nz⟩ θ φ ⟨x, y, z⟩ pol))
  | "deriv_at", [f, x] => do
    let f ← testFn f; let x ← parseFl x
    pure (outF (derivativeAt f x))
  | _, _ => none

end Spdc.Driver.Index
