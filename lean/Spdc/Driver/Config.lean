import Spdc.Model.Config
import Spdc.Model.Sweep
import Spdc.Model.Wire
import Spdc.Driver.PMType
/-!
Line-protocol handlers for the configuration and sweep families (C16, C17, C18) — Float instance.

* `try_as_spdc <key=value descriptor…> ext <key=value results of the numeric sub-routines…>`
* `as_config <setup tokens>`
* `sweep_pt <setup tokens> | p1 v1 p2 v2 ext …`, `sweep_order <setup tokens> | p1 p2 x0 x1 nx y0 y1 ny`
* `path_parse <string>`
-/
namespace Spdc.Driver.Config
open Spdc Spdc.PM Spdc.Cfg Spdc.Sweep Spdc.Wire Spdc.Grid

abbrev P := StateT (List String) Option

def tok : P String := do
  match (← get) with
  | [] => failure
  | t :: r => set r; pure t

def pFl : P Float := do
  let t ← tok
  match parseFl t with
  | some x => pure x
  | none => failure

def pNat : P Nat := do
  let t ← tok
  match parseNat t with
  | some x => pure x
  | none => failure

def pBool : P Bool := do
  let n ← pNat
  pure (n != 0)

def pPol : P Pol := do
  match (← tok) with
  | "o" => pure .o
  | "e" => pure .e
  | _ => failure

def pPm : P PM.PMType := do
  match PMType.pmOfIndex (← pNat) with
  | some t => pure t
  | none => failure

def pBeam : P (Beam Float) := do
  let pol ← pPol; let phi ← pFl; let theta ← pFl; let freq ← pFl; let wx ← pFl; let wy ← pFl
  pure ⟨pol, phi, theta, freq, wx, wy⟩

def pApod : P (Apod Float) := do
  match (← tok) with
  | "off" => pure .off
  | "gaussian" => return .gaussian (← pFl)
  | "bartlett" => return .bartlett (← pFl)
  | "blackman" => return .blackman (← pFl)
  | "connes" => return .connes (← pFl)
  | "cosine" => return .cosine (← pFl)
  | "hamming" => return .hamming (← pFl)
  | "welch" => return .welch (← pFl)
  | "interpolate" => do
    let n ← pNat
    let l ← (List.range n).mapM fun _ => pFl
    pure (.interpolate l)
  | _ => failure

def pPoling : P (Poling Float) := do
  match (← tok) with
  | "O" => pure .off
  | "P" => do
    let per ← pFl; let neg ← pBool; let a ← pApod
    pure (.on per neg a)
  | _ => failure

def pSetup : P (Setup Float) := do
  let kind ← pNat; let pm ← pPm; let phi ← pFl; let theta ← pFl; let len ← pFl; let temp ← pFl
  let cp ← pBool
  let signal ← pBeam; let idler ← pBeam; let pump ← pBeam
  let bw ← pFl; let pw ← pFl; let thr ← pFl; let wps ← pFl; let wpi ← pFl; let deff ← pFl
  let pp ← pPoling
  pure { crystal := ⟨kind, pm, phi, theta, len, temp, cp⟩, signal, idler, pump, pumpBandwidth := bw,
         pumpAveragePower := pw, pumpSpectrumThreshold := thr, pp, signalWaistPos := wps,
         idlerWaistPos := wpi, deff }

/-! printing -/

def polTok : Pol → String
  | .o => "o" | .e => "e"

def beamTokens (b : Beam Float) : String :=
  s!"{polTok b.pol} {fl b.phi} {fl b.theta} {fl b.freq} {fl b.waistX} {fl b.waistY}"

def apodTokens : Apod Float → String
  | .off => "off"
  | .gaussian x => s!"gaussian {fl x}"
  | .bartlett x => s!"bartlett {fl x}"
  | .blackman x => s!"blackman {fl x}"
  | .connes x => s!"connes {fl x}"
  | .cosine x => s!"cosine {fl x}"
  | .hamming x => s!"hamming {fl x}"
  | .welch x => s!"welch {fl x}"
  | .interpolate l => (s!"interpolate {l.length} " ++ fls l).trimAsciiEnd.toString

def polingTokens : Poling Float → String
  | .off => "O"
  | .on p neg a => s!"P {fl p} {if neg then 1 else 0} {apodTokens a}"

def setupTokens (s : Setup Float) : String :=
  let c := s.crystal
  s!"{c.kind} {PMType.pmIndex c.pmType} {fl c.phi} {fl c.theta} {fl c.length} {fl c.temperature} " ++
  s!"{if c.counterProp then 1 else 0} {beamTokens s.signal} {beamTokens s.idler} {beamTokens s.pump} " ++
  s!"{fl s.pumpBandwidth} {fl s.pumpAveragePower} {fl s.pumpSpectrumThreshold} {fl s.signalWaistPos} " ++
  s!"{fl s.idlerWaistPos} {fl s.deff} {polingTokens s.pp}"

def autoTok : Auto Float → String
  | .auto => "A"
  | .param x => fl x
def optTok : Option Float → String
  | none => "-"
  | some x => fl x

def configTokens (c : Config Float) : String :=
  let idler := match c.idler with
    | .auto => "A"
    | .param i => s!"I {fl i.wavelengthNm} {fl i.phiDeg} {optTok i.thetaDeg} {optTok i.thetaExternalDeg} {fl i.waistUm} {autoTok i.waistPositionUm}"
  let poling := match c.poling with
    | .off => "O"
    | .config p a => s!"P {autoTok p} {apodTokens a}"
  s!"{c.crystal.kind} {PMType.pmIndex c.crystal.pmType} {fl c.crystal.phiDeg} {autoTok c.crystal.thetaDeg} " ++
  s!"{fl c.crystal.lengthUm} {fl c.crystal.temperatureC} {if c.crystal.counterProp then 1 else 0} " ++
  s!"{fl c.pump.wavelengthNm} {fl c.pump.waistUm} {fl c.pump.bandwidthNm} {fl c.pump.averagePowerMw} " ++
  s!"{optTok c.pump.spectrumThreshold} {fl c.signal.wavelengthNm} {fl c.signal.phiDeg} " ++
  s!"{optTok c.signal.thetaDeg} {optTok c.signal.thetaExternalDeg} {fl c.signal.waistUm} " ++
  s!"{autoTok c.signal.waistPositionUm} {fl c.deffPmPerVolt} {idler} {poling}"

/-- token of a rounded field next to the unrounded value it came from (same rule as the harness's
`rtok`): the rounded value, or — when the unrounded value sits on a rounding tie to within 1e-11
relative and the rounded value is one of the two neighbours — the tie point itself -/
def rtok (rounded unrounded : Float) (wraps : Bool := false) : String :=
  let y := unrounded * 1.0e4
  let f := y.floor
  let d := (y - f - 0.5).abs
  let m := if y.abs < 1.0 then 1.0 else y.abs
  if d ≤ 1.0e-11 * m then
    let r := (rounded * 1.0e4).round
    if r == f || r == f + 1.0 || (wraps && f + 1.0 == 3600000.0 && r == 0.0) then
      "tie:" ++ fl (2.0 * f + 1.0)
    else fl rounded
  else fl rounded

def autoR (a : Auto Float) (u : Float) : String :=
  match a with
  | .auto => "A"
  | .param x => rtok x u
def optR (a : Option Float) (u : Float) : String :=
  match a with
  | none => "-"
  | some x => rtok x u

/-- configuration tokens of `asConfig s`, rounded fields paired with their unrounded physical values -/
def configTokensS (s : Setup Float) : String :=
  let c := asConfig s
  let beamT (tag : String) (i : BeamCfg Float) (b : Beam Float) (wp : Float) : String :=
    s!"{tag}{rtok i.wavelengthNm (b.wavelength / nano)} {rtok i.phiDeg (b.phi / deg) true} {optR i.thetaDeg (b.theta / deg)} {optTok i.thetaExternalDeg} {rtok i.waistUm (b.waistX / micro)} {autoR i.waistPositionUm (wp / micro)}"
  let idler := match c.idler with
    | .auto => "A"
    | .param i => beamT "I " i s.idler s.idlerWaistPos
  let poling := match c.poling, s.pp with
    | .off, _ => "O"
    | .config p a, .on period _ sa =>
      let ap := match a, sa with
        | .gaussian w, .gaussian fw => s!"gaussian {rtok w (fw / micro)}"
        | a, _ => apodTokens a
      s!"P {autoR p (period / micro)} {ap}"
    | .config p a, _ => s!"P {autoTok p} {apodTokens a}"
  let sg := c.signal
  s!"{c.crystal.kind} {PMType.pmIndex c.crystal.pmType} {rtok c.crystal.phiDeg (s.crystal.phi / deg)} {autoR c.crystal.thetaDeg (s.crystal.theta / deg)} " ++
  s!"{rtok c.crystal.lengthUm (s.crystal.length / micro)} {rtok c.crystal.temperatureC (s.crystal.temperature - kelvin0)} {if c.crystal.counterProp then 1 else 0} " ++
  s!"{rtok c.pump.wavelengthNm (s.pump.wavelength / nano)} {rtok c.pump.waistUm (s.pump.waistX / micro)} {rtok c.pump.bandwidthNm (s.pumpBandwidth / nano)} {rtok c.pump.averagePowerMw (s.pumpAveragePower / 1.0)} " ++
  s!"{optTok c.pump.spectrumThreshold} {rtok sg.wavelengthNm (s.signal.wavelength / nano)} {rtok sg.phiDeg (s.signal.phi / deg) true} " ++
  s!"{optR sg.thetaDeg (s.signal.theta / deg)} {optTok sg.thetaExternalDeg} {rtok sg.waistUm (s.signal.waistX / micro)} " ++
  s!"{autoR sg.waistPositionUm (s.signalWaistPos / micro)} {rtok c.deffPmPerVolt (s.deff / pmPerVolt)} {idler} {poling}"

/-! key=value descriptors -/

def kvs (ts : List String) : List (String × String) :=
  ts.filterMap fun t =>
    match t.splitOn "=" with
    | [k, v] => some (k, v)
    | _ => none

def look (m : List (String × String)) (k : String) : Option String := (m.find? (·.1 == k)).map (·.2)

def lookFl (m : List (String × String)) (k : String) : Option Float := (look m k).bind parseFl

def lookAuto (m : List (String × String)) (k : String) : Option (Auto Float) :=
  match look m k with
  | some "A" => some .auto
  | some t => (parseFl t).map .param
  | none => none

def apodOfCsv (s : String) : Option (Apod Float) :=
  (pApod.run (s.splitOn ",")).map (·.1)

def beamCfg (m : List (String × String)) (pre : String) : Option (BeamCfg Float) := do
  let wl ← lookFl m (pre ++ ".wl")
  let waist ← lookFl m (pre ++ ".waist")
  pure { wavelengthNm := wl, phiDeg := (lookFl m (pre ++ ".phi")).getD 0.0,
         thetaDeg := lookFl m (pre ++ ".theta"), thetaExternalDeg := lookFl m (pre ++ ".thetae"),
         waistUm := waist, waistPositionUm := (lookAuto m (pre ++ ".wpos")).getD .auto }

/-- descriptor → `RawConfig` (absent keys = absent JSON fields) -/
def rawConfig (m : List (String × String)) : Option (RawConfig Float) := do
  let kind ← (look m "c.kind").bind parseNat
  let pm ← ((look m "c.pm").bind parseNat).bind PMType.pmOfIndex
  let len ← lookFl m "c.len"
  let temp ← lookFl m "c.temp"
  let pwl ← lookFl m "p.wl"; let pwaist ← lookFl m "p.waist"; let pbw ← lookFl m "p.bw"
  let ppow ← lookFl m "p.power"
  let swl ← lookFl m "s.wl"; let swaist ← lookFl m "s.waist"
  let deff ← lookFl m "deff"
  let idler : Option (Auto (BeamCfg Float)) ←
    match look m "idler" with
    | none => some none
    | some "A" => some (some .auto)
    | some "I" => (beamCfg m "i").map fun b => some (.param b)
    | _ => none
  let poling : Option (PolingCfg Float) ←
    match look m "pp" with
    | none => some none
    | some "O" => some (some .off)
    | some "P" => do
      let per ← lookAuto m "pp.period"
      let apod ← match look m "pp.apod" with
        | none => some Apod.off
        | some s => apodOfCsv s
      some (some (.config per apod))
    | _ => none
  pure { kind, pmType := pm, crystalPhiDeg := lookFl m "c.phi", crystalThetaDeg := lookAuto m "c.theta",
         lengthUm := len, temperatureC := temp,
         counterProp := ((look m "c.cp").bind parseNat).map (· != 0),
         pump := ⟨pwl, pwaist, pbw, ppow, lookFl m "p.thr"⟩,
         signalWavelengthNm := swl, signalPhiDeg := lookFl m "s.phi", signalThetaDeg := lookFl m "s.theta",
         signalThetaExternalDeg := lookFl m "s.thetae", signalWaistUm := swaist,
         signalWaistPositionUm := lookAuto m "s.wpos", idler, poling, deffPmPerVolt := deff }

/-- results of the explicit public calls, as constant functions; a routine the harness did not call
answers `panic "ext-missing"` (which no implementation outcome matches) -/
def outFl (m : List (String × String)) (k : String) : Outcome Float :=
  match look m k with
  | none => .panic ("ext-missing:" ++ k)
  | some "PANIC" => .panic "ext"
  | some "ERR" => .err "period"
  | some t => match parseFl t with
    | some x => .ok x
    | none => .panic "ext-parse"

def outBool (m : List (String × String)) (k : String) : Outcome Bool :=
  match look m k with
  | none => .panic ("ext-missing:" ++ k)
  | some "PANIC" => .panic "ext"
  | some "0" => .ok false
  | some "1" => .ok true
  | _ => .panic "ext-parse"

def outBeam (m : List (String × String)) (k : String) : Outcome (Beam Float) :=
  match look m k with
  | none => .panic ("ext-missing:" ++ k)
  | some "PANIC" => .panic "ext"
  | some "ERR" => .err "ls<=lp"
  | some t => match pBeam.run (t.splitOn ",") with
    | some (b, _) => .ok b
    | none => .panic "ext-parse"

def errTok {β} : Outcome β → String
  | .ok _ => "OK"
  | .err e => "ERR:" ++ e
  | .panic s => if s.startsWith "ext-missing" || s == "ext-parse" then "MODEL:" ++ s else "PANIC"

/-- The numeric sub-routines as lookups into the results the harness obtained by explicit public
calls.  Signal and idler requests of the same routine are told apart by their arguments (the
signal's request is the one made with the beam / wavelength built from the signal's configuration
against the crystal before the optimum angle is assigned); when the arguments coincide the
routine, being a function, returns the same value for both. -/
def tryAsSpdcLine (args : List String) : Option String := do
  let (d, e) := args.span (· != "ext")
  let m := kvs d
  let x := kvs (e.drop 1)
  let raw ← rawConfig m
  let cfg := raw.fill
  let c0 := cfg.crystal.toSetup
  let sigPol := c0.pmType.signalPol
  let sigBeam0 : Beam Float :=
    Beam.new sigPol (cfg.signal.phiDeg * deg) 0.0 (cfg.signal.wavelengthNm * nano) (cfg.signal.waistUm * micro)
  let sigAngle : Float := Transc.abs ((cfg.signal.thetaExternalDeg.getD 0.0) * deg)
  let ext : Ext Float :=
    { snell := fun b a c =>
        if (look x "snell_s").isSome && b.pol == sigPol && b.phi == sigBeam0.phi && b.freq == sigBeam0.freq
            && b.waistX == sigBeam0.waistX && a == sigAngle && c.theta == c0.theta then outFl x "snell_s"
        else outFl x "snell_i"
      signNeg := fun _ _ _ => outBool x "sign"
      period := fun _ _ _ => outFl x "period"
      theta := fun _ _ _ => outFl x "theta"
      idler := fun _ _ _ _ => outBeam x "idler"
      waistPos := fun _ lam pol =>
        if lam == sigBeam0.wavelength && pol == sigPol then outFl x "wps" else outFl x "wpi" }
  pure (match tryAsSpdc cfg ext with
    | .ok s => "OK " ++ setupTokens s
    | o => errTok o)

/-- the swept setters: `snell<k>` / `sign<k>` answer the k-th setter of the point -/
def extOfSweep (x : List (String × String)) (slot : Nat) : Ext Float :=
  { snell := fun _ _ _ => outFl x s!"snell{slot}"
    signNeg := fun _ _ _ => outBool x s!"sign{slot}"
    period := fun _ _ _ => .panic "unused"
    theta := fun _ _ _ => .panic "unused"
    idler := fun _ _ _ _ => .panic "unused"
    waistPos := fun _ _ _ => .panic "unused" }

def cfgOut (o : Outcome (Setup Float)) : String :=
  match o with
  | .ok s => configTokensS s
  | o => errTok o

/-- configuration of the swept setup plus the stored poling sign (which the configuration omits) -/
def cfgOutSigned (o : Outcome (Setup Float)) : String :=
  match o with
  | .ok s => configTokensS s ++ " " ++ (match s.pp with
      | .off => "sign:off"
      | .on _ neg _ => if neg then "sign:neg" else "sign:pos")
  | o => errTok o

def handle (op : String) (args : List String) : Option String :=
  match op with
  | "try_as_spdc" => tryAsSpdcLine args
  | "sigfigs" =>
    match args with
    | [x] => do
      let x ← parseFl x
      pure (fl (sigfigs x))
    | _ => none
  | "as_config" => do
    let (s, _) ← pSetup.run args
    pure (configTokensS s)
  | "sweep_pt" => do
    let (st, rest) := args.span (· != "|")
    let (s, _) ← pSetup.run st
    match rest.drop 1 with
    | p1 :: v1 :: p2 :: v2 :: "ext" :: e =>
      let x := kvs e
      let v1 ← parseFl v1; let v2 ← parseFl v2
      pure (match Path.ofString p1, Path.ofString p2 with
        | some q1, some q2 =>
          cfgOutSigned ((setter (extOfSweep x 1) q1 s v1).bind fun s1 => setter (extOfSweep x 2) q2 s1 v2)
        | _, _ => "ERR")
    | _ => none
  | "sweep_order" => do
    let (st, rest) := args.span (· != "|")
    let (s, _) ← pSetup.run st
    match rest.drop 1 with
    | [p1, p2, x0, x1, nx, y0, y1, ny] =>
      let x0 ← parseFl x0; let x1 ← parseFl x1; let nx ← parseNat nx
      let y0 ← parseFl y0; let y1 ← parseFl y1; let ny ← parseNat ny
      match tryNew p1 p2 with
      | .ok (q1, q2) =>
        let l := sweep (extOfSweep [] 0) q1 q2 s ⟨⟨x0, x1, nx⟩, ⟨y0, y1, ny⟩⟩
        pure (" ".intercalate (toString l.length :: l.map cfgOut)).trimAsciiEnd.toString
      | _ => pure "ERR"
    | _ => none
  | "path_parse" =>
    match args with
    | [s] => do
      let cs ← PMType.decStr s
      let str := String.ofList cs
      let r1 := match tryNew str "deff_pm_per_volt" with
        | .ok _ => "OK" | _ => "ERR"
      let r2 := match tryNew "crystal.phi_deg" str with
        | .ok _ => "OK" | _ => "ERR"
      pure s!"{r1} {r2}"
    | _ => none
  | _ => none

end Spdc.Driver.Config
