import Spdc.Model.PMType
import Spdc.Model.Wire
/-! Line-protocol handlers for the string forms (C16): `pm_parse`, `pol_parse`, `pm_table`. -/
namespace Spdc.Driver.PMType
open Spdc Spdc.PM Spdc.Wire

def hexNat (s : String) : Option Nat :=
  if s.isEmpty then none else
  s.toList.foldlM (fun (acc : Nat) c => (hexVal c).map (fun v => acc * 16 + v)) 0

/-- decode `s:<hex>.<hex>…` -/
def decStr (tok : String) : Option (List Char) :=
  match tok.toList with
  | 's' :: ':' :: rest =>
    if rest.isEmpty then some [] else
    ((String.ofList rest).splitOn ".").mapM fun h => (hexNat h).map Char.ofNat
  | _ => none

def encStr (cs : List Char) : String :=
  "s:" ++ ".".intercalate (cs.map fun c => String.ofList (Nat.toDigits 16 c.toNat))

def pmIndex : PM.PMType → Nat
  | .t0_o_oo => 0 | .t0_e_ee => 1 | .t1_e_oo => 2 | .t2_e_eo => 3 | .t2_e_oe => 4

def pmOfIndex : Nat → Option PM.PMType
  | 0 => some .t0_o_oo | 1 => some .t0_e_ee | 2 => some .t1_e_oo | 3 => some .t2_e_eo
  | 4 => some .t2_e_oe | _ => none

def polTok : Pol → String
  | .o => "o" | .e => "e"

def handle (op : String) (args : List String) : Option String :=
  match op, args with
  | "pm_parse", [s] => do
    let cs ← decStr s
    pure (match parse cs with
      | some t => toString (pmIndex t)
      | none => "ERR")
  | "pol_parse", [s] => do
    let cs ← decStr s
    pure (match Pol.parse cs with
      | some p => polTok p
      | none => "ERR")
  | "pm_table", [i] => do
    let i ← parseNat i
    let t ← pmOfIndex i
    pure s!"{encStr t.printL} {polTok t.pumpPol} {polTok t.signalPol} {polTok t.idlerPol} {pmIndex t.inverse}"
  | _, _ => none

end Spdc.Driver.PMType
