import Spdc.Model.Auto
import Spdc.Driver.NM
/-! Line-protocol handlers for auto poling period / auto crystal angle (C04) — Float instance. -/
namespace Spdc.Driver.Auto
open Spdc Spdc.Auto Spdc.NM1D Spdc.Wire Spdc.Driver.NM

def showPeriod : Outcome (Period Float) → String
  | .ok .infinite => "OKINF"
  | .ok (.finite v) => s!"OK {fl v}"
  | .err _ => "ERR"
  | .panic _ => "PANIC"

def handle (op : String) (args : List String) : Option String :=
  match op, args with
  | "opt_period_col", [z, l] => do
    let z ← parseFl z; let l ← parseFl l
    pure (showPeriod (optimumPolingPeriod z (fun neg p => collinearCost z neg p) l))
  | "opt_period_tab", z :: l :: tbl => do
    let z ← parseFl z; let l ← parseFl l
    let t ← parseTable tbl
    pure (showPeriod (optimumPolingPeriod z (fun _ p => ofFloat (tableCost t p)) l))
  | "compute_sign", [z] => do
    let z ← parseFl z
    pure (if computeSign z then "NEGATIVE" else "POSITIVE")
  | "opt_theta_tab", tbl => do
    let t ← parseTable tbl
    pure (match optimumTheta (fun x => ofFloat (tableCost t x)) with
      | .ok x => fl x
      | .err _ => "ERR"
      | .panic _ => "PANIC")
  | _, _ => none

end Spdc.Driver.Auto
