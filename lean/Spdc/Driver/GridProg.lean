import Spdc.Model.GridProg
import Spdc.Model.Wire
import Spdc.Driver.Grid
/-! Line-protocol handlers for iterator programs (family `iterprog`, C14/C15) — Float instance. -/
namespace Spdc.Driver.GridProg
open Spdc Spdc.Grid Spdc.Wire Spdc.Driver.Grid

/-- `F` `B` `N<k>` `M<k>` `L`, comma separated -/
def parseOp (t : String) : Option IterOp :=
  match t.toList with
  | ['F'] => some .next
  | ['B'] => some .nextBack
  | ['L'] => some .len
  | 'N' :: ds => (String.ofList ds).toNat?.map .nth
  | 'M' :: ds => (String.ofList ds).toNat?.map .nthBack
  | _ => none

def parseProg (s : String) : Option (List IterOp) := (s.splitOn ",").mapM parseOp

def out1 : IterOut Float → String
  | .item (some x) => fl x
  | .item none => "-"
  | .len n => toString n

def out2 : IterOut (Float × Float) → String
  | .item (some p) => fl p.1 ++ " " ++ fl p.2
  | .item none => "-"
  | .len n => toString n

def handle (op : String) (args : List String) : Option String :=
  match op, args with
  | "steps_prog", [a, b, n, prog] => do
    let s ← steps? a b n
    let p ← parseProg prog
    pure (" ".intercalate ((s.iter.prog p).map out1))
  | "steps2d_prog", [ax, bx, nx, ay, by', ny, prog] => do
    let x ← steps? ax bx nx; let y ← steps? ay by' ny
    let p ← parseProg prog
    let s : Steps2D Float := ⟨x, y⟩
    let it : Iter2 Float := ⟨s, 0, s.len, 0, s.len⟩
    pure (" ".intercalate ((it.prog p).map out2))
  | "part2_prog", [ax, bx, nx, ay, by', ny, lo, hi, prog] => do
    let x ← steps? ax bx nx; let y ← steps? ay by' ny
    let lo ← parseNat lo; let hi ← parseNat hi
    let p ← parseProg prog
    let s : Steps2D Float := ⟨x, y⟩
    pure (match Iter2.newPartition s lo hi with
      | .ok it => " ".intercalate ((it.prog p).map out2)
      | _ => "PANIC")
  | _, _ => none

end Spdc.Driver.GridProg
