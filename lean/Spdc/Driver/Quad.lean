import Spdc.Model.Quad
import Spdc.Model.Wire
/-!
Line-protocol handlers for the quadrature family (C12) — Float instance of the model.

Integrand tokens (1-D):  `poly <n> re0 im0 … ` | `exp <k> <re A> <im A>` | `ind <x0>` | `win a b mr mi nr r… ni i…`
(structured test polynomial `P_r·w_r + i·P_i·w_i` with windows vanishing exactly at the end points / midpoint)
Integrand tokens (2-D):  `sep <1-D> <1-D>` | `poly2 <rows> <cols> re im …` (row j = coefficients of `y^j`)
Every result is divided by the scale `S` given on the line (an upper bound of `∫|f|` computed by the
harness) so that the comparison tolerance is relative to the integral's scale.
-/
namespace Spdc.Driver.Quad
open Spdc Spdc.Quad Spdc.Wire

abbrev F1 := Float → Cx Float
abbrev F2 := Float → Float → Cx Float

def takeFls : Nat → List String → Option (List Float × List String)
  | 0, r => some ([], r)
  | n + 1, t :: r => do
    let x ← parseFl t
    let (xs, r') ← takeFls n r
    pure (x :: xs, r')
  | _ + 1, [] => none

def pairUp : List Float → List (Cx Float)
  | a :: b :: r => ⟨a, b⟩ :: pairUp r
  | _ => []

def chunk (k : Nat) (l : List (Cx Float)) : Nat → List (List (Cx Float))
  | 0 => []
  | n + 1 => l.take k :: chunk k (l.drop k) n

def indEval (x0 x : Float) : Cx Float :=
  if ¬ (x < x0) ∧ ¬ (x0 < x) then Cx.one else Cx.zero

/-- real Horner, `cs.iter().rev().fold(0, |acc, c| acc*x + c)` -/
def hornerR (cs : List Float) (x : Float) : Float := cs.foldr (fun c acc => acc * x + c) 0.0

/-- window of a structured test integrand tied to `[a,b]`, `m = 0.5(a+b)` -/
def winMode (mode : Nat) (a b x : Float) : Float :=
  let m := 0.5 * (a + b)
  match mode with
  | 0 => 1.0
  | 1 => (x - a) * (b - x)
  | 2 => ((x - a) * (b - x)) * ((x - m) * (x - m))
  | _ => 0.0

def winEval (a b : Float) (mr mi : Nat) (pr pi : List Float) (x : Float) : Cx Float :=
  ⟨hornerR pr x * winMode mr a b x, hornerR pi x * winMode mi a b x⟩

def parse1 : List String → Option (F1 × List String)
  | "win" :: a :: b :: mr :: mi :: nr :: r => do
    let a ← parseFl a; let b ← parseFl b; let mr ← parseNat mr; let mi ← parseNat mi
    let nr ← parseNat nr
    let (pr, r1) ← takeFls nr r
    match r1 with
    | ni :: r2 =>
      let ni ← parseNat ni
      let (pi, r3) ← takeFls ni r2
      pure (winEval a b mr mi pr pi, r3)
    | [] => none
  | "poly" :: n :: r => do
    let n ← parseNat n
    let (xs, r') ← takeFls (2 * n) r
    pure (polyEval (pairUp xs), r')
  | "exp" :: k :: ar :: ai :: r => do
    let k ← parseFl k; let ar ← parseFl ar; let ai ← parseFl ai
    pure (expEval k ⟨ar, ai⟩, r)
  | "ind" :: x0 :: r => do
    let x0 ← parseFl x0
    pure (indEval x0, r)
  | _ => none

def parse2 : List String → Option (F2 × List String)
  | "sep" :: r => do
    let (g, r1) ← parse1 r
    let (h, r2) ← parse1 r1
    pure ((fun x y => Cx.mul (g x) (h y)), r2)
  | "poly2" :: rows :: cols :: r => do
    let rows ← parseNat rows; let cols ← parseNat cols
    let (xs, r') ← takeFls (2 * rows * cols) r
    pure (poly2Eval (chunk cols (pairUp xs) rows), r')
  | _ => none

def outCx (s : Float) (z : Cx Float) : String := fl (z.re / s) ++ " " ++ fl (z.im / s)

def outOutcome (s : Float) : Outcome (Cx Float) → String
  | .ok z => outCx s z
  | .err e => "ERR:" ++ e
  | .panic _ => "PANIC"

def handle (op : String) (args : List String) : Option String :=
  match op, args with
  | "simpson", a :: b :: divs :: s :: rest => do
    let a ← parseFl a; let b ← parseFl b; let divs ← parseNat divs; let s ← parseFl s
    let (f, _) ← parse1 rest
    pure (outOutcome s (simpson f a b divs))
  | "simpson2d", ax :: bx :: ay :: by_ :: divs :: s :: rest => do
    let ax ← parseFl ax; let bx ← parseFl bx; let ay ← parseFl ay; let by_ ← parseFl by_
    let divs ← parseNat divs; let s ← parseFl s
    let (f, _) ← parse2 rest
    pure (outOutcome s (simpson2d f ax bx ay by_ divs))
  | "adaptive", a :: b :: eps :: depth :: s :: rest => do
    let a ← parseFl a; let b ← parseFl b; let eps ← parseFl eps; let depth ← parseNat depth
    let s ← parseFl s
    let (f, _) ← parse1 rest
    pure (outCx s (simpsonAdaptive f a b eps depth) ++ s!" {simpsonAdaptiveEvals f a b eps depth}")
  | "adaptive2d", ax :: bx :: ay :: by_ :: eps :: depth :: s :: rest => do
    let ax ← parseFl ax; let bx ← parseFl bx; let ay ← parseFl ay; let by_ ← parseFl by_
    let eps ← parseFl eps; let depth ← parseNat depth; let s ← parseFl s
    let (f, _) ← parse2 rest
    pure (outCx s (simpsonAdaptive2d f ax bx ay by_ eps depth))
  | "gl", a :: b :: n :: rest => do
    let a ← parseFl a; let b ← parseFl b; let n ← parseNat n
    let (xs, r1) ← takeFls n rest
    let (ws, r2) ← takeFls n r1
    match r2 with
    | s :: r3 =>
      let s ← parseFl s
      let (f, _) ← parse1 r3
      pure (outCx s (ruleApply xs ws f a b))
    | [] => none
  | "gl2d", a :: b :: c :: d :: n :: rest => do
    let a ← parseFl a; let b ← parseFl b; let c ← parseFl c; let d ← parseFl d; let n ← parseNat n
    let (xs, r1) ← takeFls n rest
    let (ws, r2) ← takeFls n r1
    match r2 with
    | s :: r3 =>
      let s ← parseFl s
      let (f, _) ← parse2 r3
      pure (outCx s (ruleApply2d xs ws f a b c d))
    | [] => none
  | "glmom", n :: rest => do
    let n ← parseNat n
    let (xs, r1) ← takeFls n rest
    let (ws, _) ← takeFls n r1
    pure (fls ((List.range (2 * n)).map fun k => ruleMoment xs ws k))
  | _, _ => none

end Spdc.Driver.Quad
