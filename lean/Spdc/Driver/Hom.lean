import Spdc.Model.Hom
import Spdc.Model.Schmidt
import Spdc.Model.Wire
/-! Line-protocol handlers for the HOM / Schmidt family (C09, C10, C11) — Float instance of the model.

Complex arrays travel as `<count> <re im>*`. -/
namespace Spdc.Driver.Hom
open Spdc Spdc.Grid Spdc.Hom Spdc.Schmidt Spdc.Wire

/-- take `n` floats -/
def takeFl : Nat → List String → Option (List Float × List String)
  | 0, r => some ([], r)
  | n + 1, t :: r => do
    let x ← parseFl t
    let (xs, r') ← takeFl n r
    pure (x :: xs, r')
  | _ + 1, [] => none

def pairUp : List Float → List (Cx Float)
  | a :: b :: r => ⟨a, b⟩ :: pairUp r
  | _ => []

/-- `<count> <re im>*` -/
def takeCx (ts : List String) : Option (Array (Cx Float) × List String) :=
  match ts with
  | c :: r => do
    let n ← parseNat c
    let (xs, r') ← takeFl (2 * n) r
    pure ((pairUp xs).toArray, r')
  | [] => none

/-- `<count> <x>*` -/
def takeFls (ts : List String) : Option (List Float × List String) :=
  match ts with
  | c :: r => do
    let n ← parseNat c
    takeFl n r
  | [] => none

def takeGrid (ts : List String) : Option (Steps2D Float × List String) :=
  match ts with
  | ax :: bx :: nx :: ay :: by' :: ny :: r => do
    let ax ← parseFl ax; let bx ← parseFl bx; let nx ← parseNat nx
    let ay ← parseFl ay; let by' ← parseFl by'; let ny ← parseNat ny
    pure (⟨⟨ax, bx, nx⟩, ⟨ay, by', ny⟩⟩, r)
  | _ => none

def outFl : Outcome Float → String
  | .ok x => fl x
  | .err e => "ERR:" ++ e
  | .panic _ => "PANIC"

def outFls : Outcome (List Float) → String
  | .ok l => fls l
  | .err e => "ERR:" ++ e
  | .panic _ => "PANIC"

def takeTwoSrc (ts : List String) : Option (TwoSrc Float × List String) := do
  let (a1, ts) ← takeCx ts
  let (a2, ts) ← takeCx ts
  let (a3, ts) ← takeCx ts
  let (a4, ts) ← takeCx ts
  let (a5, ts) ← takeCx ts
  let (a6, ts) ← takeCx ts
  let (a7, ts) ← takeCx ts
  let (a8, ts) ← takeCx ts
  pure (⟨a1, a2, a3, a4, a5, a6, a7, a8⟩, ts)

/-- `<count> <x>*` printed back -/
def putFls (xs : List Float) : String :=
  if xs.isEmpty then "0" else toString xs.length ++ " " ++ fls xs

/-- `<m> (name <count> <x>*)*m` -/
def takeNamed : Nat → List String → Option (List (String × List Float) × List String)
  | 0, r => some ([], r)
  | n + 1, name :: r => do
    let (xs, r') ← takeFls r
    let (rest, r'') ← takeNamed n r'
    pure ((name, xs) :: rest, r'')
  | _ + 1, [] => none

def putNamed (m : List (String × List Float)) : String :=
  " ".intercalate (toString m.length :: m.map fun e => e.1 ++ " " ++ putFls e.2)

def putTwoRes (r : TwoRes (List Float)) : String :=
  putFls r.ss ++ " " ++ putFls r.ii ++ " " ++ putFls r.si


def handle (op : String) (args : List String) : Option String :=
  match op with
  | "jsi_norm" => do
    let (f, _) ← takeCx args
    pure (fl (jsiNorm f))
  | "hom_rate" => do
    -- grid τ (N|S norm) f g
    let (g, ts) ← takeGrid args
    match ts with
    | τ :: flag :: ts => do
      let τ ← parseFl τ
      let (norm, ts) ← (match flag, ts with
        | "N", ts => some (none, ts)
        | "S", x :: ts => (parseFl x).map fun v => (some v, ts)
        | _, _ => none)
      let (f, ts) ← takeCx ts
      let (gs, _) ← takeCx ts
      pure (outFl (homRate g f gs τ norm))
    | _ => none
  | "hom_rate_series" => do
    -- grid <nτ τ…> f g
    let (g, ts) ← takeGrid args
    let (τs, ts) ← takeFls ts
    let (f, ts) ← takeCx ts
    let (gs, _) ← takeCx ts
    pure (outFls (homRateSeries g f gs τs))
  | "hom_vis" => do
    -- grid δt f g
    let (g, ts) ← takeGrid args
    match ts with
    | δ :: ts => do
      let δ ← parseFl δ
      let (f, ts) ← takeCx ts
      let (gs, _) ← takeCx ts
      pure (outFl (homVisibility g f gs δ))
    | _ => none
  | "swap_arr" => do
    -- n f  →  the array read at exchanged positions
    match args with
    | n :: ts => do
      let n ← parseNat n
      let (f, _) ← takeCx ts
      pure (fls ((swapArr n f).toList.flatMap fun z => [z.re, z.im]))
    | _ => none
  | "hom2" => do
    -- grid1 grid2 <nτ τ…> eight arrays  →  ss… ii… si…
    let (r1, ts) ← takeGrid args
    let (r2, ts) ← takeGrid ts
    let (τs, ts) ← takeFls ts
    let (G, _) ← takeTwoSrc ts
    pure (match homTwoSourceSeries r1 r2 G τs with
      | .ok (ss, ii, si) => fls (ss ++ ii ++ si)
      | .err e => "ERR:" ++ e
      | .panic _ => "PANIC")
  | "hom2_vis" => do
    -- same(0|1) grid1 grid2 δss δii δsi eight arrays → Vss Vii Vsi
    match args with
    | same :: ts => do
      let (r1, ts) ← takeGrid ts
      let (r2, ts) ← takeGrid ts
      match ts with
      | a :: b :: c :: ts => do
        let a ← parseFl a; let b ← parseFl b; let c ← parseFl c
        let (G, _) ← takeTwoSrc ts
        pure (match twoSourceVisibilities (same == "1") r1 r2 G a b c with
          | .ok (x, y, z) => fls [x, y, z]
          | .err e => "ERR:" ++ e
          | .panic _ => "PANIC")
      | _ => none
    | _ => none
  | "hom2_named" => do
    -- route ss ii si (each `<count> <x>*`) → the by-name view in key order
    match args with
    | _route :: ts => do
      let (a, ts) ← takeFls ts
      let (b, ts) ← takeFls ts
      let (c, _) ← takeFls ts
      pure (putNamed (namedSorted (TwoRes.toNamed ⟨a, b, c⟩)))
    | _ => none
  | "hom2_unnamed" => do
    -- mode(default|strict) default-value <m> (name value)*m → ss ii si
    match args with
    | mode :: ts => do
      let (d, ts) ← takeFls ts
      match ts with
      | m :: ts => do
        let m ← parseNat m
        let (es, _) ← takeNamed m ts
        if mode == "strict" then
          pure (match TwoRes.ofNamedStrict es with
            | .ok r => putTwoRes r
            | .err e => "ERR:" ++ (e.replace " " "-").replace "`" ""
            | .panic _ => "PANIC")
        else pure (putTwoRes (TwoRes.ofNamed d es))
      | _ => none
    | _ => none
  | "schmidt" => do
    let (f, _) ← takeCx args
    pure (outFl (schmidt f))
  | _ => none

end Spdc.Driver.Hom
