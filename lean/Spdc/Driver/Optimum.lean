import Spdc.Model.Optimum
import Spdc.Model.Wire
/-! Line-protocol handlers for the optimum family (C20) — Float instance of the model.

The numeric sub-routines of `try_as_optimum` are parameters of the model; on each case the harness
passes the values the *real* routines returned (for every candidate argument tuple: reset / unreset
signal, old / new crystal angle, old / new poling, old / new idler) and the handlers below turn them
into lookup functions.  What is compared is therefore the model's wiring. -/
namespace Spdc.Driver.Optimum
open Spdc Spdc.Optimum Spdc.Wire

def nan : Float := 0.0 / 0.0
def beq (a b : Float) : Bool := a.toBits == b.toBits

def splitBar (l : List String) : List (List String) :=
  let rec go (acc : List String) (out : List (List String)) : List String → List (List String)
    | [] => (acc.reverse :: out).reverse
    | "|" :: r => go [] (acc.reverse :: out) r
    | t :: r => go (t :: acc) out r
  go [] [] l

def parsePol : String → Option Pol
  | "o" => some .o
  | "e" => some .e
  | _ => none
def polTok : Pol → String
  | .o => "o"
  | .e => "e"

def parseBeam : List String → Option (Beam Float × List String)
  | wx :: wy :: f :: p :: th :: ph :: dx :: dy :: dz :: rest => do
    let wx ← parseFl wx; let wy ← parseFl wy; let f ← parseFl f; let p ← parsePol p
    let th ← parseFl th; let ph ← parseFl ph
    let dx ← parseFl dx; let dy ← parseFl dy; let dz ← parseFl dz
    pure (⟨wx, wy, f, p, th, ph, ⟨dx, dy, dz⟩⟩, rest)
  | _ => none

def beamTok (b : Beam Float) : String :=
  s!"{fl b.wx} {fl b.wy} {fl b.freq} {polTok b.pol} {fl b.theta} {fl b.phi} {fl b.dir.x} {fl b.dir.y} {fl b.dir.z}"

def parseCrystal : List String → Option (Crystal Float × List String)
  | k :: pm :: ph :: th :: len :: t :: cp :: rest => do
    let k ← parseNat k; let pm ← parseNat pm
    let ph ← parseFl ph; let th ← parseFl th; let len ← parseFl len; let t ← parseFl t
    let cp ← parseNat cp
    pure (⟨k, pm, ph, th, len, t, cp == 1⟩, rest)
  | _ => none

def parsePP : List String → Option (PP Float String × List String)
  | "off" :: _ :: _ :: _ :: rest => some (.off, rest)
  | "on" :: p :: n :: a :: rest => do
    let p ← parseFl p; let n ← parseNat n
    pure (.on p (n == 1) a, rest)
  | _ => none

def ppTok : PP Float String → String
  | .off => "off - - -"
  | .on p n a => s!"on {fl p} {if n then 1 else 0} {a}"

def parseSetup (l : List String) : Option (Setup Float String) := do
  let (sg, l) ← parseBeam l
  let (id, l) ← parseBeam l
  let (pu, l) ← parseBeam l
  let (cs, l) ← parseCrystal l
  let (pp, l) ← parsePP l
  match l with
  | [pw, bw, th, zs, zi, de] =>
    let pw ← parseFl pw; let bw ← parseFl bw; let th ← parseFl th
    let zs ← parseFl zs; let zi ← parseFl zi; let de ← parseFl de
    pure ⟨sg, id, pu, cs, pp, pw, bw, th, zs, zi, de⟩
  | _ => none

def setupTok (s : Setup Float String) : String :=
  let c := s.cs
  s!"{beamTok s.signal} {beamTok s.idler} {beamTok s.pump} {c.kind} {c.pm} {fl c.phi} {fl c.theta} {fl c.length} {fl c.temp} {if c.counterProp then 1 else 0} {ppTok s.pp} {fl s.power} {fl s.bandwidth} {fl s.threshold} {fl s.zs} {fl s.zi} {fl s.deff}"

def outcomeFl : String → Outcome Float
  | "PANIC" => .panic "impl"
  | "ERR" => .err "impl"
  | t => match parseFl t with
    | some x => .ok x
    | none => .panic "unavailable"

def outcomeBeam : List String → Outcome (Beam Float)
  | ["PANIC"] => .panic "impl"
  | ["ERR"] => .err "impl"
  | l => match parseBeam l with
    | some (b, _) => .ok b
    | none => .panic "unavailable"

def ppSame : PP Float String → PP Float String → Bool
  | .off, .off => true
  | .on p n a, .on p' n' a' => beq p p' && n == n' && a == a'
  | _, _ => false

def parseAngles : List String → Option ((Float × Float × Vec3 Float) × List String)
  | ph :: th :: dx :: dy :: dz :: rest => do
    let ph ← parseFl ph; let th ← parseFl th
    let dx ← parseFl dx; let dy ← parseFl dy; let dz ← parseFl dz
    pure ((ph, th, ⟨dx, dy, dz⟩), rest)
  | _ => none

/-- waist-position table: groups of `theta freq pol value` -/
def parseOwp : List String → List (Float × Float × Pol × Float)
  | th :: f :: p :: v :: rest =>
    match parseFl th, parseFl f, parsePol p with
    | some th, some f, some p => (th, f, p, (parseFl v).getD nan) :: parseOwp rest
    | _, _, _ => parseOwp rest
  | _ => []

def handleOpt (args : List String) : Option String := do
  let secs := splitBar args
  let s ← parseSetup (secs.getD 0 [])
  let (d0, d90, d180) ← match secs.getD 1 [] with
    | [a, b, c] => do pure ((← parseFl a), (← parseFl b), (← parseFl c))
    | _ => none
  let (sa0, rest) ← parseAngles (secs.getD 2 [])
  let (sa180, _) ← parseAngles rest
  let (thA, thB) ← match secs.getD 3 [] with
    | [a, b] => some (outcomeFl a, outcomeFl b)
    | _ => none
  let (peA, peB) ← match secs.getD 4 [] with
    | [a, b] => some (outcomeFl a, outcomeFl b)
    | _ => none
  let idA := outcomeBeam (secs.getD 5 [])
  let idB := outcomeBeam (secs.getD 6 [])
  let owp := parseOwp (secs.getD 7 [])
  let isReset (b : Beam Float) : Bool :=
    (beq b.theta sa0.2.1 && beq b.phi sa0.1) || (beq b.theta sa180.2.1 && beq b.phi sa180.1)
  -- the crystal angle / poling the repaired code hands to `try_new_optimum`
  let newTheta : Float := match s.pp, thA with
    | .off, .ok t => t
    | _, _ => s.cs.theta
  let newPP : PP Float String := match s.pp, peA with
    | .on _ _ a, .ok p => PP.new p a
    | _, _ => .off
  let ext : Ext Float String := {
    deg := fun x => if x == 0.0 then d0 else if x == 90.0 then d90 else if x == 180.0 then d180 else nan
    setAngles := fun _ th => if beq th d0 then sa0 else if beq th d180 then sa180 else (nan, nan, ⟨nan, nan, nan⟩)
    optimumTheta := fun _ sig _ => if isReset sig then thA else thB
    optimumPolingPeriod := fun sig _ _ => if isReset sig then peA else peB
    optimumIdler := fun _ _ cs pp => if beq cs.theta newTheta && ppSame pp newPP then idA else idB
    optimalWaistPosition := fun cs f p =>
      match owp.find? (fun e => beq e.1 cs.theta && beq e.2.1 f && e.2.2.1 == p) with
      | some e => e.2.2.2
      | none => nan
  }
  pure (match tryAsOptimum ext s with
    | .ok o => setupTok o
    | .err _ => "ERR"
    | .panic _ => "PANIC")

/-! ### `idler_opt` -/

def twoPi : Float := 6.283185307179586
/-- `f64::rem_euclid(x, 2π)` on `(-2π, 4π)` (exact there) -/
def remTwoPi (x : Float) : Float :=
  if x < 0.0 then x + twoPi else if x < twoPi then x else x - twoPi
def normAngle (x : Float) : Float := remTwoPi x
def normAngleSigned (x : Float) : Float :=
  let r := remTwoPi x
  if r > 3.141592653589793 then r - twoPi else r
/-- `f64::signum` -/
def signum (x : Float) : Float :=
  if x.isNaN then x else if (x.toBits >>> 63) == 1 then -1.0 else 1.0

def handleIdlerOpt : List String → Option String
  | [ns, np, ls, lp, th, ph, sp, cp] => do
    let ns ← parseFl ns; let np ← parseFl np; let ls ← parseFl ls; let lp ← parseFl lp
    let th ← parseFl th; let ph ← parseFl ph; let cp ← parseNat cp
    let pp : PP Float String ← if sp == "off" then some .off else do
      let p ← parseFl sp
      pure (if p < 0.0 then .on (-p) true "x" else .on p false "x")
    let z : Vec3 Float := ⟨0.0, 0.0, 1.0⟩
    -- the signal carries tag `e`, the pump tag `o`; the `freq` fields hold vacuum wavelengths
    let signal : Beam Float := ⟨1.0, 1.0, ls, .e, th, ph, z⟩
    let pump : Beam Float := ⟨1.0, 1.0, lp, .o, 0.0, 0.0, z⟩
    let cs : Crystal Float := ⟨0, 0, 0.0, 0.0, 1.0, 0.0, cp == 1⟩
    let ix : IdlerExt Float := {
      index := fun b _ => if b.pol == .e then ns else np
      wavelength := fun f => f
      newBeam := fun p phi theta l wx wy => ⟨wx, wy, l, p, normAngleSigned theta, normAngle phi, z⟩
      normAngle := normAngle
      idlerPol := fun _ => .o
      signum := signum
    }
    pure (match idlerOptimum ix signal pump cs pp with
      | .ok b => s!"{fl b.theta} {fl b.phi} {fl b.freq}"
      | .err _ => "ERR"
      | .panic _ => "PANIC")
  | _ => none

/-! ### `js_acc`, `sweep` -/

structure Raw5 where
  a : Cx Float
  n : Float
  sr : Float
  sn : Float

def parseRaw5 : List String → Option Raw5
  | [re, im, n, sr, sn] => do
    pure ⟨⟨← parseFl re, ← parseFl im⟩, ← parseFl n, ← parseFl sr, ← parseFl sn⟩
  | _ => none

def dummyBeam (f tag : Float) : Beam Float := ⟨tag, tag, f, .o, 0.0, 0.0, ⟨0.0, 0.0, 1.0⟩⟩
def dummyCrystal : Crystal Float := ⟨0, 0, 0.0, 0.0, 1.0, 0.0, false⟩
/-- a setup that only carries its centre frequencies and tags: `deff` = id / swap tag, `zs` = 1 once optimised,
`signal.wx` = 0 for the original signal, 1 for the original idler -/
def dummySetup (fs fi tag : Float) : Setup Float String :=
  ⟨dummyBeam fs 0.0, dummyBeam fi 1.0, dummyBeam (fs + fi) 2.0, dummyCrystal, .off, 0.0, 0.0, 0.0, 0.0, 0.0, tag⟩

/-- `try_as_optimum` of the dummies: keeps the signal frequency, idler frequency from the table, tags `zs = zi = 1` -/
def dummyExt (idlerFreq : Beam Float → Float) : Ext Float String := {
  deg := fun x => x
  setAngles := fun _ _ => (0.0, 0.0, ⟨0.0, 0.0, 1.0⟩)
  optimumTheta := fun _ _ _ => .ok 0.0
  optimumPolingPeriod := fun _ _ _ => .ok 1.0
  optimumIdler := fun sig _ _ _ => .ok (dummyBeam (idlerFreq sig) 9.0)
  optimalWaistPosition := fun _ _ _ => 1.0
}

def handleJsAcc (args : List String) : Option String := do
  let secs := splitBar args
  let (sfs, sfi, w0s, w0i, ws, wi) ← match secs.getD 0 [] with
    | [a, b, c, d, e, f] => do
      pure ((← parseFl a), (← parseFl b), (← parseFl c), (← parseFl d), (← parseFl e), (← parseFl f))
    | _ => none
  let point ← parseRaw5 (secs.getD 1 [])
  let centre ← parseRaw5 (secs.getD 2 [])
  let hasIdler := secs.length ≥ 6
  let (x0s, x0i) := match secs.getD 3 [] with
    | [a, b] => ((parseFl a).getD nan, (parseFl b).getD nan)
    | _ => (nan, nan)
  let bad : Raw5 := ⟨⟨nan, nan⟩, nan, nan, nan⟩
  let spoint := (parseRaw5 (secs.getD 4 [])).getD bad
  let scentre := (parseRaw5 (secs.getD 5 [])).getD bad
  let s := dummySetup sfs sfi 0.0
  let ext := dummyExt fun sig => if sig.wx == 0.0 then w0i else x0i
  let pick (a b : Float) (st : Setup Float String) : Raw5 :=
    if st.deff == 0.0 then
      if st.zs == 0.0 then (if beq a ws && beq b wi then point else bad)
      else (if beq a w0s && beq b w0i then centre else bad)
    else
      if st.zs == 0.0 then (if beq a wi && beq b ws then spoint else bad)
      else (if beq a x0s && beq b x0i then scentre else bad)
  let sx : SpecExt Float String Unit := {
    jsaRaw := fun a b st _ => (pick a b st).a
    jsiSinglesRaw := fun a b st _ => (pick a b st).sr
    jsiNorm := fun a b st => (pick a b st).n
    jsiSinglesNorm := fun a b st => (pick a b st).sn
    swap := fun st => { st with signal := st.idler, idler := st.signal, deff := 1.0 }
  }
  match JointSpectrum.new ext sx s () with
  | .ok js =>
    let a := js.jsa sx ws wi
    let an := js.jsaNormalized sx ws wi
    let base := s!"{fl a.re} {fl a.im} {fl an.re} {fl an.im} {fl (js.jsi sx ws wi)} {fl (js.jsiNormalized sx ws wi)} {fl (js.jsiSingles sx ws wi)} {fl (js.jsiSinglesNormalized sx ws wi)}"
    if hasIdler then
      match js.jsiSinglesIdler sx ext ws wi, js.jsiSinglesIdlerNormalized sx ext ws wi with
      | .ok v, .ok vn => pure s!"{base} {fl v} {fl vn}"
      | _, _ => pure "PANIC"
    else pure base
  | _ => pure "PANIC"

def handleSweep (args : List String) : Option String := do
  let secs := splitBar args
  let (w0s, w0i, ca, cn) ← match secs.getD 0 [] with
    | [a, b, re, im, n] => do
      pure ((← parseFl a), (← parseFl b), (⟨← parseFl re, ← parseFl im⟩ : Cx Float), (← parseFl n))
    | _ => none
  let entries ← (secs.drop 1).mapM fun
    | [a, b, re, im, n] => do
      pure ((← parseFl a), (← parseFl b), (⟨← parseFl re, ← parseFl im⟩ : Cx Float), (← parseFl n))
    | _ => none
  let base := dummySetup w0s w0i 0.0
  let ext := dummyExt fun _ => w0i
  let setups : List (Setup Float String) :=
    (List.range entries.length).zip entries |>.map fun (i, e) => dummySetup e.1 e.2.1 (Float.ofNat (i + 1))
  let look (a b : Float) (st : Setup Float String) : Cx Float × Float :=
    if st.zs == 1.0 then (if beq a w0s && beq b w0i then (ca, cn) else (⟨nan, nan⟩, nan))
    else match entries[(st.deff.toUInt64.toNat - 1)]? with
      | some e => if beq a e.1 && beq b e.2.1 then (e.2.2.1, e.2.2.2) else (⟨nan, nan⟩, nan)
      | none => (⟨nan, nan⟩, nan)
  let sx : SpecExt Float String Unit := {
    jsaRaw := fun a b st _ => (look a b st).1
    jsiSinglesRaw := fun _ _ _ _ => nan
    jsiNorm := fun a b st => (look a b st).2
    jsiSinglesNorm := fun _ _ _ => nan
    swap := fun st => st
  }
  let raw := jsiValues sx () setups
  match jsiValuesNormalized sx ext () base setups with
  | .ok nv => pure (fls (raw ++ nv))
  | _ => pure "PANIC"

def handle (op : String) (args : List String) : Option String :=
  match op with
  | "opt" => handleOpt args
  | "idler_opt" => handleIdlerOpt args
  | "js_acc" => handleJsAcc args
  | "sweep" => handleSweep args
  | _ => none

end Spdc.Driver.Optimum
