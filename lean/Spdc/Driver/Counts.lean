import Spdc.Model.Singles
import Spdc.Model.Counts
import Spdc.Model.Wire
/-! Line-protocol handlers for the counts family (C08) — Float instance of the model. -/
namespace Spdc.Driver.Counts
open Spdc Spdc.Singles Spdc.Counts Spdc.Grid Spdc.Wire

def splitBar (l : List String) : List (List String) :=
  let rec go (acc : List String) (out : List (List String)) : List String → List (List String)
    | [] => (acc.reverse :: out).reverse
    | "|" :: r => go [] (acc.reverse :: out) r
    | t :: r => go (t :: acc) out r
  go [] [] l

def floats (l : List String) : Option (List Float) := l.mapM parseFl

def parseIn : List Float → Option (SinglesIn Float)
  | [len, ts, ps, tse, wsq, wx, wy, sks, ski, ns, kp, ks, ki, z0s, rho, keff] =>
    some ⟨len, ts, ps, tse, wsq, wx, wy, sks, ski, ns, kp, ks, ki, z0s, rho, keff⟩
  | _ => none

/-- apodisation weight of a node (looked up by position) -/
def weightAt (nodes apod : List Float) (z : Float) : Float :=
  match (nodes.zip apod).find? (fun p => p.1.toBits == z.toBits) with
  | some p => p.2
  | none => 0.0 / 0.0

def handle (op : String) (args : List String) : Option String :=
  match op with
  | "singles_gl" => do
    let secs := splitBar args
    let p ← parseIn (← floats (secs.getD 0 []))
    let nodes ← floats (secs.getD 1 [])
    let weights ← floats (secs.getD 2 [])
    let apod ← floats (secs.getD 3 [])
    let c := coef p
    let f := fun z1 z2 => integrand c (weightAt nodes apod z1) (weightAt nodes apod z2) z1 z2
    pure (fl (pmSingles (gl2d nodes weights f)))
  | "singles_simpson" => do
    let secs := splitBar args
    let p ← parseIn (← floats (secs.getD 0 []))
    let nodes ← floats (secs.getD 1 [])
    let (dx, dy) ← match secs.getD 2 [] with
      | [a, b] => do pure ((← parseFl a), (← parseFl b))
      | _ => none
    let apod ← floats (secs.getD 3 [])
    let c := coef p
    let f := fun z1 z2 => integrand c (weightAt nodes apod z1) (weightAt nodes apod z2) z1 z2
    pure (fl (pmSingles (simpson2d nodes dx dy f)))
  | "counts" => do
    let secs := splitBar args
    match secs.getD 0 [] with
    | [corr, ax, bx, nx, ay, by', ny] =>
      let corr ← parseFl corr
      let g : Steps2D Float := ⟨⟨← parseFl ax, ← parseFl bx, ← parseNat nx⟩, ⟨← parseFl ay, ← parseFl by', ← parseNat ny⟩⟩
      let vals ← floats (secs.getD 1 [])
      pure (fl (counts corr g vals))
    | _ => none
  | "efficiencies" => do
    let secs := splitBar args
    match secs.getD 0 [] with
    | [corr, ax, bx, nx, ay, by', ny] =>
      let corr ← parseFl corr
      let g : Steps2D Float := ⟨⟨← parseFl ax, ← parseFl bx, ← parseNat nx⟩, ⟨← parseFl ay, ← parseFl by', ← parseNat ny⟩⟩
      let c ← floats (secs.getD 1 [])
      let s ← floats (secs.getD 2 [])
      let i ← floats (secs.getD 3 [])
      let e := efficiencies corr g c s i
      pure s!"{fl e.symmetric} {fl e.signal} {fl e.idler} {fl e.coincidences} {fl e.signalSingles} {fl e.idlerSingles}"
    | _ => none
  | "counts_corr" => do
    match ← floats args with
    | [lp, ls, li, ns, ni, np, ngs, ngi] => pure (fl (countsCorrection lp ls li ns ni np ngs ngi))
    | _ => none
  | "eff" => do
    match ← floats args with
    | [c, rs, ri] =>
      let e := efficienciesFromCounts c rs ri
      pure s!"{fl e.symmetric} {fl e.signal} {fl e.idler}"
    | _ => none
  | "jsi_singles_point" => do
    match ← floats args with
    | [raw, n] => pure (fl (jsiSinglesPoint raw n))
    | _ => none
  | "jsi_point" => do
    match ← floats args with
    | [re, im, n] => pure (fl (jsiPoint re im n))
    | _ => none
  | _ => none

end Spdc.Driver.Counts
