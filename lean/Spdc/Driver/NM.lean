import Spdc.Model.NM1D
import Spdc.Model.Wire
/-! Line-protocol handlers for the bounded 1-D Nelder–Mead (C04; used by C13, C20) — Float instance. -/
namespace Spdc.Driver.NM
open Spdc Spdc.NM1D Spdc.Wire

def fNaN : Float := 0.0 / 0.0
def fInf : Float := 1.0 / 0.0

/-- a Rust `f64` cost as argmin's comparisons see it -/
def ofFloat (x : Float) : Cost Float :=
  if x.isNaN then .nan else if x == fInf then .inf else .fin x

/-- the family of test cost closures; `harness/src/fam/nm.rs: cost_fn` is the same table -/
def costFam (fam : String) (p1 p2 p3 : Float) : Option (Float → Float) :=
  match fam with
  | "abs" => some fun x => Float.abs (x - p1)
  | "sq" => some fun x => (x - p1) * (x - p1)
  | "quart" => some fun x => let u := (x - p1) * (x - p1) - p2; u * u + p3 * x
  | "stair" => some fun x => Float.abs (Float.floor ((x - p1) / p2)) * p3
  | "recip" => some fun x => Float.abs (p1 - p2 / x)
  | "const" => some fun _ => p1
  | "nanabove" => some fun x => if x > p1 then fNaN else Float.abs (x - p2)
  | "infabove" => some fun x => if x > p1 then fInf else (x - p2) * (x - p2)
  | _ => none

/-- count and xor-checksum of the points at which the Rust closure itself is called
(the `Cost1d` wrapper short-circuits outside the bounds) -/
def traceSum (lo hi : Float) (log : List Float) : Nat × UInt64 :=
  log.foldl (fun (acc : Nat × UInt64) x =>
    if hi < x ∨ x < lo then acc
    else (acc.1 + 1, if x.isNaN then acc.2 else acc.2 ^^^ x.toBits)) (0, 0)

def showRun (r : Option (St Float)) (lo hi : Float) : String :=
  match r with
  | none => "PANIC"
  | some st =>
    match st.bestX with
    | none => "PANIC"
    | some x =>
      let t := traceSum lo hi st.log
      s!"{fl x} {t.1} h{hex16 t.2}"

/-- cost given as a table of `(x, f x)` pairs recorded from the real closure; a miss is NaN (which
the optimiser turns into a panic, so a diverging trajectory cannot go unnoticed) -/
def tableCost (tbl : List (UInt64 × Float)) (x : Float) : Float :=
  match tbl.find? (fun p => p.1 == x.toBits) with
  | some p => p.2
  | none => fNaN

def parseTable : List String → Option (List (UInt64 × Float))
  | [] => some []
  | [_] => none
  | a :: b :: r => do
    let x ← parseFl a
    let y ← parseFl b
    let t ← parseTable r
    pure ((x.toBits, y) :: t)

def handle (op : String) (args : List String) : Option String :=
  match op, args with
  | "nm1d", [fam, p1, p2, p3, g0, g1, mi, lo, hi, tol] => do
    let p1 ← parseFl p1; let p2 ← parseFl p2; let p3 ← parseFl p3
    let g0 ← parseFl g0; let g1 ← parseFl g1; let mi ← parseNat mi
    let lo ← parseFl lo; let hi ← parseFl hi; let tol ← parseFl tol
    let f ← costFam fam p1 p2 p3
    pure (showRun (runSt (fun x => ofFloat (f x)) g0 g1 mi lo hi tol) lo hi)
  | "nm1d_tab", g0 :: g1 :: mi :: lo :: hi :: tol :: tbl => do
    let g0 ← parseFl g0; let g1 ← parseFl g1; let mi ← parseNat mi
    let lo ← parseFl lo; let hi ← parseFl hi; let tol ← parseFl tol
    let t ← parseTable tbl
    pure (showRun (runSt (fun x => ofFloat (tableCost t x)) g0 g1 mi lo hi tol) lo hi)
  | _, _ => none

end Spdc.Driver.NM
