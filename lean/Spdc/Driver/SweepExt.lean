import Spdc.Model.Beam
import Spdc.Model.Wire
import Spdc.Driver.Beam
/-!
Line-protocol handler of the sweep family (C18) for the external-angle paths — Float instance.

* `sweep_snell nx ny nz cθ cφ φ pol |external|`  ⇒  `<internal> <external read back>`

  The internal angle a `*.theta_external_deg` setter stores, recomputed by the model of
  `Beam::calc_internal_theta_from_external` (`Beam.snellInternal`: bounded 1-D Nelder–Mead on
  `|sin θe − n(θ)·sin θ|`) from the principal indices of the SWEPT setup's crystal at the beam's
  wavelength (passed in, read through `CrystalType::get_indices`), the crystal orientation, the beam's
  azimuth and polarization and the requested angle; and the external angle that internal angle refracts
  back to (`Beam.snellExternal`, the model of `Beam::theta_external`).
-/
namespace Spdc.Driver.SweepExt
open Spdc Spdc.Index Spdc.Units Spdc.Beam Spdc.Wire

def handle (op : String) (args : List String) : Option String :=
  match op, args with
  | "sweep_snell", [nx, ny, nz, cθ, cφ, p, pol, e] => do
    let n : Vec3 Float := ⟨← parseFl nx, ← parseFl ny, ← parseFl nz⟩
    let cθ ← parseFl cθ; let cφ ← parseFl cφ; let p ← parseFl p
    let pol ← Spdc.Driver.Beam.parsePol pol
    let e ← parseFl e
    pure (match snellInternal n cθ cφ p pol e with
      | .ok t => fl t ++ " " ++ fl (snellExternal n cθ cφ p pol t)
      | _ => "PANIC PANIC")
  | _, _ => none

end Spdc.Driver.SweepExt
