import Spdc.Model.ComposeGrid
import Spdc.Driver.Compose
/-!
Line-protocol handlers for part 3 of the composed model (`Spdc/Model/ComposeGrid.lean`) — Float.

```
cmpg_points | cmpg_freq_space        <R>                               (no setup: the range adapters)
cmpg_<op>   <primitive setup of Driver/Compose> | <R> <divs> | <extras>
<R> = F | W | SD   ax bx nx  ay by ny      (FrequencySpace | WavelengthSpace | SumDiffFrequencySpace)
```
Nothing computed by the real crate is on any of these lines.  Values whose error is governed by the
oscillatory z-quadrature are printed as triples `value 0 scale` / `re im scale` (tolerance kind
`csum` of tools/props/_pmtol.py), `scale` being the absolute quadrature sum behind the value.
-/
namespace Spdc.Driver.ComposeGrid
open Spdc Spdc.Compose Spdc.Grid Spdc.Wire Spdc.Driver.Compose

def ranges? : List String → Option (Ranges Float × List String)
  | k :: ax :: bx :: nx :: ay :: by' :: ny :: r => do
    let g : Steps2D Float :=
      ⟨⟨← parseFl ax, ← parseFl bx, ← parseNat nx⟩, ⟨← parseFl ay, ← parseFl by', ← parseNat ny⟩⟩
    match k with
    | "F" => pure (.freq g, r)
    | "W" => pure (.wavelength g, r)
    | "SD" => pure (.sumDiff g, r)
    | _ => none
  | _ => none

def nan : Float := 0.0 / 0.0

def outS {β : Type} (f : β → String) : Outcome β → String
  | .ok b => f b
  | .err e => "ERR:" ++ e
  | .panic _ => "PANIC"

/-- the forward-error scale of `JointSpectrum::jsa` at one pair: `√norm · envelope · ½Σ|f|w·dx/3` -/
def scaleAt (S : Setup Float) (divs : Nat) (ωs ωi : Float) : Float :=
  if offSupport S ωs ωi then 0.0
  else
    match pmCoincAbs S divs ωs ωi, jsiNormalizationC S ωs ωi with
    | .ok sc, .ok n => n.sqrt * (pumpAmplitude S (ωs + ωi) * sc)
    | _, _ => nan

def sumF (l : List Float) : Float := l.foldl (· + ·) 0.0

/-- amplification of the amplitudes' quadrature error in a degree-0 functional of the array:
`Σ scale_k² / Σ |f_k|²` -/
def amplification (scales : List Float) (f : List (Cx Float)) : Float :=
  sumF (scales.map fun s => s * s) / sumF (f.map Cx.normSq)

/-- the same with the exchanged-argument array's scales: `Σ (s_k² + s'_k²) / Σ |f_k|²` bounds the
rounding of the HOM interference sum relative to the norm -/
def amplification2 (scales scalesSw : List Float) (f : List (Cx Float)) : Float :=
  (sumF (scales.map fun s => s * s) + sumF (scalesSw.map fun s => s * s)) / sumF (f.map Cx.normSq)

/-- two-source rates are quartic forms over the grids `⟨ls,li⟩`, `⟨li,li⟩`, `⟨ls,ls⟩` divided by `N²`:
`(Σ_{three grids} s² / N)²` -/
def twoSrcScale (scalesOn : List (Float × Float) → List Float) (g : Steps2D Float) (f : List (Cx Float)) : Float :=
  let sq := fun (x y : Steps Float) => sumF ((scalesOn (Steps2D.collect ⟨x, y⟩)).map fun s => s * s)
  let b := (sq g.x g.y + sq g.y g.y + sq g.x g.x) / sumF (f.map Cx.normSq)
  b * b

def triplesC (zs : List (Cx Float)) (scs : List Float) : String :=
  " ".intercalate ((zs.zip scs).map fun p => s!"{cx p.1} {fl p.2}")

def triplesR (vs : List Float) (scs : List Float) : String :=
  " ".intercalate ((vs.zip scs).map fun p => s!"{fl p.1} {fl 0.0} {fl p.2}")

def pointsStr (l : List (Float × Float)) : String :=
  " ".intercalate (l.map fun p => s!"{fl p.1} {fl p.2}")

def stepsStr (g : Steps2D Float) : String :=
  s!"{fl g.x.a} {fl g.x.b} {g.x.n} {fl g.y.a} {fl g.y.b} {g.y.n}"

def handle (op : String) (args : List String) : Option String := do
  if !op.startsWith "cmpg_" then none else
  match op with
  | "cmpg_points" => do
    let (R, _) ← ranges? args
    pure (pointsStr R.points)
  | "cmpg_freq_space" => do
    let (R, _) ← ranges? args
    pure (stepsStr R.toFrequencySpace)
  | _ => do
  let secs := splitBar args
  let S ← setup? (secs.getD 0 [])
  let xs := secs.getD 2 []
  match op with
  | "cmpg_group_index" =>
    -- signal / idler group index without poling (counts correction) and with the setup's poling
    pure (outS id ((idlerBeam S).bind fun i =>
      (groupIndex S (signalBeam S) .off).bind fun a => (groupIndex S i .off).bind fun b =>
      (groupIndex S (signalBeam S) (pp S)).bind fun c => (groupIndex S i (pp S)).map fun d =>
        fls [a, b, c, d]))
  | "cmpg_counts_corr" => pure (outS fl (countsCorrection S))
  | "cmpg_time_delay" => pure (outS fl (homTimeDelay S))
  | _ => do
  let (R, rest) ← ranges? (secs.getD 1 [])
  let divs ← match rest with
    | [d] => parseNat d
    | _ => none
  let g := R.toFrequencySpace
  let scalesOn := fun (pts : List (Float × Float)) => pts.map fun p => scaleAt S divs p.1 p.2
  let scalesSw := fun (pts : List (Float × Float)) => pts.map fun p => scaleAt S divs p.2 p.1
  match op with
  | "cmpg_jsa_range" =>
    pure (outS (fun zs => triplesC zs (scalesOn R.points)) (jsaRange S divs R))
  | "cmpg_jsi_range" =>
    pure (outS (fun vs => triplesR vs ((scalesOn R.points).map fun s => s * s)) (jsiRange S divs R))
  | "cmpg_jsi_singles_range" => pure (outS fls (jsiSinglesRange S divs R))
  | "cmpg_jsi_singles_idler_range" => pure (outS fls (jsiSinglesIdlerRange S divs R))
  | "cmpg_jsa_normalized_range" | "cmpg_jsi_normalized_range" =>
    -- centre scale: the optimum's own quadrature scale at its centre
    pure (match jointSpectrum S divs, asOptimum S with
      | .ok js, .ok o =>
        let c := js.jsaCenter
        let sc : Float := match idlerBeam o with
          | .ok i => scaleAt o divs (signalBeam o).frequency i.frequency
          | _ => nan
        if op == "cmpg_jsa_normalized_range" then
          outS (fun zs => triplesC zs ((zs.zip (scalesOn R.points)).map fun p =>
            p.2 / c + (p.1.re.abs + p.1.im.abs) * sc / c)) (js.jsaNormalizedRange R)
        else
          outS (fun vs => triplesR vs ((vs.zip (scalesOn R.points)).map fun p =>
            p.2 * p.2 / (c * c) + 2.0 * p.1 * sc / c)) (js.jsiNormalizedRange R)
      | _, _ => "PANIC")
  | "cmpg_jsi_singles_normalized_range" => pure (outS fls (jsiSinglesNormalizedRange S divs R))
  | "cmpg_counts_coinc" =>
    pure (match countsCoincidences S divs R, cellArea g, countsCorrection S with
      | .ok v, .ok dw2, .ok corr =>
        let sc := sumF ((scalesOn g.collect).map fun s => s * s * dw2.abs)
        s!"{fl v} {fl 0.0} {fl (corr.abs * sc)}"
      | .err e, _, _ => "ERR:" ++ e
      | _, _, _ => "PANIC")
  | "cmpg_counts_singles" =>
    pure (outS id ((countsSinglesSignal S divs R).bind fun a => (countsSinglesIdler S divs R).map fun b =>
      fls [a, b]))
  | "cmpg_efficiencies" =>
    pure (outS (fun (e : Counts.Efficiencies Float) =>
      fls [e.symmetric, e.signal, e.idler, e.coincidences, e.signalSingles, e.idlerSingles])
      (efficiencies S divs R))
  | "cmpg_hom_series" => do
    let τs ← xs.mapM parseFl
    pure (match jointSpectrum S divs with
      | .ok js =>
        (match homArrays js g, homRateSeries S divs R τs with
          | .ok a, .ok rates =>
            let amp := amplification2 (scalesOn g.collect) (scalesSw g.collect) a.1.toList
            triplesR rates (rates.map fun r => amp * (1.0 + (1.0 - 2.0 * r).abs))
          | _, .err e => "ERR:" ++ e
          | _, _ => "PANIC")
      | _ => "PANIC")
  | "cmpg_hom_vis" =>
    pure (match jointSpectrum S divs with
      | .ok js =>
        (match homArrays js g, homVisibility S divs R with
          | .ok a, .ok v =>
            let amp := amplification2 (scalesOn g.collect) (scalesSw g.collect) a.1.toList
            s!"{fl v.2} {fl 0.0} {fl (2.0 * amp * (1.0 + v.2.abs))}"
          | _, .err e => "ERR:" ++ e
          | _, _ => "PANIC")
      | _ => "PANIC")
  | "cmpg_hom2_series" => do
    let τs ← xs.mapM parseFl
    pure (match jointSpectrum S divs with
      | .ok js =>
        (match getJsa js g.x g.y, homTwoSourceSeries S divs R τs with
          | .ok a, .ok r =>
            let b := twoSrcScale scalesOn g a.toList
            triplesR (r.1 ++ r.2.1 ++ r.2.2) ((r.1 ++ r.2.1 ++ r.2.2).map fun v => b + v.abs)
          | _, .err e => "ERR:" ++ e
          | _, _ => "PANIC")
      | _ => "PANIC")
  | "cmpg_hom2_vis" =>
    pure (match jointSpectrum S divs with
      | .ok js =>
        (match getJsa js g.x g.y, homTwoSourceVisibilities S divs R with
          | .ok a, .ok v =>
            let b := twoSrcScale scalesOn g a.toList
            triplesR [v.1, v.2.1, v.2.2] ([v.1, v.2.1, v.2.2].map fun x => 2.0 * (b + x.abs))
          | _, .err e => "ERR:" ++ e
          | _, _ => "PANIC")
      | _ => "PANIC")
  | "cmpg_schmidt" =>
    pure (match jointSpectrum S divs with
      | .ok js =>
        (match js.jsaRange (.freq g), schmidtNumber S divs R with
          | .ok a, .ok k =>
            let amp := amplification (scalesOn g.collect) a
            s!"{fl k} {fl 0.0} {fl (k * amp)}"
          | _, .err e => "ERR:" ++ e
          | _, _ => "PANIC")
      | _ => "PANIC")
  | _ => none

end Spdc.Driver.ComposeGrid
