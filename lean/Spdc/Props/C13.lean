import Spdc.Real.Beam
/-!
# C13 — beam geometry: angle normalisation, the direction/angle invariant over all setter
histories, Snell conversions, unit conversions, automatic waist position

Property theorems only (helper lemmas live in `Spdc/Real/Beam.lean`, `Spdc/Real/Index.lean`).
Statements are about the ℝ-instance of `Spdc/Model/{Units,Beam,Index}.lean`, whose Float instance is
compared with the real `Beam` setters/getters, `normalize_angle(_signed)`, `direction_from_polar`,
`calc_external_theta_from_internal`, `spdcalc::utils` and `optimal_waist_position` on every run.
-/
namespace Spdc.Props.C13
open Spdc Spdc.Units Spdc.Index Spdc.Beam

/-! ### T1 — normalisation -/

/-- `normalize_angle x ∈ [0, 2π)` and `≡ x (mod 2π)`, for every real `x` -/
theorem normalize_range (x : ℝ) :
    0 ≤ normalizeAngle x ∧ normalizeAngle x < 2 * Real.pi ∧
      ∃ k : ℤ, normalizeAngle x = x + k * (2 * Real.pi) :=
  normalizeAngle_spec x

/-- `normalize_angle_signed x ∈ (−π, π]` and `≡ x (mod 2π)`, for every real `x` -/
theorem normalize_signed_range (x : ℝ) :
    -Real.pi < normalizeAngleSigned x ∧ normalizeAngleSigned x ≤ Real.pi ∧
      ∃ k : ℤ, normalizeAngleSigned x = x + k * (2 * Real.pi) :=
  normalizeAngleSigned_spec x

/-! ### T2 — the invariant over all histories -/

/-- a freshly constructed beam satisfies the invariant -/
theorem inv_new (pol : Pol) (φ θ lam : ℝ) (w : Waist ℝ) : Inv (Beam.new pol φ θ lam w) := by
  obtain ⟨a1, a2, _⟩ := normalizeAngle_spec φ
  obtain ⟨b1, b2, _⟩ := normalizeAngleSigned_spec θ
  exact ⟨directionFromPolar_eq _ _, a1, a2, b1, b2⟩

/-- every mutation preserves the invariant (the angle setters refresh the cached direction, the
others do not touch angles or direction) -/
theorem inv_step (b : Beam ℝ) (h : Inv b) (op : Op ℝ) : Inv (step b op) := by
  cases op with
  | setPhi φ =>
    obtain ⟨a1, a2, _⟩ := normalizeAngle_spec φ
    exact ⟨directionFromPolar_eq _ _, a1, a2, h.theta_lo, h.theta_hi⟩
  | setThetaInternal θ =>
    obtain ⟨b1, b2, _⟩ := normalizeAngleSigned_spec θ
    exact ⟨directionFromPolar_eq _ _, h.phi_lo, h.phi_hi, b1, b2⟩
  | setAngles φ θ => exact inv_setAngles b φ θ
  | setThetaExternal t => exact inv_setAngles b _ _
  | intoPump => exact inv_setAngles b _ _
  | setFrequency ω => exact ⟨h.dir, h.phi_lo, h.phi_hi, h.theta_lo, h.theta_hi⟩
  | setVacuumWavelength l => exact ⟨h.dir, h.phi_lo, h.phi_hi, h.theta_lo, h.theta_hi⟩
  | setPolarization p => exact ⟨h.dir, h.phi_lo, h.phi_hi, h.theta_lo, h.theta_hi⟩
  | withPolarization p => exact ⟨h.dir, h.phi_lo, h.phi_hi, h.theta_lo, h.theta_hi⟩
  | setWaist x y => exact ⟨h.dir, h.phi_lo, h.phi_hi, h.theta_lo, h.theta_hi⟩

/-- hence after **every** finite history of mutations: azimuth in `[0,2π)`, polar angle in
`(−π,π]`, direction `= (sinθ cosφ, sinθ sinφ, cosθ)`, a unit vector -/
theorem inv_history (pol : Pol) (φ θ lam : ℝ) (w : Waist ℝ) (ops : List (Op ℝ)) :
    let b := Beam.run (Beam.new pol φ θ lam w) ops
    Inv b ∧ b.direction.normSq = 1 ∧
      b.direction = ⟨Real.sin b.theta * Real.cos b.phi, Real.sin b.theta * Real.sin b.phi, Real.cos b.theta⟩ := by
  intro b
  have hinv : ∀ (ops : List (Op ℝ)) (b0 : Beam ℝ), Inv b0 → Inv (Beam.run b0 ops) := by
    intro ops
    induction ops with
    | nil => intro b0 h; exact h
    | cons o os ih => intro b0 h; exact ih (step b0 o) (inv_step b0 h o)
  have h := hinv ops _ (inv_new pol φ θ lam w)
  refine ⟨h, ?_, ?_⟩
  · rw [h.dir]; exact polarVector_normSq _ _
  · rw [h.dir]; rfl

/-- after any history both angles are congruent modulo 2π to the values last requested (for
`set_theta_external` the requested internal angle is the solver's result; the azimuth is kept) -/
theorem angles_last_requested (pol : Pol) (φ θ lam : ℝ) (w : Waist ℝ) (ops : List (Op ℝ)) :
    let b := Beam.run (Beam.new pol φ θ lam w) ops
    (∃ k : ℤ, b.phi = (requested φ θ ops).1 + k * (2 * Real.pi)) ∧
    (∃ k : ℤ, b.theta = (requested φ θ ops).2 + k * (2 * Real.pi)) := by
  intro b
  have hgen : ∀ (ops : List (Op ℝ)) (b0 : Beam ℝ) (r : ℝ × ℝ), Cong b0.phi r.1 → Cong b0.theta r.2 →
      Cong (Beam.run b0 ops).phi (ops.foldl reqStep r).1 ∧
      Cong (Beam.run b0 ops).theta (ops.foldl reqStep r).2 := by
    intro ops
    induction ops with
    | nil => intro b0 r h1 h2; exact ⟨h1, h2⟩
    | cons o os ih =>
      intro b0 r h1 h2
      obtain ⟨c1, c2⟩ := cong_step b0 r h1 h2 o
      exact ih (step b0 o) (reqStep r o) c1 c2
  exact hgen ops _ (φ, θ) (normalizeAngle_spec φ).2.2 (normalizeAngleSigned_spec θ).2.2

/-- a pump converted from any beam points along `z` -/
theorem pump_points_z (b : Beam ℝ) : (step b .intoPump).direction = ⟨0, 0, 1⟩ := by
  simp only [step, setAngles, updateDirection, lit_zero, normalizeAngle_zero, normalizeAngleSigned_zero,
    directionFromPolar_eq, polarVector, Transc.sin, Transc.cos, Real.sin_zero, Real.cos_zero, mul_one,
    mul_zero]

/-! ### T3 — Snell -/

/-- forward Snell: `sin θ_e = n(θ_i)·sin θ_i` whenever the right-hand side is a sine -/
theorem snell_forward (n : Vec3 ℝ) (cθ cφ φ : ℝ) (pol : Pol) (θi : ℝ)
    (h : -1 ≤ indexAlong n cθ cφ (directionFromPolar φ θi) pol * Real.sin θi ∧
         indexAlong n cθ cφ (directionFromPolar φ θi) pol * Real.sin θi ≤ 1) :
    Real.sin (snellExternal n cθ cφ φ pol θi)
      = indexAlong n cθ cφ (directionFromPolar φ θi) pol * Real.sin θi := by
  simp only [snellExternal, Transc.asin, Transc.sin]
  exact Real.sin_arcsin h.1 h.2

/-- principal indices ≥ 1 ⇒ the internal angle does not exceed the external one on `[0, π/2]`
(the index along the beam is ≥ 1 by C02's bound, so `asin(n sin θ) ≥ asin(sin θ) = θ`) -/
theorem internal_le_external (n : Vec3 ℝ) (hx : 1 ≤ n.x) (hy : 1 ≤ n.y) (hz : 1 ≤ n.z)
    (cθ cφ φ : ℝ) (pol : Pol) (θi : ℝ) (h0 : 0 ≤ θi) (h1 : θi ≤ Real.pi / 2) :
    θi ≤ snellExternal n cθ cφ φ pol θi := by
  have hunit : (directionFromPolar φ θi).normSq = 1 := by
    rw [directionFromPolar_eq]; exact polarVector_normSq _ _
  have hs : (toCrystalFrame cθ cφ (directionFromPolar φ θi)).normSq = 1 := by
    rw [toCrystalFrame_normSq, hunit]
  have hidx : 1 ≤ indexAlong n cθ cφ (directionFromPolar φ θi) pol := by
    rw [indexAlong, indexFromFrame_eq_spec n _ (by linarith) (by linarith) (by linarith) hs pol]
    exact indexFromFrameSpec_ge n _ (by linarith) (by linarith) (by linarith) hs pol 1 one_pos hx hy hz
  have hsin : 0 ≤ Real.sin θi := Real.sin_nonneg_of_nonneg_of_le_pi h0 (by linarith [Real.pi_pos])
  simp only [snellExternal, Transc.asin, Transc.sin]
  calc θi = Real.arcsin (Real.sin θi) := (Real.arcsin_sin (by linarith) h1).symm
    _ ≤ _ := Real.arcsin_le_arcsin (by nlinarith)

/-- read-back reduced to the optimiser's residual: if the stored internal angle leaves a residual
`|sin θ_e − n sin θ_i| ≤ ε` and both sines stay within `sin θ_m`, `θ_m < π/2`, then reading the
external angle back is off by at most `ε / cos θ_m` -/
theorem readback_of_residual (y θe θm ε : ℝ) (h0 : 0 ≤ θe) (hem : θe ≤ θm) (hm : θm < Real.pi / 2)
    (hy1 : -Real.sin θm ≤ y) (hy2 : y ≤ Real.sin θm) (hres : |Real.sin θe - y| ≤ ε) :
    |Real.arcsin y - θe| ≤ ε / Real.cos θm := by
  have hpi := Real.pi_pos
  have hcm : 0 < Real.cos θm := Real.cos_pos_of_mem_Ioo ⟨by linarith, hm⟩
  have hsm1 : Real.sin θm ≤ 1 := Real.sin_le_one _
  set a := Real.arcsin y with ha
  have hya : Real.sin a = y := Real.sin_arcsin (by linarith) (by linarith)
  have ha1 : -θm ≤ a := by
    have := Real.arcsin_le_arcsin hy1
    rwa [← Real.sin_neg, Real.arcsin_sin (by linarith) (by linarith)] at this
  have ha2 : a ≤ θm := by
    have := Real.arcsin_le_arcsin hy2
    rwa [Real.arcsin_sin (by linarith) (by linarith)] at this
  -- mean value theorem for sin between a and θe
  have key : ∀ p q : ℝ, -θm ≤ p → p < q → q ≤ θm → (q - p) * Real.cos θm ≤ Real.sin q - Real.sin p := by
    intro p q hp hpq hq
    obtain ⟨c, hc, hcs⟩ := exists_hasDerivAt_eq_slope Real.sin Real.cos hpq
      Real.continuous_sin.continuousOn (fun x _ => Real.hasDerivAt_sin x)
    have hcc : Real.cos θm ≤ Real.cos c := by
      rw [← Real.cos_abs c]
      apply Real.cos_le_cos_of_nonneg_of_le_pi (abs_nonneg _) (by linarith)
      rw [abs_le]; constructor <;> linarith [hc.1, hc.2]
    have hqp : 0 < q - p := by linarith
    rw [eq_div_iff hqp.ne'] at hcs
    nlinarith
  rw [le_div_iff₀ hcm]
  rw [abs_le] at hres
  rcases lt_trichotomy a θe with hlt | heq | hgt
  · have := key a θe ha1 hlt hem
    rw [hya] at this
    rw [abs_of_neg (by linarith)]
    nlinarith [hres.1, hres.2]
  · rw [heq, sub_self, abs_zero, zero_mul]
    rw [heq] at hya
    rw [hya, sub_self] at hres
    exact hres.2
  · have := key θe a (by linarith) hgt ha2
    rw [hya] at this
    rw [abs_of_pos (by linarith)]
    nlinarith [hres.1, hres.2]

/-! ### T4 — unit conversions, waist position -/

/-- `ω = 2πc/λ` in both directions; the two conversions are mutually inverse -/
theorem freq_wavelength_inverse (x : ℝ) (hx : x ≠ 0) :
    vacuumWavelengthToFrequency x = 2 * Real.pi * 299792458 / x ∧
    frequencyToVacuumWavelength x = 2 * Real.pi * 299792458 / x ∧
    frequencyToVacuumWavelength (vacuumWavelengthToFrequency x) = x ∧
    vacuumWavelengthToFrequency (frequencyToVacuumWavelength x) = x := by
  have hc : (299792458.0 : ℝ) = 299792458 := by norm_num
  have hpi := Real.pi_pos
  simp only [vacuumWavelengthToFrequency, frequencyToVacuumWavelength, wavelengthToFrequency,
    frequencyToWavelength, twoPiC, twoPi_eq, cLight, lit_one, hc, mul_one]
  refine ⟨trivial, trivial, ?_, ?_⟩ <;> field_simp

theorem celsius_kelvin_inverse (x : ℝ) :
    kelvinToCelsius (celsiusToKelvin x) = x ∧ celsiusToKelvin (kelvinToCelsius x) = x := by
  simp only [kelvinToCelsius, celsiusToKelvin]
  constructor <;> ring

/-- `FWHM = 2·√(2 ln 2)·σ`, and FWHM ↔ waist are mutually inverse -/
theorem fwhm_sigma (f w : ℝ) :
    f = 2 * Real.sqrt (2 * Real.log 2) * fwhmToSigma f ∧
    waistToFwhm (fwhmToWaist f) = f ∧ fwhmToWaist (waistToFwhm w) = w := by
  have hlog : 0 < Real.log 2 := Real.log_pos one_lt_two
  have hk : Real.sqrt (2 * Real.log 2) ≠ 0 := (Real.sqrt_pos.mpr (by positivity)).ne'
  simp only [fwhmToSigma, fwhmToWaist, waistToFwhm, fwhmOverWaist, Transc.sqrt, Transc.ln, lit_two]
  refine ⟨?_, ?_, ?_⟩ <;> field_simp

/-- the automatic waist position is `−L/(2n)` with `n` the beam's index for propagation along `z` -/
theorem waist_position_def (n : Vec3 ℝ) (θ φ len : ℝ) (pol : Pol) :
    optimalWaistPosition n θ φ len pol = -len / (2 * indexAlong n θ φ ⟨0, 0, 1⟩ pol) := by
  simp only [optimalWaistPosition, lit_half, lit_zero, lit_one]
  rw [← div_div]
  congr 1
  ring

/-! ### non-vacuity -/

example : normalizeAngle (0 : ℝ) = 0 := normalizeAngle_zero

/-- hypotheses of `internal_le_external` and `readback_of_residual` are satisfiable -/
example : (1 / 2 : ℝ) ≤ snellExternal ⟨2, 2, 2⟩ 0 0 0 .ordinary (1 / 2) :=
  internal_le_external ⟨2, 2, 2⟩ (by norm_num) (by norm_num) (by norm_num) 0 0 0 .ordinary (1 / 2)
    (by norm_num) (by linarith [Real.pi_gt_three])

example : |Real.arcsin (Real.sin (1 / 2)) - 1 / 2| ≤ 0 / Real.cos 1 :=
  readback_of_residual (Real.sin (1 / 2)) (1 / 2) 1 0 (by norm_num) (by norm_num)
    (by linarith [Real.pi_gt_three])
    (by
      have h1 : 0 ≤ Real.sin 1 := Real.sin_nonneg_of_nonneg_of_le_pi (by norm_num) (by linarith [Real.pi_gt_three])
      have h2 : 0 ≤ Real.sin (1 / 2) := Real.sin_nonneg_of_nonneg_of_le_pi (by norm_num) (by linarith [Real.pi_gt_three])
      linarith)
    (Real.sin_le_sin_of_le_of_le_pi_div_two (by linarith [Real.pi_gt_three]) (by linarith [Real.pi_gt_three]) (by norm_num))
    (by simp)

/-- a concrete history: the invariant is non-trivial (the direction really moves) -/
example : (Beam.run (Beam.new .ordinary 0 0 1e-6 ⟨1e-4, 1e-4⟩)
    [.setAngles 0 0, .setWaist 1 2, .intoPump]).direction = (⟨0, 0, 1⟩ : Vec3 ℝ) :=
  pump_points_z _

end Spdc.Props.C13
