import Spdc.Model.Grid
import Spdc.Real.GridLemmas
import Mathlib.Data.Real.Basic
import Mathlib.Algebra.BigOperators.Group.List.Lemmas
/-!
# C15 — parallel evaluation is independent of thread count and work splitting

Property theorems only (helper lemmas live in `Spdc/Real/GridLemmas.lean`).

A *schedule* of rayon over one of the two custom producers is a binary split tree: `node k l r`
calls `Producer::split_at(k)` and hands the halves to `l` and `r`; a `leaf` drains its producer
sequentially (`into_iter()`).  `SplitTree.ValidC t n` says every split index obeys rayon's
`Producer` contract `0 ≤ k ≤ len` (`SplitTree.Valid`, the narrower `1 ≤ k ≤ len − 1` that rayon's
`bridge` actually requests, implies it).  The theorems hold for **every** such tree.
-/
namespace Spdc.Props.C15
open Spdc Spdc.Grid

/-! ## T1 — one split -/

/-- `ParIterator1D::split_at(k)` for every `0 ≤ k ≤ n`: no panic, the halves have `k` and `n − k`
points, point `j` of the left half is point `j` of the whole and point `j` of the right half is point
`k + j` — over any field of characteristic 0 (the sub-range endpoints are *re-derived* by the code,
so this is an identity of field arithmetic, not of syntax). -/
theorem split1_value {K : Type} [Field K] [CharZero K] (p : Steps K) (k : Nat) (hk : k ≤ p.n) :
    ∃ l r, split1 p k = .ok (l, r) ∧ l.n = k ∧ r.n = p.n - k ∧
      (∀ j, j < k → l.value j = p.value j) ∧
      (∀ j, j < p.n - k → r.value j = p.value (k + j)) ∧
      l.collect ++ r.collect = p.collect :=
  ⟨_, _, split1_ok p k hk, rfl, rfl,
    fun j hj => split1_left_value p k j hk hj,
    fun j hj => split1_right_value p k j hk hj,
    split1_collect p k hk⟩

/-- outside the contract (`k > n`) the 1-D `split_at` underflows `steps − index`: a panic — any scalar -/
theorem split1_out_of_contract {α : Type} [Add α] [Sub α] [Mul α] [Div α] [NatCast α]
    (p : Steps α) (k : Nat) (hk : p.n < k) : (split1 p k).isPanic = true := by
  simp [split1, hk, Outcome.isPanic]

/-- `ParIterator2D::split_at(k)` for every `0 ≤ k ≤ len`: no panic, lengths `k` and `len − k`, and the
halves' points are *syntactically* the points of the whole (same `Steps2D.value` applied to the same
global index) — for ANY scalar type, hence bit-exact in floating point. -/
theorem split2_value {α : Type} [Add α] [Sub α] [Mul α] [Div α] [NatCast α] [OfScientific α]
    (p : Prod2 α) (k : Nat) (hp : p.lo ≤ p.hi) (hk : k ≤ p.len) :
    ∃ l r, split2 p k = .ok (l, r) ∧ l.len = k ∧ r.len = p.len - k ∧
      l.steps = p.steps ∧ r.steps = p.steps ∧ l.lo = p.lo ∧ l.hi = r.lo ∧ r.hi = p.hi ∧
      l.collect ++ r.collect = p.collect := by
  have hk' : p.lo + k ≤ p.hi := by simp only [Prod2.len] at hk; omega
  refine ⟨_, _, split2_ok p k hk', ?_, ?_, rfl, rfl, rfl, rfl, rfl, split2_collect p k hk'⟩
  · simp only [Prod2.len]; omega
  · simp only [Prod2.len]; omega

/-! ## T2 — leaves of every split tree = sequential traversal -/

/-- 1-D producer, any field of characteristic 0 (in particular ℝ): for every split tree the
contract allows, the leaves drained in order are the sequential traversal, and no split panics. -/
theorem leaves1_eq_sequential {K : Type} [Field K] [CharZero K] (p : Steps K) (t : SplitTree)
    (h : t.ValidC p.n) : leaves1 p t = some p.collect :=
  leaves1_eq_collect t p h

/-- the same for the trees rayon's `bridge` requests (`1 ≤ k ≤ len − 1`) -/
theorem leaves1_eq_sequential_of_valid {K : Type} [Field K] [CharZero K] (p : Steps K) (t : SplitTree)
    (h : t.Valid p.n) : leaves1 p t = some p.collect :=
  leaves1_eq_collect t p (valid_validC t _ h)

/-- 2-D producer, ANY scalar type (no algebraic law is used: `Steps2D.value` depends on the global
index only, so the equality is syntactic and holds bit-for-bit at `Float`). -/
theorem leaves2_eq_sequential {α : Type} [Add α] [Sub α] [Mul α] [Div α] [NatCast α] [OfScientific α]
    (s : Steps2D α) (t : SplitTree) (h : t.ValidC s.len) :
    leaves2 s.producer t = some s.collect := by
  rw [← s.producer_collect]
  exact leaves2_eq_collect t s.producer (Nat.zero_le _) (by simpa [Steps2D.producer] using h)

/-- the same at the machine scalar, stated explicitly -/
theorem leaves2_eq_sequential_float (s : Steps2D Float) (t : SplitTree) (h : t.ValidC s.len) :
    leaves2 s.producer t = some s.collect :=
  leaves2_eq_sequential s t h

/-! ## T3 — positions and lengths -/

/-- `len_fresh`: a fresh `Iterator1D` reports its point count (what rayon's `enumerate`/`collect`
rely on). -/
theorem len_fresh1 {α : Type} [Add α] [Sub α] [Mul α] [Div α] [NatCast α] (s : Steps α) :
    s.iter.len = s.collect.length := by
  simp [Steps.iter, Iter1.len, Steps.collect]

/-- Exact-size contract after partial consumption (what `enumerate().rev()` / `zip(..).rev()` rely on;
true of the code since the `fix:` commit 3d5ac37, D20): every successful pull from either end
lowers the reported length by exactly one, an unsuccessful one leaves state and length unchanged,
and an exhausted iterator reports 0. -/
theorem len_after_partial1 {α : Type} [Add α] [Sub α] [Mul α] [Div α] [NatCast α] (it : Iter1 α)
    (h : it.index ≤ it.indexBack) :
    ((it.next).1.isSome → (it.next).2.len + 1 = it.len) ∧
    ((it.nextBack).1.isSome → (it.nextBack).2.len + 1 = it.len) ∧
    ((it.next).1 = none → (it.next).2 = it ∧ it.len = 0) ∧
    ((it.nextBack).1 = none → (it.nextBack).2 = it ∧ it.len = 0) ∧
    (it.next).2.index ≤ (it.next).2.indexBack ∧ (it.nextBack).2.index ≤ (it.nextBack).2.indexBack := by
  by_cases hlt : it.index < it.indexBack
  · have h1 : ¬ (it.index ≥ it.indexBack) := by omega
    have h2 : ¬ (it.indexBack ≤ it.index) := by omega
    simp only [Iter1.next, Iter1.nextBack, Iter1.len, h1, if_false]
    refine ⟨?_, ?_, ?_, ?_, ?_, ?_⟩ <;> first | omega | simp
  · have h1 : it.index ≥ it.indexBack := by omega
    have h2 : it.indexBack ≤ it.index := by omega
    simp only [Iter1.next, Iter1.nextBack, Iter1.len, h1, if_true]
    refine ⟨?_, ?_, ?_, ?_, ?_, ?_⟩ <;> first | omega | (simp; omega) | simp

/-- the same contract for `Iterator2D` -/
theorem len_after_partial2 {α : Type} [Add α] [Sub α] [Mul α] [Div α] [NatCast α] [OfScientific α]
    (it : Iter2 α) (h : it.index ≤ it.indexBack) :
    ((it.next).1.isSome → (it.next).2.len + 1 = it.len) ∧
    ((it.nextBack).1.isSome → (it.nextBack).2.len + 1 = it.len) ∧
    ((it.next).1 = none → (it.next).2 = it ∧ it.len = 0) ∧
    ((it.nextBack).1 = none → (it.nextBack).2 = it ∧ it.len = 0) := by
  by_cases hlt : it.index < it.indexBack
  · have h1 : ¬ (it.index ≥ it.indexBack) := by omega
    have h2 : ¬ (it.indexBack ≤ it.index) := by omega
    simp only [Iter2.next, Iter2.nextBack, Iter2.len, h1, if_false]
    refine ⟨?_, ?_, ?_, ?_⟩ <;> first | omega | simp
  · have h1 : it.index ≥ it.indexBack := by omega
    have h2 : it.indexBack ≤ it.index := by omega
    simp only [Iter2.next, Iter2.nextBack, Iter2.len, h1, if_true]
    refine ⟨?_, ?_, ?_, ?_⟩ <;> first | omega | (simp; omega) | simp

/-- a 2-D producer reports `hi − lo`, the number of points it delivers -/
theorem len_fresh2 {α : Type} [Add α] [Sub α] [Mul α] [Div α] [NatCast α] [OfScientific α]
    (p : Prod2 α) : p.len = p.collect.length := by
  simp [Prod2.len, Prod2.collect]

/-- 1-D: the leaf producers of any contract-valid tree have the lengths dictated by the split indices
alone (`leafLens`), each reports that length when fresh, and leaf `i` delivers exactly the slice of
the sequential traversal that starts at the sum of the lengths of the leaves to its left — the slot
rayon's `enumerate`/`collect` assign to it. -/
theorem enumerate_positions1 {K : Type} [Field K] [CharZero K] (p : Steps K) (t : SplitTree)
    (h : t.ValidC p.n) :
    ∃ ps lens, leafProds1 p t = some ps ∧ leafLens t p.n = some lens ∧ lens.sum = p.n ∧
      ps.map (fun q => q.iter.len) = lens ∧ ps.map (fun q => q.collect.length) = lens ∧
      ∀ i (hi : i < ps.length),
        (p.collect.take (lens.take (i + 1)).sum).drop (lens.take i).sum = ps[i].collect := by
  obtain ⟨ps, h1, h2, h3⟩ := leafProds1_spec t p h
  have hl : (ps.map Steps.collect).map List.length = ps.map (·.n) := by
    simp [List.map_map, Function.comp_def, Steps.collect_length]
  refine ⟨ps, ps.map (·.n), h1, h2, ?_, ?_, ?_, ?_⟩
  · have := congrArg List.length h3
    rw [List.length_flatten, hl, p.collect_length] at this
    exact this
  · simp [Steps.iter, Iter1.len]
  · simp [Steps.collect_length]
  · intro i hi
    have := List.drop_take_succ_flatten_eq_getElem (ps.map Steps.collect) i (by simpa using hi)
    rw [hl, h3] at this
    simpa using this

/-- 2-D, any scalar type: same statement; in addition every leaf keeps the *global* grid description
(`steps`), so its points are `Steps2D.value` at global indices. -/
theorem enumerate_positions2 {α : Type} [Add α] [Sub α] [Mul α] [Div α] [NatCast α] [OfScientific α]
    (s : Steps2D α) (t : SplitTree) (h : t.ValidC s.len) :
    ∃ ps lens, leafProds2 s.producer t = some ps ∧ leafLens t s.len = some lens ∧ lens.sum = s.len ∧
      ps.map Prod2.len = lens ∧ ps.map (fun q => q.collect.length) = lens ∧
      ∀ i (hi : i < ps.length),
        (s.collect.take (lens.take (i + 1)).sum).drop (lens.take i).sum = ps[i].collect := by
  have hv : t.ValidC (s.producer.hi - s.producer.lo) := by simpa [Steps2D.producer] using h
  obtain ⟨ps, h1, h2, h3⟩ := leafProds2_spec t s.producer (Nat.zero_le _) hv
  have hlen : s.producer.hi - s.producer.lo = s.len := by simp [Steps2D.producer]
  rw [hlen] at h2
  rw [s.producer_collect] at h3
  have hl : (ps.map Prod2.collect).map List.length = ps.map Prod2.len := by
    simp [List.map_map, Function.comp_def, Prod2.collect, Prod2.len]
  refine ⟨ps, ps.map Prod2.len, h1, h2, ?_, rfl, ?_, ?_⟩
  · have := congrArg List.length h3
    rw [List.length_flatten, hl, s.collect_length] at this
    simpa [Steps2D.len] using this
  · simp [Prod2.collect, Prod2.len]
  · intro i hi
    have := List.drop_take_succ_flatten_eq_getElem (ps.map Prod2.collect) i (by simpa using hi)
    rw [hl, h3] at this
    simpa using this

/-! ## T4 — parallel reductions are tree-independent in exact arithmetic -/

/-- Map–sum over the 1-D producer (`simpson2d`'s inner and outer sums): for every contract-valid
split tree the tree-shaped reduction (leaves folded from `0`, halves added) equals the sequential
sum — in any additive monoid `M` (associativity suffices: rayon keeps the order), in particular in
every commutative monoid, ℝ and ℂ. -/
theorem reduce_tree_invariant1 {K M : Type} [Field K] [CharZero K] [AddMonoid M] (f : K → M)
    (p : Steps K) (t : SplitTree) (h : t.ValidC p.n) :
    reduce1 (· + ·) 0 f p t = some ((p.collect.map f).sum) :=
  reduce1_eq_sum f t p h

/-- Map–sum over the 2-D producer (`counts_*`, `hom_rate`): same, for ANY scalar type of the grid. -/
theorem reduce_tree_invariant2 {α M : Type} [Add α] [Sub α] [Mul α] [Div α] [NatCast α]
    [OfScientific α] [AddMonoid M] (f : α × α → M) (s : Steps2D α) (t : SplitTree)
    (h : t.ValidC s.len) :
    reduce2 (· + ·) 0 f s.producer t = some ((s.collect.map f).sum) := by
  rw [← s.producer_collect]
  exact reduce2_eq_sum f t s.producer (Nat.zero_le _) (by simpa [Steps2D.producer] using h)

/-- corollary: two different schedules give the same sum -/
theorem reduce_schedule_independent {K M : Type} [Field K] [CharZero K] [AddCommMonoid M] (f : K → M)
    (p : Steps K) (t₁ t₂ : SplitTree) (h₁ : t₁.ValidC p.n) (h₂ : t₂.ValidC p.n) :
    reduce1 (· + ·) 0 f p t₁ = reduce1 (· + ·) 0 f p t₂ := by
  rw [reduce_tree_invariant1 f p t₁ h₁, reduce_tree_invariant1 f p t₂ h₂]

/-! ## non-vacuity -/

/-- a tree with proper, degenerate-left (`k = 0`) and degenerate-right (`k = len`) splits -/
def exTree : SplitTree := .node 2 (.node 0 .leaf (.node 2 .leaf .leaf)) (.node 1 .leaf .leaf)

example : exTree.ValidC 5 := by simp [exTree, SplitTree.ValidC]
example : (SplitTree.node 2 .leaf (.node 1 .leaf .leaf)).Valid 5 := by simp [SplitTree.Valid]
example : leaves1 (⟨0, 1, 5⟩ : Steps ℝ) exTree = some (⟨0, 1, 5⟩ : Steps ℝ).collect :=
  leaves1_eq_sequential _ _ (by simp [exTree, SplitTree.ValidC])
example : leaves2 (⟨⟨0, 1, 5⟩, ⟨2, 3, 1⟩⟩ : Steps2D Float).producer exTree
    = some (⟨⟨0, 1, 5⟩, ⟨2, 3, 1⟩⟩ : Steps2D Float).collect :=
  leaves2_eq_sequential_float _ _ (by simp [exTree, SplitTree.ValidC, Steps2D.len])
example : ∃ l r, split1 (⟨0, 1, 5⟩ : Steps ℝ) 0 = .ok (l, r) ∧ l.n = 0 :=
  let ⟨l, r, h, hl, _⟩ := split1_value (⟨0, 1, 5⟩ : Steps ℝ) 0 (by norm_num); ⟨l, r, h, hl⟩
example : reduce1 (· + ·) 0 (fun x : ℝ => x * x) (⟨0, 1, 5⟩ : Steps ℝ) exTree
    = some (((⟨0, 1, 5⟩ : Steps ℝ).collect.map fun x => x * x).sum) :=
  reduce_tree_invariant1 _ _ _ (by simp [exTree, SplitTree.ValidC])
example : ∃ ps lens, leafProds1 (⟨0, 1, 5⟩ : Steps ℝ) exTree = some ps ∧ leafLens exTree 5 = some lens ∧
    lens.sum = 5 :=
  let ⟨ps, lens, h1, h2, h3, _⟩ := enumerate_positions1 (⟨0, 1, 5⟩ : Steps ℝ) exTree
    (by simp [exTree, SplitTree.ValidC]); ⟨ps, lens, h1, h2, h3⟩

end Spdc.Props.C15
