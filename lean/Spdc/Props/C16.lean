import Spdc.Real.PMType
import Spdc.Real.Config
/-!
# C16 — config ⇄ setup round trip, "auto" = explicit optimum, names parse

Property theorems only.
-/
namespace Spdc.Props.C16
open Spdc Spdc.PM Spdc.Cfg

/-! ## T4 — string forms -/

/-- every phase-matching type parses from its own printed form -/
theorem pm_print_parse : ∀ t ∈ PMType.all, parse t.printL = some t := by decide

/-- the enumeration is complete -/
theorem pm_all_complete : ∀ t : PMType, t ∈ PMType.all := by intro t; cases t <;> decide

/-- every spelling found in the documentation, doctests, unit tests and README parses to the
documented type -/
theorem pm_documented : ∀ p ∈ documented, parse p.1 = some p.2 := by decide

/-- whatever string the parser accepts as type `t` ends in the signal and idler letters of `t`
(case-folded), carries `t`'s pump letter at most two characters before them, and everything before
the pump letter is blank/underscore padding, optionally preceded by `type`, a separator and `t`'s
own digit -/
theorem pm_parse_sound (cs : List Char) (t : PMType) (h : parse cs = some t) :
    ∃ pre k mid a b, cs = pre ++ k :: mid ++ [a, b] ∧ mid.length ≤ 2 ∧
      lower k = t.pumpPol.letter ∧ lower a = t.signalPol.letter ∧ lower b = t.idlerPol.letter ∧
      mid.all notNl = true ∧ matchHead t.digit pre = true :=
  matchRe_sound (parse_matchT h)

/-- the name of each type states its polarizations: `Type<D>_<p>_<s><i>` -/
theorem pm_polarizations : ∀ t ∈ PMType.all,
    t.printL = ['T', 'y', 'p', 'e', t.digit, '_', t.pumpPol.letter, '_', t.signalPol.letter,
      t.idlerPol.letter] := by decide

/-- the inverse exchanges signal and idler polarizations, keeps the pump's, and is an involution -/
theorem pm_inverse : ∀ t ∈ PMType.all,
    t.inverse.signalPol = t.idlerPol ∧ t.inverse.idlerPol = t.signalPol ∧
      t.inverse.pumpPol = t.pumpPol ∧ t.inverse.inverse = t := by decide

/-- polarizations parse from `o`, `ordinary`, `e`, `extraordinary` and from their printed form -/
theorem pol_parse :
    Pol.parse ['o'] = some .o ∧ Pol.parse "ordinary".toList = some .o ∧
    Pol.parse ['e'] = some .e ∧ Pol.parse "extraordinary".toList = some .e ∧
    Pol.parse ['O'] = some .o ∧ Pol.parse "ORDINARY".toList = some .o ∧
    Pol.parse ['E'] = some .e ∧ Pol.parse "ExtraOrdinary".toList = some .e ∧
    (∀ p : Pol, Pol.parse p.printL = some p) := by
  refine ⟨by decide, by decide, by decide, by decide, by decide, by decide, by decide, by decide, ?_⟩
  intro p; cases p <;> decide

/-- …in any letter case: the parser only looks at the ASCII-lower-cased string -/
theorem pol_parse_case_insensitive (cs ds : List Char) (h : cs.map lower = ds.map lower) :
    Pol.parse cs = Pol.parse ds := by
  unfold Pol.parse; rw [h]

/-! ## T2 — rounding and units -/

/-- rounding to 4 decimals is idempotent -/
theorem sigfigs_idem (x : ℝ) : sigfigs (sigfigs x) = sigfigs x := Cfg.sigfigs_idem x

/-- the rounded value is within half a unit of the 4th decimal of the physical value -/
theorem sigfigs_close (x : ℝ) : |sigfigs x - x| ≤ 1 / 20000 := Cfg.sigfigs_close x

/-- converting a value to SI with a non-zero unit and back is the identity -/
theorem unit_roundtrip (v u : ℝ) (hu : u ≠ 0) : v * u / u = v := Cfg.unit_roundtrip v u hu

end Spdc.Props.C16
