import Spdc.Real.PMType
import Spdc.Real.Fixpoint
import Spdc.Real.ComposeAutoLemmas
/-!
# C16 — config ⇄ setup round trip, "auto" = explicit optimum, names parse

Property theorems only.
-/
namespace Spdc.Props.C16
open Spdc Spdc.Cfg Spdc.Outcome
open Spdc.PM hiding Setup Beam twoPi sec cLight

/-! ## T4 — string forms -/

/-- every phase-matching type parses from its own printed form -/
theorem pm_print_parse : ∀ t ∈ PMType.all, parse t.printL = some t := by decide

/-- the enumeration is complete -/
theorem pm_all_complete : ∀ t : PMType, t ∈ PMType.all := by intro t; cases t <;> decide

/-- every spelling found in the documentation, doctests, unit tests and README parses to the
documented type -/
theorem pm_documented : ∀ p ∈ documented, parse p.1 = some p.2 := by decide

/-- whatever string the parser accepts as type `t` ends in the signal and idler letters of `t`
(case-folded), carries `t`'s pump letter at most two characters before them, and everything before
the pump letter is blank/underscore padding, optionally preceded by `type`, a separator and `t`'s
own digit -/
theorem pm_parse_sound (cs : List Char) (t : PMType) (h : parse cs = some t) :
    ∃ pre k mid a b, cs = pre ++ k :: mid ++ [a, b] ∧ mid.length ≤ 2 ∧
      lower k = t.pumpPol.letter ∧ lower a = t.signalPol.letter ∧ lower b = t.idlerPol.letter ∧
      mid.all notNl = true ∧ matchHead t.digit pre = true :=
  matchRe_sound (parse_matchT h)

/-- the name of each type states its polarizations: `Type<D>_<p>_<s><i>` -/
theorem pm_polarizations : ∀ t ∈ PMType.all,
    t.printL = ['T', 'y', 'p', 'e', t.digit, '_', t.pumpPol.letter, '_', t.signalPol.letter,
      t.idlerPol.letter] := by decide

/-- the inverse exchanges signal and idler polarizations, keeps the pump's, and is an involution -/
theorem pm_inverse : ∀ t ∈ PMType.all,
    t.inverse.signalPol = t.idlerPol ∧ t.inverse.idlerPol = t.signalPol ∧
      t.inverse.pumpPol = t.pumpPol ∧ t.inverse.inverse = t := by decide

/-- polarizations parse from `o`, `ordinary`, `e`, `extraordinary` and from their printed form -/
theorem pol_parse :
    Pol.parse ['o'] = some .o ∧ Pol.parse "ordinary".toList = some .o ∧
    Pol.parse ['e'] = some .e ∧ Pol.parse "extraordinary".toList = some .e ∧
    Pol.parse ['O'] = some .o ∧ Pol.parse "ORDINARY".toList = some .o ∧
    Pol.parse ['E'] = some .e ∧ Pol.parse "ExtraOrdinary".toList = some .e ∧
    (∀ p : Pol, Pol.parse p.printL = some p) := by
  refine ⟨by decide, by decide, by decide, by decide, by decide, by decide, by decide, by decide, ?_⟩
  intro p; cases p <;> decide

/-- …in any letter case: the parser only looks at the ASCII-lower-cased string -/
theorem pol_parse_case_insensitive (cs ds : List Char) (h : cs.map lower = ds.map lower) :
    Pol.parse cs = Pol.parse ds := by
  unfold Pol.parse; rw [h]

/-! ## T2 — rounding and units -/

/-- rounding to 4 decimals is idempotent -/
theorem sigfigs_idem (x : ℝ) : sigfigs (sigfigs x) = sigfigs x := Cfg.sigfigs_idem x

/-- the rounded value is within half a unit of the 4th decimal of the physical value -/
theorem sigfigs_close (x : ℝ) : |sigfigs x - x| ≤ 1 / 20000 := Cfg.sigfigs_close x

/-- converting a value to SI with a non-zero unit and back is the identity -/
theorem unit_roundtrip (v u : ℝ) (hu : u ≠ 0) : v * u / u = v := Cfg.unit_roundtrip v u hu

/-! ## T1 — the back-conversion, field by field -/

/-- every numeric field of the configuration of a setup is the physical value divided by the
field's unit (°, µm, nm, °C offset, mW, pm/V) and rounded to 4 decimals; the idler and both waist
positions are explicit, the external angles are dropped, a beam azimuth that rounds up to 360 is
written as 0 (`wrap360`), the poling period is the stored magnitude
(the sign is re-derived on the way back) and the Gaussian apodization width is a rounded length -/
theorem asConfig_fields (s : Setup ℝ) :
    (asConfig s).crystal.thetaDeg = .param (sigfigs (s.crystal.theta / deg)) ∧
    (asConfig s).crystal.phiDeg = sigfigs (s.crystal.phi / deg) ∧
    (asConfig s).crystal.lengthUm = sigfigs (s.crystal.length / micro) ∧
    (asConfig s).crystal.temperatureC = sigfigs (s.crystal.temperature - kelvin0) ∧
    (asConfig s).pump.wavelengthNm = sigfigs (s.pump.wavelength / nano) ∧
    (asConfig s).pump.waistUm = sigfigs (s.pump.waistX / micro) ∧
    (asConfig s).pump.bandwidthNm = sigfigs (s.pumpBandwidth / nano) ∧
    (asConfig s).pump.averagePowerMw = sigfigs (s.pumpAveragePower / 1.0) ∧
    (asConfig s).pump.spectrumThreshold = some s.pumpSpectrumThreshold ∧
    (asConfig s).signal = { wavelengthNm := sigfigs (s.signal.wavelength / nano),
                            phiDeg := wrap360 (sigfigs (s.signal.phi / deg)),
                            thetaDeg := some (sigfigs (s.signal.theta / deg)),
                            thetaExternalDeg := none,
                            waistUm := sigfigs (s.signal.waistX / micro),
                            waistPositionUm := .param (sigfigs (s.signalWaistPos / micro)) } ∧
    (asConfig s).idler = .param { wavelengthNm := sigfigs (s.idler.wavelength / nano),
                                  phiDeg := wrap360 (sigfigs (s.idler.phi / deg)),
                                  thetaDeg := some (sigfigs (s.idler.theta / deg)),
                                  thetaExternalDeg := none,
                                  waistUm := sigfigs (s.idler.waistX / micro),
                                  waistPositionUm := .param (sigfigs (s.idlerWaistPos / micro)) } ∧
    (asConfig s).deffPmPerVolt = sigfigs (s.deff / pmPerVolt) ∧
    (∀ p neg a, s.pp = .on p neg a →
      (asConfig s).poling = .config (.param (sigfigs (p / micro))) (Apod.toCfg a)) ∧
    (s.pp = .off → (asConfig s).poling = .off) ∧
    (∀ f, Apod.toCfg (.gaussian f : Apod ℝ) = .gaussian (sigfigs (f / micro))) ∧
    ((∀ x : ℝ, 0 ≤ x → x < 360 → wrap360 x = x) ∧ wrap360 (360 : ℝ) = 0) := by
  refine ⟨rfl, rfl, rfl, rfl, rfl, rfl, rfl, rfl, rfl, rfl, rfl, rfl, ?_, ?_, fun _ => rfl,
    fun x h0 h1 => wrap360_of_mem h0 h1, wrap360_360⟩
  · intro p neg a h; simp [asConfig, asConfigG, h, Poling.toCfg]
  · intro h; simp [asConfig, asConfigG, h, Poling.toCfg]

/-- **D6 (pinned tree).** Without the `fix:` the idler's waist position was the one field that is
not rounded: e.g. a position of 0.00001 µm is emitted as such instead of 0. -/
theorem asConfig_pinned_idler_unrounded :
    ∃ s : Setup ℝ, (asConfigG false s).idler ≠ (asConfigG true s).idler := by
  let b : Beam ℝ := ⟨.o, 0, 0, 1, 0, 0⟩
  refine ⟨{ crystal := ⟨0, .t0_o_oo, 0, 0, 0, 0, false⟩, signal := b, idler := b, pump := b,
            pumpBandwidth := 0, pumpAveragePower := 0, pumpSpectrumThreshold := 0, pp := .off,
            signalWaistPos := 0, idlerWaistPos := micro / 100000, deff := 0 }, ?_⟩
  simp only [asConfigG, Beam.toCfg, ne_eq, Auto.param.injEq, BeamCfg.mk.injEq, true_and,
    Bool.false_eq_true, if_false, if_true]
  have h1 : (micro : ℝ) / 100000 / micro = 1 / 100000 := by
    field_simp [micro_ne]
  rw [h1, sigfigs_def, round_def]
  have : ⌊(1 : ℝ) / 100000 * 10000 + 1 / 2⌋ = 0 := by
    rw [Int.floor_eq_iff]; constructor <;> norm_num
  norm_num [this]

/-! ## T2 — the round trip is a fix-point -/

/-- converting the configuration of a setup to a setup and back reproduces the configuration
exactly (over ℝ; the statement's "to 1e-9 relative" is the floating-point shadow of this equality,
observed by the predicate search).  Hypotheses: the setup is in the statement's domain
(`Canonical`: it came from a configuration, so waist positions are ≤ 0 and the period is a
magnitude; its beam angles are not rounded across the end of their interval; λs > λp survives
rounding) and the sign oracle answers. -/
theorem config_fixpoint (ext : Ext ℝ) (s : Setup ℝ) (hc : Canonical s)
    (hsign : ∀ a b c, ∃ neg, ext.signNeg a b c = .ok neg) :
    (tryAsSpdc (asConfig s) ext).map asConfig = .ok (asConfig s) :=
  config_fixpoint_aux ext s hc hsign

/-- `Canonical` is satisfiable: a collinear 775 nm → 1550 nm setup -/
example : ∃ s : Setup ℝ, Canonical s := by
  let sig : Beam ℝ := ⟨.e, 0, 0, wlToFreq (1550 * nano), 0, 0⟩
  let pmp : Beam ℝ := ⟨.e, 0, 0, wlToFreq (775 * nano), 0, 0⟩
  have z : sigfigs ((0 : ℝ) / deg) = 0 := by
    rw [zero_div]; simpa using sigfigs_of_grid 0
  have hs : StableAngles sig := ⟨by rw [z], by rw [z]; norm_num, by rw [z]; norm_num, by rw [z]; norm_num⟩
  refine ⟨{ crystal := ⟨1, .t2_e_eo, 0, 0, 0, 0, false⟩, signal := sig, idler := sig, pump := pmp,
            pumpBandwidth := 0, pumpAveragePower := 0, pumpSpectrumThreshold := 0, pp := .off,
            signalWaistPos := 0, idlerWaistPos := 0, deff := 0 },
          ⟨hs, hs, le_rfl, le_rfl, (fun _ _ _ h => nomatch h), ?_⟩⟩
  show sigfigs (freqToWl (wlToFreq (775 * nano)) / nano) < sigfigs (freqToWl (wlToFreq (1550 * nano)) / nano)
  rw [wl_roundtrip, wl_roundtrip, nano_roundtrip, nano_roundtrip]
  have a : sigfigs (775 : ℝ) = 775 := by
    have := sigfigs_of_grid 7750000; norm_num at this; exact this
  have b : sigfigs (1550 : ℝ) = 1550 := by
    have := sigfigs_of_grid 15500000; norm_num at this; exact this
  rw [a, b]; norm_num

/-! ## T3 — "auto" is the explicit optimum; defaults -/

/-- each field given as "auto" is exactly what the corresponding numeric sub-routine returns on
the setup as assembled so far (crystal → pump → signal → poling → crystal angle → idler → waist
positions): the crystal angle is computed on the crystal with the placeholder angle, the poling
period before the angle step, the idler on the final crystal and poling, the waist positions on the
final crystal. -/
theorem auto_is_explicit (cfg : Config ℝ) (ext : Ext ℝ) (s : Setup ℝ)
    (h : tryAsSpdc cfg ext = .ok s) :
    (cfg.crystal.thetaDeg.isAuto = true →
      ext.theta cfg.crystal.toSetup s.signal s.pump = .ok s.crystal.theta) ∧
    (cfg.idler = .auto → ext.idler s.signal s.pump s.crystal s.pp = .ok s.idler) ∧
    (cfg.signal.waistPositionUm = .auto →
      ext.waistPos s.crystal s.signal.wavelength s.signal.pol = .ok s.signalWaistPos) ∧
    (idlerWaistCfg cfg = .auto →
      ext.waistPos s.crystal s.idler.wavelength s.idler.pol = .ok s.idlerWaistPos) ∧
    (∀ apod, cfg.poling = .config .auto apod →
      ∃ per, ext.period s.signal s.pump cfg.crystal.toSetup = .ok per ∧
        s.pp = Poling.new per (Apod.ofCfg apod)) := by
  obtain ⟨signal, pp, c1, idler, iwp, swp, hsig, _, hpp, hc1, hid, hiwp, hswp, rfl⟩ :=
    tryAsSpdcG_ok_inv h
  refine ⟨?_, ?_, ?_, ?_, ?_⟩
  · intro ha
    rcases thetaStep_ok hc1 with ⟨hna, _⟩ | ⟨_, _, th, hth, rfl⟩
    · rw [ha] at hna; exact absurd hna (by simp)
    · exact optimumTheta_ok hth
  · intro hi
    simp only [idlerStep, hi] at hid
    exact optimumIdler_ok hid
  · intro hw
    simpa [waistPosition, hw] using hswp
  · intro hw
    simpa [waistPosition, hw] using hiwp
  · intro apod hp
    rw [hp] at hpp
    simp only [PolingCfg.tryAsPoling, map_eq_ok] at hpp
    obtain ⟨per, hper, rfl⟩ := hpp
    exact ⟨per, optimumPolingPeriod_ok hper, rfl⟩

/-- explicit waist positions are stored as `-|focus|` in metres -/
theorem explicit_waist_positions (cfg : Config ℝ) (ext : Ext ℝ) (s : Setup ℝ)
    (h : tryAsSpdc cfg ext = .ok s) :
    (∀ f, cfg.signal.waistPositionUm = .param f → s.signalWaistPos = -|f| * micro) ∧
    (∀ f, idlerWaistCfg cfg = .param f → s.idlerWaistPos = -|f| * micro) := by
  obtain ⟨signal, pp, c1, idler, iwp, swp, _, _, _, _, _, hiwp, hswp, rfl⟩ := tryAsSpdcG_ok_inv h
  constructor
  · intro f hf
    simp only [waistPosition, hf, Outcome.ok.injEq] at hswp
    exact hswp.symm
  · intro f hf
    simp only [waistPosition, hf, Outcome.ok.injEq] at hiwp
    exact hiwp.symm

/-- omitted optional fields behave as the documented defaults: `phi_deg` 0, crystal `theta_deg`
"auto", `counter_propagation` false, `waist_position_um` "auto", `idler` "auto", no periodic poling,
and (applied in `try_as_spdc`) `spectrum_threshold` 1e-2 -/
theorem defaults (r : RawConfig ℝ) (ext : Ext ℝ) :
    r.fill = ({ r with
      crystalPhiDeg := some (r.crystalPhiDeg.getD 0.0)
      crystalThetaDeg := some (r.crystalThetaDeg.getD .auto)
      counterProp := some (r.counterProp.getD false)
      signalPhiDeg := some (r.signalPhiDeg.getD 0.0)
      signalWaistPositionUm := some (r.signalWaistPositionUm.getD .auto)
      idler := some (r.idler.getD .auto)
      poling := some (r.poling.getD .off) } : RawConfig ℝ).fill ∧
    tryAsSpdc r.fill ext =
      tryAsSpdc { r.fill with pump := { r.fill.pump with
        spectrumThreshold := some (r.fill.pump.spectrumThreshold.getD 1.0e-2) } } ext := by
  constructor
  · simp [RawConfig.fill]
  · rfl

/-- the crate's default configuration is the all-defaults one: only the required fields given -/
example : (defaultConfig : Config ℝ) =
    ({ kind := 1, pmType := .t2_e_eo, crystalPhiDeg := none, crystalThetaDeg := none,
       lengthUm := 2000.0, temperatureC := 20.0, counterProp := none,
       pump := ⟨775.0, 100.0, 5.53, 1.0, some 1.0e-2⟩, signalWavelengthNm := 1550.0,
       signalPhiDeg := none, signalThetaDeg := some 0.0, signalThetaExternalDeg := none,
       signalWaistUm := 100.0, signalWaistPositionUm := none, idler := none, poling := none,
       deffPmPerVolt := 1.0 } : RawConfig ℝ).fill := rfl

/-! ## composed model

Above, the numeric sub-routines are an arbitrary bundle `ext`.  `Compose.composedExt`
(`Spdc/Model/ComposeAuto.lean`) is the bundle in which every routine is computed by the composed
model from the configuration's own numbers: Snell inverse and the three optimisers through the
modelled Nelder–Mead (`NM1D.run`) with cost closures built from the composed `Δk` (Sellmeier →
Fresnel → beams → optimum idler → wave vectors), optimum idler, optimal waist position.
`Compose.fromConfig` turns a configuration into a primitive composed setup with nothing taken from
the real crate. -/

/-- composed model: `fromConfig` is, by definition, `try_as_spdc` run with the composed routines
followed by the adapter to the primitive record -/
theorem compose_fromConfig_refines (cfg : Config ℝ) :
    Compose.fromConfig cfg = (tryAsSpdc cfg Compose.composedExt).map (Compose.toCompose cfg) ∧
    Compose.jsiFromConfig cfg = fun divs ωs ωi =>
      ((tryAsSpdc cfg Compose.composedExt).map (Compose.toCompose cfg)).bind fun S =>
        Compose.jsi S divs ωs ωi := ⟨rfl, rfl⟩

/-- composed model, T3 with the concrete routines: every `"auto"` field of the setup that the
composed `try_as_spdc` produces is the value of the composed optimiser on the setup assembled so far —
the crystal angle is the Nelder–Mead minimiser of the composed `|Δk_z(θ)|` started at `(π/6, π/6+1)`
on the crystal with the placeholder angle, the poling period that of `|Δk_z(Λ)|` computed before the
angle step, the idler the optimum idler on the final crystal and poling, the waist positions
`−L/(2 n_z)` with the composed index.  (The wavelength guard inside the composed routines has
passed, so they are the bare optimisers.) -/
theorem compose_auto_is_explicit (cfg : Config ℝ) (s : Setup ℝ) (h : Compose.trySpdc cfg = .ok s) :
    (cfg.crystal.thetaDeg.isAuto = true →
      Compose.optimumThetaB (Compose.carrier cfg.crystal.toSetup) (Compose.beamOfCfg s.signal)
        (Compose.beamOfCfg s.pump) = .ok s.crystal.theta) ∧
    (cfg.idler = .auto →
      (Compose.optimumIdlerB (Compose.carrier s.crystal) (Compose.beamOfCfg s.signal)
        (Compose.beamOfCfg s.pump) (Compose.ppDKofCfg s.pp)).map Compose.cfgOfBeam = .ok s.idler) ∧
    (cfg.signal.waistPositionUm = .auto →
      s.signalWaistPos = Compose.optimalWaistPositionAt (Compose.carrier s.crystal) s.signal.wavelength
        (Compose.polIndex s.signal.pol)) ∧
    (idlerWaistCfg cfg = .auto →
      s.idlerWaistPos = Compose.optimalWaistPositionAt (Compose.carrier s.crystal) s.idler.wavelength
        (Compose.polIndex s.idler.pol)) ∧
    (∀ apod, cfg.poling = .config .auto apod →
      ∃ per, Compose.optimumPolingPeriodB (Compose.carrier cfg.crystal.toSetup)
          (Compose.beamOfCfg s.signal) (Compose.beamOfCfg s.pump) = .ok per ∧
        s.pp = Poling.new per (Apod.ofCfg apod)) := by
  have h' : tryAsSpdc cfg Compose.composedExt = .ok s := h
  obtain ⟨h1, h2, h3, h4, h5⟩ := auto_is_explicit cfg Compose.composedExt s h'
  obtain ⟨signal, pp, c1, idler, iwp, swp, _, hg, _, _, _, _, _, hs⟩ := tryAsSpdcG_ok_inv h'
  have hguard : lsLeLp s.signal s.pump = false := by rw [hs]; exact hg rfl
  refine ⟨?_, h2, ?_, ?_, ?_⟩
  · intro ha
    have := h1 ha
    simpa [Compose.composedExt, hguard] using this
  · intro hw
    have := h3 hw
    simpa [Compose.composedExt] using this.symm
  · intro hw
    have := h4 hw
    simpa [Compose.composedExt] using this.symm
  · intro apod hp
    obtain ⟨per, hper, hpp⟩ := h5 apod hp
    exact ⟨per, by simpa [Compose.composedExt, hguard] using hper, hpp⟩

end Spdc.Props.C16
