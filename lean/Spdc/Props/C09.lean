import Spdc.Real.HomLemmas
import Spdc.Real.ComposeGridLemmas
/-!
# C09 — the HOM coincidence rate is a bounded, correctly normalised interference sum

Property theorems only; all are about the executable model `Spdc.Hom` (flat arrays, `Steps2D`
enumeration) at the ℝ instance.  Helper lemmas: `Spdc/Real/HomLemmas.lean`.
-/
namespace Spdc.Props.C09
open Spdc Spdc.Grid Spdc.Hom Spdc.HomLemmas

/-- T1a. The interference sum of an array with its exchanged-position counterpart is bounded by
the norm — any side, any axes, any delay. -/
theorem abs_interf_le (n : ℕ) (grid : Steps2D ℝ) (hx : grid.x.n = n) (hy : grid.y.n = n)
    (f : Array (Cx ℝ)) (hf : f.size = n * n) (τ : ℝ) :
    |homInterf grid f (swapArr n f) τ| ≤ jsiNorm f :=
  abs_homInterf_le n grid hx hy f hf τ

/-- T1b. For a non-zero spectrum on a square grid the model's `homRate` returns a value in
`[0, 1]`, and the visibility `(½ − r)/½` lies in `[−1, 1]`, at every delay. -/
theorem homRate_mem_unit (n : ℕ) (grid : Steps2D ℝ) (hx : grid.x.n = n) (hy : grid.y.n = n)
    (f : Array (Cx ℝ)) (hf : f.size = n * n) (hN : 0 < jsiNorm f) (τ : ℝ) :
    ∃ r, homRate grid f (swapArr n f) τ none = .ok r ∧ 0 ≤ r ∧ r ≤ 1 ∧
      -1 ≤ visibilityOf r ∧ visibilityOf r ≤ 1 := by
  have hlen : grid.len = n * n := by simp [Steps2D.len, hx, hy]
  refine ⟨_, homRate_none_ok grid f (swapArr n f) τ (by rw [hlen, hf]) (by rw [hlen, size_swapArr]), ?_⟩
  have h := rate_mem_of_abs_le hN (abs_homInterf_le n grid hx hy f hf τ)
  refine ⟨h.1, h.2, ?_, ?_⟩ <;> rw [visibilityOf_eq] <;> linarith [h.1, h.2]

/-- T2a. The swap index map `k ↦ (k mod n)·n + k div n` is an involutive permutation of the flat
index range of an `n × n` grid. -/
theorem swap_index_perm (n k : ℕ) (hk : k < n * n) :
    swapIdx n k < n * n ∧ swapIdx n (swapIdx n k) = k ∧
      get2dIndices (swapIdx n k) n = ((get2dIndices k n).2, (get2dIndices k n).1) :=
  ⟨swapIdx_lt hk, swapIdx_invol hk, by simp [get2dIndices, swapIdx_mod hk, swapIdx_div hk]⟩

/-- T2b. On a grid with identical axes the grid point at the swapped index is the exchanged pair,
so the frequency difference changes sign. -/
theorem swap_index_grid (n : ℕ) (ax : Steps ℝ) (hn : ax.n = n) (k : ℕ) (hk : k < n * n) :
    Steps2D.value ⟨ax, ax⟩ (swapIdx n k) =
        ((Steps2D.value ⟨ax, ax⟩ k).2, (Steps2D.value ⟨ax, ax⟩ k).1) ∧
      deltaW ⟨ax, ax⟩ (swapIdx n k) = - deltaW ⟨ax, ax⟩ k :=
  ⟨value_swapIdx ax hn hk, deltaW_swapIdx ax hn hk⟩

/-- T2c. On identical axes the exchanged-argument sampling `(J(ω_i, ω_s))_k` built by the
setup-level wrappers is the sampled array read at swapped positions: the hypotheses of T1 hold
for the concrete flat arrays. -/
theorem exchanged_is_swapArr (J : ℝ → ℝ → Cx ℝ) (n : ℕ) (ax : Steps ℝ) (hn : ax.n = n) :
    sampledSwapped J ⟨ax, ax⟩ = swapArr n (sampled J ⟨ax, ax⟩) :=
  sampledSwapped_eq_swapArr J ax hn

/-- T3. A spectrum symmetric under exchange gives rate 0 (visibility 1) at zero delay. -/
theorem symmetric_zero (n : ℕ) (grid : Steps2D ℝ) (hx : grid.x.n = n) (hy : grid.y.n = n)
    (f : Array (Cx ℝ)) (hf : f.size = n * n) (hN : jsiNorm f ≠ 0)
    (hsym : ∀ k, k < n * n → at' f (swapIdx n k) = at' f k) :
    homRate grid f (swapArr n f) 0 none = .ok 0 ∧ visibilityOf (0 : ℝ) = 1 := by
  have hlen : grid.len = n * n := by simp [Steps2D.len, hx, hy]
  rw [homRate_none_ok grid f (swapArr n f) 0 (by rw [hlen, hf]) (by rw [hlen, size_swapArr])]
  have hI : homInterf grid f (swapArr n f) 0 = jsiNorm f := by
    rw [homInterf_eq, jsiNorm_eq, hlen, hf]
    apply Finset.sum_congr rfl
    intro k hk
    have hk' := Finset.mem_range.mp hk
    rw [homTerm_eq, at_swapArr f hk', hsym k hk', ← homTerm_eq, homTerm_zero_delay_self]
  rw [hI, div_self hN, visibilityOf_eq]
  norm_num

/-- T4. Separable Gaussian-type spectrum `a(ω_s) a(ω_i) · exp(i t₀ (ω_i − ω_s)/2)` (any real
envelope `a`): on *every* grid the interference sum of the setup-level construction is exactly
`Σ_k a(ω_s)² a(ω_i)² cos(Δ_k (τ − t₀))` — the dip sits at `τ = +t₀`. -/
theorem gaussian_reduction (a : ℝ → ℝ) (t0 : ℝ) (grid : Steps2D ℝ) (τ : ℝ) :
    let J : ℝ → ℝ → Cx ℝ := fun ws wi => Cx.fromPolar (a ws * a wi) (t0 * (wi - ws) / 2)
    homInterf grid (sampled J grid) (sampledSwapped J grid) τ =
      ∑ k ∈ Finset.range grid.len,
        (a (grid.value k).1 * a (grid.value k).2) ^ 2 * Real.cos (deltaW grid k * (τ - t0)) := by
  intro J
  rw [homInterf_eq]
  apply Finset.sum_congr rfl
  intro k hk
  have hk' := Finset.mem_range.mp hk
  rw [homTerm_eq, at_sampled J grid hk', at_sampledSwapped J grid hk']
  simp only [J, toC_fromPolar]
  have hd : (grid.value k).1 - (grid.value k).2 = -(deltaW grid k) := by simp [deltaW]
  have hd' : (grid.value k).2 - (grid.value k).1 = deltaW grid k := by simp [deltaW]
  rw [hd, hd', gaussian_term]
  ring

/-- T4 (corollary). At `τ = t₀` the rate of that spectrum is exactly 0 on every grid. -/
theorem gaussian_dip_at_t0 (a : ℝ → ℝ) (t0 : ℝ) (grid : Steps2D ℝ) :
    let J : ℝ → ℝ → Cx ℝ := fun ws wi => Cx.fromPolar (a ws * a wi) (t0 * (wi - ws) / 2)
    jsiNorm (sampled J grid) ≠ 0 →
      homRate grid (sampled J grid) (sampledSwapped J grid) t0 none = .ok 0 := by
  intro J hN
  rw [homRate_none_ok grid _ _ t0 (by rw [size_sampled]) (by rw [size_sampledSwapped])]
  have hI : homInterf grid (sampled J grid) (sampledSwapped J grid) t0 = jsiNorm (sampled J grid) := by
    rw [gaussian_reduction a t0 grid t0, jsiNorm_eq, size_sampled]
    apply Finset.sum_congr rfl
    intro k hk
    rw [at_sampled J grid (Finset.mem_range.mp hk)]
    simp only [J, toC_fromPolar, sub_self, mul_zero, Real.cos_zero, mul_one, map_mul,
      Complex.normSq_ofReal]
    rw [Complex.normSq_eq_norm_sq, Complex.norm_exp_ofReal_mul_I]
    ring
  rw [hI, div_self hN]
  norm_num

/-- T5a. A delay series is the list of individually computed rates (shared normalisation =
the norm each single call computes). -/
theorem series_eq_map (grid : Steps2D ℝ) (f g : Array (Cx ℝ)) (τs : List ℝ) :
    homRateSeries grid f g τs = collectOutcomes (τs.map fun τ => homRate grid f g τ none) := by
  unfold homRateSeries
  simp only [homRate_some_eq_none]

/-- T5b. The setup-level calls are the array-level functions applied to `(J(ω_s,ω_i))_k` and
`(J(ω_i,ω_s))_k` sampled on the same grid. -/
theorem setup_wrappers (J : ℝ → ℝ → Cx ℝ) (grid : Steps2D ℝ) (τs : List ℝ) (δt : ℝ) :
    homRateSeriesSetup J grid τs =
        collectOutcomes (τs.map fun τ => homRate grid (sampled J grid) (sampledSwapped J grid) τ none) ∧
      homVisibilitySetup J grid δt =
        (homRate grid (sampled J grid) (sampledSwapped J grid) δt none).map visibilityOf :=
  ⟨series_eq_map grid _ _ τs, rfl⟩

/-- T6. The rate is invariant under a common non-zero complex scale factor. -/
theorem rate_scale_invariant (grid : Steps2D ℝ) (c : Cx ℝ) (hc : c.toC ≠ 0) (f g : Array (Cx ℝ))
    (hf : grid.len ≤ f.size) (hg : grid.len ≤ g.size) (τ : ℝ) :
    homRate grid (scaleArr c f) (scaleArr c g) τ none = homRate grid f g τ none := by
  rw [homRate_none_ok grid _ _ τ (by rw [size_scaleArr]; exact hf) (by rw [size_scaleArr]; exact hg),
    homRate_none_ok grid f g τ hf hg, jsiNorm_scale]
  have hI : homInterf grid (scaleArr c f) (scaleArr c g) τ =
      Complex.normSq c.toC * homInterf grid f g τ := by
    rw [homInterf_eq, homInterf_eq, Finset.mul_sum]
    apply Finset.sum_congr rfl
    intro k hk
    have hk' := Finset.mem_range.mp hk
    exact homTerm_scale grid c f g τ (lt_of_lt_of_le hk' hf) (lt_of_lt_of_le hk' hg)
  have hcn : Complex.normSq c.toC ≠ 0 := fun h => hc (Complex.normSq_eq_zero.mp h)
  rw [hI, mul_div_mul_left _ _ hcn]

/-- T1+T2+T5 combined: for any amplitude function sampled on a square grid with identical axes (non-zero
spectrum) the setup-level visibility call returns a value in `[−1, 1]`, and every rate of the
setup-level series lies in `[0, 1]`. -/
theorem setup_level_mem_unit (J : ℝ → ℝ → Cx ℝ) (n : ℕ) (ax : Steps ℝ) (hn : ax.n = n)
    (hN : 0 < jsiNorm (sampled J ⟨ax, ax⟩)) (δt : ℝ) :
    (∃ v, homVisibilitySetup J ⟨ax, ax⟩ δt = .ok v ∧ -1 ≤ v ∧ v ≤ 1) ∧
      ∀ τ, ∃ r, homRateSeriesSetup J ⟨ax, ax⟩ [τ] = .ok [r] ∧ 0 ≤ r ∧ r ≤ 1 := by
  have hs : (sampled J ⟨ax, ax⟩).size = n * n := by
    rw [size_sampled]; simp [Steps2D.len, hn]
  constructor
  · obtain ⟨r, hr, _, _, h3, h4⟩ :=
      homRate_mem_unit n ⟨ax, ax⟩ hn hn (sampled J ⟨ax, ax⟩) hs hN δt
    refine ⟨visibilityOf r, ?_, h3, h4⟩
    simp only [homVisibilitySetup, homVisibility, exchanged_is_swapArr J n ax hn, hr, Outcome.map]
  · intro τ
    obtain ⟨r, hr, h1, h2, _, _⟩ :=
      homRate_mem_unit n ⟨ax, ax⟩ hn hn (sampled J ⟨ax, ax⟩) hs hN τ
    refine ⟨r, ?_, h1, h2⟩
    rw [(setup_wrappers J ⟨ax, ax⟩ [τ] 0).1, exchanged_is_swapArr J n ax hn]
    simp only [List.map_cons, List.map_nil, hr, collectOutcomes]

/-! ### non-vacuity -/

/-- a concrete non-symmetric 2×2 spectrum satisfying the hypotheses of `homRate_mem_unit` -/
example : ∃ r, homRate (⟨⟨1, 2, 2⟩, ⟨1, 2, 2⟩⟩ : Steps2D ℝ)
    #[⟨1, 0⟩, ⟨0, 1⟩, ⟨2, 0⟩, ⟨0, 0⟩] (swapArr 2 #[⟨1, 0⟩, ⟨0, 1⟩, ⟨2, 0⟩, ⟨0, 0⟩]) 0.3 none = .ok r ∧
    0 ≤ r ∧ r ≤ 1 ∧ -1 ≤ visibilityOf r ∧ visibilityOf r ≤ 1 :=
  homRate_mem_unit 2 _ rfl rfl _ rfl (by norm_num [jsiNorm, sumList, Cx.normSq]) _

/-- a symmetric 2×2 spectrum satisfying the hypotheses of `symmetric_zero` -/
example : homRate (⟨⟨1, 2, 2⟩, ⟨1, 2, 2⟩⟩ : Steps2D ℝ)
    #[⟨1, 0⟩, ⟨0, 1⟩, ⟨0, 1⟩, ⟨3, 0⟩] (swapArr 2 #[⟨1, 0⟩, ⟨0, 1⟩, ⟨0, 1⟩, ⟨3, 0⟩]) 0 none = .ok 0 :=
  (symmetric_zero 2 _ rfl rfl _ rfl (by norm_num [jsiNorm, sumList, Cx.normSq]) (by
    intro k hk
    have : k = 0 ∨ k = 1 ∨ k = 2 ∨ k = 3 := by omega
    rcases this with h | h | h | h <;> subst h <;> simp [at', swapIdx])).1

/-! ## composed model (grid level)

The theorems above are about the HOM layer with the amplitude arrays (or an arbitrary amplitude
function `J`) as inputs.  Below they are lifted to the COMPOSED model (`Spdc/Model/ComposeGrid.lean`):
the only inputs are a primitive setup, the Simpson division count, the range and the delays; the
spectrum object (`JointSpectrum::new` through the composed `try_as_optimum`), both amplitude arrays and
the dip delay (group velocities from the composed indices) are computed from them through all layers.
The hypotheses say that the calls involved return (`= .ok …`): a spectrum object exists, the
joint-spectrum view of the setup exists (optimum idler, walk-off derivative, `k_eff`), the division
count passes the assertions of the Simpson rule. -/

/-- composed model, T1+T2+T5 lifted: for every primitive setup, every square range with identical
signal and idler axes on which the composed spectrum is not identically zero, and every delay, the
rate returned by the composed `SPDC::hom_rate_series` lies in `[0, 1]`. -/
theorem compose_hom_rate_mem_unit (S : Compose.Setup ℝ) (divs : Nat) (js : Compose.JS ℝ)
    (hjs : Compose.jointSpectrum S divs = .ok js) (J : PM.JSetup ℝ) (hJ : Compose.jsetup S = .ok J)
    (q : List (ℝ × ℝ) × ℝ) (hq : Compose.simpsonRule divs = .ok q)
    (n : ℕ) (ax : Steps ℝ) (hn : ax.n = n)
    (hN : 0 < jsiNorm (sampled (PM.jsa J q.1 q.2) ⟨ax, ax⟩)) (τ : ℝ) :
    ∃ r, Compose.homRateSeries S divs (.freq ⟨ax, ax⟩) [τ] = .ok [r] ∧ 0 ≤ r ∧ r ≤ 1 := by
  obtain ⟨hS, hd, -⟩ := Compose.jointSpectrum_ok hjs
  obtain ⟨r, hr, h0, h1⟩ := (setup_level_mem_unit (PM.jsa J q.1 q.2) n ax hn hN 0).2 τ
  refine ⟨r, ?_, h0, h1⟩
  unfold Compose.homRateSeries
  rw [hjs]
  simp only [Outcome.bind, Compose.Ranges.toFrequencySpace]
  rw [Compose.homArrays_eq (hS ▸ hJ) (hd ▸ hq)]
  exact hr

/-- composed model: the composed `SPDC::hom_visibility` returns the composed dip delay
`hom_time_delay` and a visibility in `[−1, 1]` (same hypotheses; the dip delay must evaluate, i.e. the
two group-velocity derivatives are finite). -/
theorem compose_hom_visibility_mem (S : Compose.Setup ℝ) (divs : Nat) (js : Compose.JS ℝ)
    (hjs : Compose.jointSpectrum S divs = .ok js) (J : PM.JSetup ℝ) (hJ : Compose.jsetup S = .ok J)
    (q : List (ℝ × ℝ) × ℝ) (hq : Compose.simpsonRule divs = .ok q)
    (δt : ℝ) (hδ : Compose.homTimeDelay S = .ok δt)
    (n : ℕ) (ax : Steps ℝ) (hn : ax.n = n)
    (hN : 0 < jsiNorm (sampled (PM.jsa J q.1 q.2) ⟨ax, ax⟩)) :
    ∃ v, Compose.homVisibility S divs (.freq ⟨ax, ax⟩) = .ok (δt, v) ∧ -1 ≤ v ∧ v ≤ 1 := by
  obtain ⟨hS, hd, -⟩ := Compose.jointSpectrum_ok hjs
  obtain ⟨v, hv, h0, h1⟩ := (setup_level_mem_unit (PM.jsa J q.1 q.2) n ax hn hN δt).1
  refine ⟨v, ?_, h0, h1⟩
  unfold Compose.homVisibility
  rw [hjs]
  simp only [Outcome.bind, Compose.Ranges.toFrequencySpace]
  rw [Compose.homArrays_eq (hS ▸ hJ) (hd ▸ hq), hδ]
  dsimp only
  have hv' : Hom.homVisibility ⟨ax, ax⟩ (sampled (PM.jsa J q.1 q.2) ⟨ax, ax⟩)
      (sampledSwapped (PM.jsa J q.1 q.2) ⟨ax, ax⟩) δt = .ok v := hv
  rw [hv']
  rfl

/-- composed model, T5 lifted: the composed series over ANY range (frequency, wavelength or
sum/difference space) is the layer's `homRateSeriesSetup` of the total composed amplitude function on
the frequency space the range converts to — each entry is an individually computed rate. -/
theorem compose_hom_series_eq (S : Compose.Setup ℝ) (divs : Nat) (js : Compose.JS ℝ)
    (hjs : Compose.jointSpectrum S divs = .ok js) (J : PM.JSetup ℝ) (hJ : Compose.jsetup S = .ok J)
    (q : List (ℝ × ℝ) × ℝ) (hq : Compose.simpsonRule divs = .ok q) (R : Compose.Ranges ℝ) (τs : List ℝ) :
    Compose.homRateSeries S divs R τs = homRateSeriesSetup (PM.jsa J q.1 q.2) R.toFrequencySpace τs := by
  obtain ⟨hS, hd, -⟩ := Compose.jointSpectrum_ok hjs
  unfold Compose.homRateSeries
  rw [hjs]
  simp only [Outcome.bind]
  rw [Compose.homArrays_eq (hS ▸ hJ) (hd ▸ hq)]
  rfl

/-- non-vacuity of the structural hypotheses: Simpson-50 passes the assertions (the rule exists), and
a two-point axis is a square range with identical axes -/
example : ∃ q, (Compose.simpsonRule 50 : Outcome (List (ℝ × ℝ) × ℝ)) = .ok q :=
  ⟨_, rfl⟩

example : (⟨1, 2, 2⟩ : Steps ℝ).n = 2 := rfl

/-- non-vacuity of the outcome hypotheses (`hjs`, `hJ`, `hq`): for the concrete unpoled KTP setup
`Compose.exGrid` (explicit idler, 775 → 1500 + 1603 nm) the spectrum object (Simpson-50), the
joint-spectrum view and the Simpson rule all exist over ℝ (`Compose.grid_hypotheses_satisfiable`
shows the same for every unpoled explicit-idler setup with `0 ≠ λ_p < λ_s`) -/
example : ∃ js J q, Compose.jointSpectrum Compose.exGrid 50 = .ok js ∧ Compose.jsetup Compose.exGrid = .ok J ∧
    (Compose.simpsonRule 50 : Outcome (List (ℝ × ℝ) × ℝ)) = .ok q := Compose.exGrid_available

end Spdc.Props.C09
