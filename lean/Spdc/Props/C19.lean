import Spdc.Real.Poling
/-!
# C19 — apodization windows and poling domains are well-formed

Property theorems only (helper lemmas live in `Spdc/Real/Poling.lean`).  All statements are about the
executable model `Spdc/Model/Poling.lean` at the scalar `ℝ`.
-/
namespace Spdc.Props.C19
open Spdc Spdc.Poling

/-- the seven built-in kinds at width parameter 1 (the Gaussian for any FWHM) -/
def builtin1 (w : Apod ℝ) : Prop :=
  w = .bartlett 1 ∨ w = .blackman 1 ∨ w = .connes 1 ∨ w = .cosine 1 ∨ w = .hamming 1 ∨ w = .welch 1
    ∨ ∃ fwhm, w = .gaussian fwhm

/-- T1. Every built-in window with width parameter 1 is, for `z ∈ [−1, 1]`, a value (no panic),
even in `z`, equal to 1 at the centre and within `[0, 1]`. -/
theorem window_builtin (w : Apod ℝ) (hw : builtin1 w) (len z : ℝ) (hz : -1 ≤ z ∧ z ≤ 1) :
    ∃ v v0 : ℝ, window w z len = .ok v ∧ window w (-z) len = .ok v ∧ window w 0 len = .ok v0
      ∧ v0 = 1 ∧ 0 ≤ v ∧ v ≤ 1 := by
  have hz' : -1 ≤ -z ∧ -z ≤ 1 := ⟨by linarith [hz.2], by linarith [hz.1]⟩
  have h0 : (-1 : ℝ) ≤ 0 ∧ (0 : ℝ) ≤ 1 := ⟨by norm_num, by norm_num⟩
  rw [window_in_range w z len hz, window_in_range w (-z) len hz', window_in_range w 0 len h0]
  rcases hw with rfl | rfl | rfl | rfl | rfl | rfl | ⟨fwhm, rfl⟩
  · exact ⟨_, _, windowRaw_bartlett1 z len, by rw [windowRaw_bartlett1, bartlett1_even],
      windowRaw_bartlett1 0 len, bartlett1_zero, (bartlett1_range hz).1, (bartlett1_range hz).2⟩
  · exact ⟨_, _, windowRaw_blackman1 z len, by rw [windowRaw_blackman1, blackman1_even],
      windowRaw_blackman1 0 len, blackman1_zero, (blackman1_range z).1, (blackman1_range z).2⟩
  · exact ⟨_, _, windowRaw_connes1 z len, by rw [windowRaw_connes1, connes1_even],
      windowRaw_connes1 0 len, connes1_zero, (connes1_range hz).1, (connes1_range hz).2⟩
  · exact ⟨_, _, windowRaw_cosine1 z len, by rw [windowRaw_cosine1, cosine1_even],
      windowRaw_cosine1 0 len, cosine1_zero, (cosine1_range hz).1, (cosine1_range hz).2⟩
  · exact ⟨_, _, windowRaw_hamming1 z len, by rw [windowRaw_hamming1, hamming1_even],
      windowRaw_hamming1 0 len, hamming1_zero, (hamming1_range z).1, (hamming1_range z).2⟩
  · exact ⟨_, _, windowRaw_welch1 z len, by rw [windowRaw_welch1, welch1_even],
      windowRaw_welch1 0 len, welch1_zero, (welch1_range hz).1, (welch1_range hz).2⟩
  · exact ⟨_, _, windowRaw_gaussian fwhm z len, by rw [windowRaw_gaussian, gaussianW_even],
      windowRaw_gaussian fwhm 0 len, gaussianW_zero fwhm len, (gaussianW_range fwhm len z).1,
      (gaussianW_range fwhm len z).2⟩

/-- T1b. Outside `[−1, 1]` the call panics (the `assert!` on `z`), whatever the window. -/
theorem window_outside_panics (w : Apod ℝ) (z len : ℝ) (hz : z < -1 ∨ 1 < z) :
    (window w z len).isPanic = true := window_out_of_range w z len hz

/-- T1c. The Gaussian window falls to one half at `z = ± fwhm / L`, i.e. at ± half its FWHM
(`z` is the position in units of half the crystal length). -/
theorem gaussian_half (fwhm len : ℝ) (hf : 0 < fwhm) (hl : 0 < len) (hz : fwhm ≤ len) :
    window (.gaussian fwhm) (fwhm / len) len = .ok (1 / 2)
      ∧ window (.gaussian fwhm) (-(fwhm / len)) len = .ok (1 / 2) := by
  have h1 : fwhm / len ≤ 1 := (div_le_one hl).mpr hz
  have h0 : 0 ≤ fwhm / len := (div_pos hf hl).le
  rw [window_in_range _ _ _ ⟨by linarith, h1⟩, window_in_range _ _ _ ⟨by linarith, by linarith⟩,
    windowRaw_gaussian, windowRaw_gaussian, gaussianW_even, gaussianW_half fwhm len hf.ne' hl.ne']
  exact ⟨rfl, rfl⟩

/-- T1d. No apodization means weight 1 everywhere. -/
theorem off_one (z len : ℝ) (hz : -1 ≤ z ∧ z ≤ 1) : window .off z len = .ok 1 := by
  rw [window_in_range _ _ _ hz]; simp [windowRaw, lit_one]

example : builtin1 (.blackman 1) := Or.inr (Or.inl rfl)
example : window (.gaussian (500e-6 : ℝ)) (500e-6 / 1e-3) 1e-3 = .ok (1 / 2) :=
  (gaussian_half 500e-6 1e-3 (by norm_num) (by norm_num) (by norm_num)).1

/-! ### T2 — interpolated profiles -/

/-- T2a. No samples: weight 1. One sample: that sample everywhere. -/
theorem interp_empty (z len : ℝ) (hz : -1 ≤ z ∧ z ≤ 1) : window (.interpolate []) z len = .ok 1 := by
  rw [window_in_range _ _ _ hz]; exact interpolate_nil z

/-- T2b. Piecewise linearity: a fraction `t ∈ [0,1]` of the way from sample `j` to sample `j+1`
(samples sit at `z_j = −1 + 2j/(n−1)`) the profile is `v_j (1−t) + v_{j+1} t`; in particular it
passes through every sample. -/
theorem interp_piecewise_linear (vs : List ℝ) (len : ℝ) (j : ℕ) (hj : j + 1 < vs.length) (t : ℝ)
    (ht : 0 ≤ t ∧ t ≤ 1) :
    window (.interpolate vs) (interpPos vs.length j t) len = .ok (vs[j] * (1 - t) + vs[j + 1] * t) := by
  rw [window_in_range _ _ _ (interpPos_range vs.length j t hj ht)]
  exact interpolate_linear vs j hj t ht

/-- T2c. The first and last samples are returned at `z = −1` and `z = +1`. -/
theorem interp_ends (vs : List ℝ) (len : ℝ) (hn : 2 ≤ vs.length) :
    window (.interpolate vs) (-1) len = .ok (vs[0]'(by omega))
      ∧ window (.interpolate vs) 1 len = .ok (vs[vs.length - 1]'(by omega)) := by
  have hcast : ((vs.length - 1 : ℕ) : ℝ) ≠ 0 := by
    have : vs.length - 1 ≠ 0 := by omega
    exact_mod_cast this
  constructor
  · have h := interp_piecewise_linear vs len 0 (by omega) 0 ⟨le_refl _, by norm_num⟩
    have hp : interpPos vs.length 0 0 = -1 := by simp [interpPos]
    rw [hp] at h; rw [h]; congr 1; ring
  · have h := interp_piecewise_linear vs len (vs.length - 2) (by omega) 1 ⟨by norm_num, le_refl _⟩
    have hp : interpPos vs.length (vs.length - 2) 1 = 1 := by
      have e : ((vs.length - 2 : ℕ) : ℝ) + 1 = ((vs.length - 1 : ℕ) : ℝ) := by
        have : vs.length - 2 + 1 = vs.length - 1 := by omega
        exact_mod_cast this
      simp only [interpPos, e]; field_simp; ring
    rw [hp] at h; rw [h]
    have e2 : vs.length - 2 + 1 = vs.length - 1 := by omega
    simp only [e2]; congr 1; ring

/-- T2d. Inside `[−1, 1]` no window ever panics (the interpolation indices stay in range). -/
theorem window_never_panics (w : Apod ℝ) (z len : ℝ) (hz : -1 ≤ z ∧ z ≤ 1) :
    ∃ v, window w z len = .ok v := window_ok w z len hz

/-! ### T3 — the domain list -/

/-- T3a. A poled crystal has `⌈L/Λ⌉` domains; the list is never a panic and entry `i` is the pair
computed from the window value at the centre `z_i = −1 + (2i+1)/n` of that domain. -/
theorem domains_list (period : ℝ) (sign : Sign) (w : Apod ℝ) (len : ℝ) :
    (PP.on period sign w).numDomains len = ⌈len / period⌉.toNat
      ∧ ∃ l, (PP.on period sign w).polingDomains len = .ok l
          ∧ l.length = ⌈len / period⌉.toNat
          ∧ ∀ i (hi : i < l.length),
              l[i] = domainPair (centreValue w len i ⌈len / period⌉.toNat) (domainCentre i ⌈len / period⌉.toNat)
              ∧ window w (domainCentre i ⌈len / period⌉.toNat) len
                  = .ok (centreValue w len i ⌈len / period⌉.toNat)
              ∧ (domainCentre i ⌈len / period⌉.toNat : ℝ) = -1 + (2 * (i : ℝ) + 1) / (⌈len / period⌉.toNat : ℝ) := by
  refine ⟨numDomains_on period sign w len, _, polingDomains_on period sign w len, by simp, ?_⟩
  intro i hi
  have hi' : i < ⌈len / period⌉.toNat := by simpa using hi
  refine ⟨by simp, window_centre w len i _ hi', domainCentre_real i _⟩

/-- T3b. For a window value `a ∈ [−1, 1]` both fractions of the pair lie in `[0,1]` and sum to 1;
the narrower one is `d = arccos(1−2a²)/2π ≤ ½` with `sin(π d) = |a|`; it is the second component in
the second half of the crystal (`z > 0`) and the first one otherwise. -/
theorem domain_pair (a z : ℝ) (ha : -1 ≤ a ∧ a ≤ 1) :
    0 ≤ (domainPair a z).1 ∧ (domainPair a z).1 ≤ 1 ∧ 0 ≤ (domainPair a z).2 ∧ (domainPair a z).2 ≤ 1
      ∧ (domainPair a z).1 + (domainPair a z).2 = 1
      ∧ min (domainPair a z).1 (domainPair a z).2 = dutyX a
      ∧ Real.sin (Real.pi * dutyX a) = |a|
      ∧ (0 < z → (domainPair a z).2 = dutyX a) ∧ (¬ 0 < z → (domainPair a z).1 = dutyX a) :=
  domainPair_props a z ha

/-- T3c. No apodization (`a = 1`) gives a 50 % duty cycle, and the domain centres are mirror
images about the crystal centre (so the order of the pair flips there). -/
theorem domain_half_and_mirror (z : ℝ) (i n : ℕ) (hi : i < n) :
    domainPair 1 z = (1 / 2, 1 / 2)
      ∧ (domainCentre (n - 1 - i) n : ℝ) = -(domainCentre i n : ℝ) := by
  refine ⟨?_, domainCentre_mirror i n hi⟩
  rw [domainPair_real, dutyX_one]; split_ifs <;> norm_num

/-! ### T4 — the period / apodization state machine -/

/-- T4a. `new` (and hence `with_period`, `assign_period`) with a non-zero period stores the positive
magnitude and the sign: the signed period is the requested one, negative period ⇔ negative sign. -/
theorem new_convention (p : ℝ) (w : Apod ℝ) (hp : p ≠ 0) :
    ∃ m s, PP.new p w = .on m s w ∧ 0 < m ∧ m = |p| ∧ (s = .neg ↔ p < 0)
      ∧ (PP.new p w).signedPeriod? = some p := by
  refine ⟨_, _, new_on p w, ?_, ?_, ?_, new_signed p w⟩
  · split_ifs with h
    · exact h
    · have : p < 0 := lt_of_le_of_ne (not_lt.mp h) hp
      linarith
  · split_ifs with h
    · exact (abs_of_pos h).symm
    · exact (abs_of_nonpos (not_lt.mp h)).symm
  · split_ifs with h
    · simp; linarith
    · simp; exact lt_of_le_of_ne (not_lt.mp h) hp

/-- T4b. Changing the period keeps the apodization (`Off` gets no apodization). -/
theorem period_update_keeps_apod (p : PP ℝ) (q : ℝ) :
    (p.withPeriod q).apodization = p.apodization ∧ (p.assignPeriod q).apodization = p.apodization := by
  cases p <;> simp [PP.withPeriod, PP.assignPeriod, PP.apodization, PP.new]

/-- T4c. Changing the apodization of a well-formed description keeps period and sign exactly. -/
theorem apod_update_keeps_period_sign (period : ℝ) (sign : Sign) (w0 w : Apod ℝ) (hp : 0 < period) :
    (PP.on period sign w0).withApodization w = .on period sign w :=
  withApodization_on period sign w0 w hp

/-- T4d. The invariant "stored magnitude positive" holds after every sequence of operations whose
requested periods are non-zero, starting from `Off` (induction over the sequence); it implies the
sign convention and the value of `k_eff`. -/
theorem state_machine_invariant (ops : List (Op ℝ))
    (ho : ∀ o ∈ ops, ∀ q, o.period? = some q → q ≠ 0) :
    (PP.off.run ops).Inv
      ∧ ∀ period sign w, PP.off.run ops = .on period sign w →
          0 < period ∧ (sign = .neg ↔ sign.mul period < 0) ∧ |sign.mul period| = period
            ∧ (PP.on period sign w).kEff = .ok (2 * Real.pi / sign.mul period) := by
  have hinv := run_inv ops PP.off trivial ho
  refine ⟨hinv, ?_⟩
  intro period sign w h
  rw [h] at hinv
  have hp : 0 < period := hinv
  exact ⟨hp, (sign_iff period sign hp).1, (sign_iff period sign hp).2, kEff_on period sign w hp⟩

example : (PP.off.run [Op.new (-46.5e-6 : ℝ) .off, .setApodization (.bartlett 1), .assignPeriod 10e-6]).Inv :=
  (state_machine_invariant _ (by
    intro o ho q hq
    simp only [List.mem_cons, List.not_mem_nil, or_false] at ho
    rcases ho with rfl | rfl | rfl <;> simp [Op.period?] at hq <;> subst hq <;> norm_num)).1
example : (-1 : ℝ) ≤ (0.3 : ℝ) ∧ (0.3 : ℝ) ≤ 1 := by norm_num

end Spdc.Props.C19
