import Spdc.Real.Poling
/-!
# C19 — apodization windows and poling domains are well-formed

Property theorems only (helper lemmas live in `Spdc/Real/Poling.lean`).  All statements are about the
executable model `Spdc/Model/Poling.lean` at the scalar `ℝ`.
-/
namespace Spdc.Props.C19
open Spdc Spdc.Poling

/-- the seven built-in kinds at width parameter 1 (the Gaussian for any FWHM) -/
def builtin1 (w : Apod ℝ) : Prop :=
  w = .bartlett 1 ∨ w = .blackman 1 ∨ w = .connes 1 ∨ w = .cosine 1 ∨ w = .hamming 1 ∨ w = .welch 1
    ∨ ∃ fwhm, w = .gaussian fwhm

/-- T1. Every built-in window with width parameter 1 is, for `z ∈ [−1, 1]`, a value (no panic),
even in `z`, equal to 1 at the centre and within `[0, 1]`. -/
theorem window_builtin (w : Apod ℝ) (hw : builtin1 w) (len z : ℝ) (hz : -1 ≤ z ∧ z ≤ 1) :
    ∃ v v0 : ℝ, window w z len = .ok v ∧ window w (-z) len = .ok v ∧ window w 0 len = .ok v0
      ∧ v0 = 1 ∧ 0 ≤ v ∧ v ≤ 1 := by
  have hz' : -1 ≤ -z ∧ -z ≤ 1 := ⟨by linarith [hz.2], by linarith [hz.1]⟩
  have h0 : (-1 : ℝ) ≤ 0 ∧ (0 : ℝ) ≤ 1 := ⟨by norm_num, by norm_num⟩
  rw [window_in_range w z len hz, window_in_range w (-z) len hz', window_in_range w 0 len h0]
  rcases hw with rfl | rfl | rfl | rfl | rfl | rfl | ⟨fwhm, rfl⟩
  · exact ⟨_, _, windowRaw_bartlett1 z len, by rw [windowRaw_bartlett1, bartlett1_even],
      windowRaw_bartlett1 0 len, bartlett1_zero, (bartlett1_range hz).1, (bartlett1_range hz).2⟩
  · exact ⟨_, _, windowRaw_blackman1 z len, by rw [windowRaw_blackman1, blackman1_even],
      windowRaw_blackman1 0 len, blackman1_zero, (blackman1_range z).1, (blackman1_range z).2⟩
  · exact ⟨_, _, windowRaw_connes1 z len, by rw [windowRaw_connes1, connes1_even],
      windowRaw_connes1 0 len, connes1_zero, (connes1_range hz).1, (connes1_range hz).2⟩
  · exact ⟨_, _, windowRaw_cosine1 z len, by rw [windowRaw_cosine1, cosine1_even],
      windowRaw_cosine1 0 len, cosine1_zero, (cosine1_range hz).1, (cosine1_range hz).2⟩
  · exact ⟨_, _, windowRaw_hamming1 z len, by rw [windowRaw_hamming1, hamming1_even],
      windowRaw_hamming1 0 len, hamming1_zero, (hamming1_range z).1, (hamming1_range z).2⟩
  · exact ⟨_, _, windowRaw_welch1 z len, by rw [windowRaw_welch1, welch1_even],
      windowRaw_welch1 0 len, welch1_zero, (welch1_range hz).1, (welch1_range hz).2⟩
  · exact ⟨_, _, windowRaw_gaussian fwhm z len, by rw [windowRaw_gaussian, gaussianW_even],
      windowRaw_gaussian fwhm 0 len, gaussianW_zero fwhm len, (gaussianW_range fwhm len z).1,
      (gaussianW_range fwhm len z).2⟩

/-- T1b. Outside `[−1, 1]` the call panics (the `assert!` on `z`), whatever the window. -/
theorem window_outside_panics (w : Apod ℝ) (z len : ℝ) (hz : z < -1 ∨ 1 < z) :
    (window w z len).isPanic = true := window_out_of_range w z len hz

/-- T1c. The Gaussian window falls to one half at `z = ± fwhm / L`, i.e. at ± half its FWHM
(`z` is the position in units of half the crystal length). -/
theorem gaussian_half (fwhm len : ℝ) (hf : 0 < fwhm) (hl : 0 < len) (hz : fwhm ≤ len) :
    window (.gaussian fwhm) (fwhm / len) len = .ok (1 / 2)
      ∧ window (.gaussian fwhm) (-(fwhm / len)) len = .ok (1 / 2) := by
  have h1 : fwhm / len ≤ 1 := (div_le_one hl).mpr hz
  have h0 : 0 ≤ fwhm / len := (div_pos hf hl).le
  rw [window_in_range _ _ _ ⟨by linarith, h1⟩, window_in_range _ _ _ ⟨by linarith, by linarith⟩,
    windowRaw_gaussian, windowRaw_gaussian, gaussianW_even, gaussianW_half fwhm len hf.ne' hl.ne']
  exact ⟨rfl, rfl⟩

/-- T1d. No apodization means weight 1 everywhere. -/
theorem off_one (z len : ℝ) (hz : -1 ≤ z ∧ z ≤ 1) : window .off z len = .ok 1 := by
  rw [window_in_range _ _ _ hz]; simp [windowRaw, lit_one]

example : builtin1 (.blackman 1) := Or.inr (Or.inl rfl)
example : window (.gaussian (500e-6 : ℝ)) (500e-6 / 1e-3) 1e-3 = .ok (1 / 2) :=
  (gaussian_half 500e-6 1e-3 (by norm_num) (by norm_num) (by norm_num)).1

end Spdc.Props.C19
