import Spdc.Real.QuadRule
/-!
# C12 — every quadrature method returns the integral to its accuracy class, 1-D and 2-D

Property theorems only (helper lemmas live in `Spdc/Real/Quad.lean`).  All statements are about the
executable model `Spdc/Model/Quad.lean` at the scalar `ℝ` (complex values through `Cx.toC : Cx ℝ → ℂ`).
-/
namespace Spdc.Props.C12
open Spdc Spdc.Quad

/-- T1. Composite Simpson is exact on every complex cubic, for every interval (either orientation)
and every accepted division count: the value is `P(b) − P(a)` with `P` the antiderivative. -/
theorem simpson_exact_cubic (c0 c1 c2 c3 : Cx ℝ) (a b : ℝ) (divs : ℕ) (v : Cx ℝ)
    (h : simpson (polyEval [c0, c1, c2, c3]) a b divs = .ok v) :
    v.toC = cubicAnti c0.toC c1.toC c2.toC c3.toC b - cubicAnti c0.toC c1.toC c2.toC c3.toC a := by
  obtain ⟨d, hd, rfl⟩ := map_eq_ok h
  obtain ⟨_, _, m, hm, rfl⟩ := simpsonDivs_ok hd
  exact simpsonCore_cubic c0 c1 c2 c3 a b m (by omega)

/-- T2a. Reversing the interval negates the result (and panics for the same division counts). -/
theorem simpson_reverse (f : ℝ → Cx ℝ) (a b : ℝ) (divs : ℕ) :
    simpson f b a divs = (simpson f a b divs).map Cx.neg :=
  simpson_reverse' f a b divs

/-- T2b. The rule is linear in the integrand (complex coefficients). -/
theorem simpson_linear (f g : ℝ → Cx ℝ) (al be : Cx ℝ) (a b : ℝ) (divs : ℕ) (u v : Cx ℝ)
    (hf : simpson f a b divs = .ok u) (hg : simpson g a b divs = .ok v) :
    simpson (fun x => Cx.add (Cx.mul al (f x)) (Cx.mul be (g x))) a b divs
      = .ok (Cx.add (Cx.mul al u) (Cx.mul be v)) := by
  obtain ⟨d, hd, rfl⟩ := map_eq_ok hf
  obtain ⟨d', hd', rfl⟩ := map_eq_ok hg
  rw [hd] at hd'; injection hd' with hd'; subst hd'
  simp only [simpson, hd, Outcome.map, simpsonCore_linear]

/-- T5a. The accepted division counts: 1-D from 5 on, 2-D from 3 on (odd counts are rounded up). -/
theorem simpson_accepts_iff (f : ℝ → Cx ℝ) (a b : ℝ) (divs : ℕ) :
    (simpson f a b divs).isOk = true ↔ 5 ≤ divs := by
  unfold simpson; rw [map_isOk]; exact simpsonDivs_isOk divs

theorem simpson2d_accepts_iff (f : ℝ → ℝ → Cx ℝ) (ax bx ay by_ : ℝ) (divs : ℕ) :
    (simpson2d f ax bx ay by_ divs).isOk = true ↔ 3 ≤ divs := by
  unfold simpson2d; rw [map_isOk]; exact simpson2dDivs_isOk divs

/-- T5b. Any division count accepted for 1-D integration is accepted for 2-D integration
(holds after the `fix:` that rounds odd counts up in `simpson2d`). -/
theorem accept_1d_imp_2d (f : ℝ → Cx ℝ) (g : ℝ → ℝ → Cx ℝ) (a b ax bx ay by_ : ℝ) (divs : ℕ)
    (h : (simpson f a b divs).isOk = true) : (simpson2d g ax bx ay by_ divs).isOk = true := by
  rw [simpson_accepts_iff] at h
  rw [simpson2d_accepts_iff]; omega

/-- T5c (finding D4a). The statement's parameter domain "divisions 4–400" is **not** accepted in
1-D: `divs = 4` panics ("Steps too low") although the 2-D rule accepts it. -/
theorem simpson_domain_4_400_not_accepted :
    ¬ ∀ divs, 4 ≤ divs → divs ≤ 400 →
        (simpson (fun _ => (Cx.one : Cx ℝ)) 0 1 divs).isOk = true := by
  intro h
  have := h 4 (by omega) (by omega)
  rw [simpson_accepts_iff] at this
  omega

example : (simpson2d (fun _ _ => (Cx.one : Cx ℝ)) 0 1 0 1 4).isOk = true := by
  rw [simpson2d_accepts_iff]; omega
example : (simpson (fun _ => (Cx.one : Cx ℝ)) 0 1 50).isOk = true := by
  rw [simpson_accepts_iff]; omega

/-! ### T1 (continued) — panels, the integral -/

/-- T1a. `simpson_panels`: with `2m` sub-intervals the 1-4-2-…-4-1 sum of the model equals the sum
over the `m` panels of `(h/3)(f₀ + 4f₁ + f₂)`. -/
theorem simpson_panels (f : ℝ → Cx ℝ) (a b : ℝ) (m : ℕ) (hm : 1 ≤ m) :
    (simpsonCore f a b (2 * m)).toC
      = ∑ j ∈ Finset.range m,
          ((f (a + ((2 * j : ℕ) : ℝ) * ((b - a) / ((2 * m : ℕ) : ℝ)))).toC
            + 4 * (f (a + ((2 * j + 1 : ℕ) : ℝ) * ((b - a) / ((2 * m : ℕ) : ℝ)))).toC
            + (f (a + ((2 * j + 2 : ℕ) : ℝ) * ((b - a) / ((2 * m : ℕ) : ℝ)))).toC)
          * ((((b - a) / ((2 * m : ℕ) : ℝ)) / 3 : ℝ) : ℂ) := by
  rw [simpsonCore_toC,
    weighted_eq_panels (fun i => (f (a + (i : ℝ) * ((b - a) / ((2 * m : ℕ) : ℝ)))).toC) m hm,
    Finset.sum_mul]

/-- T1b. The closed form of `simpson_exact_cubic` *is* the integral: composite Simpson returns
`∫ₐᵇ p` for every complex cubic `p`. -/
theorem simpson_exact_cubic_integral (c0 c1 c2 c3 : Cx ℝ) (a b : ℝ) (divs : ℕ) (v : Cx ℝ)
    (h : simpson (polyEval [c0, c1, c2, c3]) a b divs = .ok v) :
    v.toC = ∫ x in a..b, (polyEval [c0, c1, c2, c3] x).toC := by
  rw [simpson_exact_cubic c0 c1 c2 c3 a b divs v h]
  simp only [polyEval4_toC]
  exact (integral_cubic _ _ _ _ a b).symm

/-! ### T2 (continued) — two dimensions -/

/-- T2c. Separability: the 2-D rule on `g(x)·h(y)` is the product of the 1-D rules with the same
number of sub-intervals (the 1-D entry point `simpson` reaches that number with `divs + 2`, because
it uses `divs + divs % 2 − 2` sub-intervals where `simpson2d` uses `divs + divs % 2`). -/
theorem simpson2d_separable (g h : ℝ → Cx ℝ) (ax bx ay by_ : ℝ) (divs : ℕ) (v : Cx ℝ)
    (hv : simpson2d (fun x y => Cx.mul (g x) (h y)) ax bx ay by_ divs = .ok v) :
    ∃ u w, simpson g ax bx (divs + divs % 2 + 2) = .ok u ∧ simpson h ay by_ (divs + divs % 2 + 2) = .ok w
      ∧ v.toC = u.toC * w.toC := by
  obtain ⟨d, hd, rfl⟩ := map_eq_ok hv
  obtain ⟨_, hdd, m, hm, rfl⟩ := simpson2dDivs_ok hd
  have hdivs : simpsonDivs (divs + divs % 2 + 2) = .ok (2 * m) := by
    unfold simpsonDivs
    have e : (divs + divs % 2 + 2) % 2 = 0 := by omega
    rw [e, if_neg (by omega), if_neg (by omega)]
    congr 1; omega
  refine ⟨simpsonCore g ax bx (2 * m), simpsonCore h ay by_ (2 * m), ?_, ?_, ?_⟩
  · simp [simpson, hdivs, Outcome.map]
  · simp [simpson, hdivs, Outcome.map]
  · exact simpson2dCore_sep g h ax bx ay by_ (2 * m) (by omega)

/-- T2d. The 2-D rule is exact on every bi-cubic polynomial `Σ c_ij xⁱ yʲ` (rows = powers of `y`),
every rectangle, every accepted division count. -/
theorem simpson2d_exact_bicubic (r0 r1 r2 r3 : Cx ℝ × Cx ℝ × Cx ℝ × Cx ℝ) (ax bx ay by_ : ℝ) (divs : ℕ)
    (v : Cx ℝ)
    (hv : simpson2d (poly2Eval [[r0.1, r0.2.1, r0.2.2.1, r0.2.2.2], [r1.1, r1.2.1, r1.2.2.1, r1.2.2.2],
        [r2.1, r2.2.1, r2.2.2.1, r2.2.2.2], [r3.1, r3.2.1, r3.2.2.1, r3.2.2.2]]) ax bx ay by_ divs = .ok v) :
    v.toC = cubicAnti (rowAnti r0 ax bx) (rowAnti r1 ax bx) (rowAnti r2 ax bx) (rowAnti r3 ax bx) by_
        - cubicAnti (rowAnti r0 ax bx) (rowAnti r1 ax bx) (rowAnti r2 ax bx) (rowAnti r3 ax bx) ay := by
  obtain ⟨d, hd, rfl⟩ := map_eq_ok hv
  obtain ⟨_, _, m, hm, rfl⟩ := simpson2dDivs_ok hd
  exact simpson2dCore_bicubic r0 r1 r2 r3 ax bx ay by_ m (by omega)

/-! ### T3 — rules given by nodes and weights (Gauss–Legendre) -/

/-- T3a. `rule_exact_of_moments`: a rule whose nodes/weights reproduce the moments of `[−1,1]` up to
degree `m` integrates every complex polynomial with at most `m+1` coefficients exactly on every
interval (real and imaginary parts, as `Integrator::GaussLegendre` computes them); the n-point
Gauss–Legendre rule has `m = 2n − 1`. -/
theorem rule_exact_of_moments (nodes weights : List ℝ) (m : ℕ)
    (hmom : ∀ k, k ≤ m → ruleMoment nodes weights k = (1 - (-1) ^ (k + 1)) / ((k : ℝ) + 1))
    (cs : List (Cx ℝ)) (hcs : cs.length ≤ m + 1) (a b : ℝ) :
    (ruleApply nodes weights (polyEval cs) a b).re = ∫ x in a..b, (polyEval cs x).re
      ∧ (ruleApply nodes weights (polyEval cs) a b).im = ∫ x in a..b, (polyEval cs x).im :=
  ruleApply_exact nodes weights m (fun k hk => by rw [hmom k hk, moment_closed]) cs hcs a b

/-- T3b. Within its degree class such a rule negates under reversal of the interval. -/
theorem rule_reverse_of_moments (nodes weights : List ℝ) (m : ℕ)
    (hmom : ∀ k, k ≤ m → ruleMoment nodes weights k = (1 - (-1) ^ (k + 1)) / ((k : ℝ) + 1))
    (cs : List (Cx ℝ)) (hcs : cs.length ≤ m + 1) (a b : ℝ) :
    ruleApply nodes weights (polyEval cs) b a = Cx.neg (ruleApply nodes weights (polyEval cs) a b) := by
  obtain ⟨h1, h2⟩ := rule_exact_of_moments nodes weights m hmom cs hcs a b
  obtain ⟨h3, h4⟩ := rule_exact_of_moments nodes weights m hmom cs hcs b a
  apply Cx.ext'
  · rw [h3, intervalIntegral.integral_symm, ← h1]; rfl
  · rw [h4, intervalIntegral.integral_symm, ← h2]; rfl

/-- T3c. Every node/weight rule is linear in the integrand and its nested 2-D form is separable. -/
theorem rule_linear_separable (nodes weights : List ℝ) (f g : ℝ → Cx ℝ) (al be : Cx ℝ) (a b c d : ℝ) :
    ruleApply nodes weights (fun x => Cx.add (Cx.mul al (f x)) (Cx.mul be (g x))) a b
        = Cx.add (Cx.mul al (ruleApply nodes weights f a b)) (Cx.mul be (ruleApply nodes weights g a b))
      ∧ ruleApply2d nodes weights (fun x y => Cx.mul (f x) (g y)) a b c d
        = Cx.mul (ruleApply nodes weights f a b) (ruleApply nodes weights g c d) :=
  ⟨ruleApply_linear nodes weights f g al be a b, ruleApply2d_sep nodes weights f g a b c d⟩

/-! ### T4 — adaptive Simpson -/

/-- T4a. `asr_exact_cubic`: adaptive Simpson returns the exact integral of every complex cubic, for
every interval, every tolerance (even non-positive) and every `max_depth`. -/
theorem asr_exact_cubic (c0 c1 c2 c3 : Cx ℝ) (a b eps : ℝ) (depth : ℕ) :
    (simpsonAdaptive (polyEval [c0, c1, c2, c3]) a b eps depth).toC
      = ∫ x in a..b, (polyEval [c0, c1, c2, c3] x).toC := by
  rw [simpsonAdaptive_cubic]
  simp only [polyEval4_toC]
  exact (integral_cubic _ _ _ _ a b).symm

/-- T4b. `asr_reverse` (holds after the `fix:` that uses the signed width): reversing the interval
negates the result, for every integrand. -/
theorem asr_reverse (f : ℝ → Cx ℝ) (a b eps : ℝ) (depth : ℕ) :
    simpsonAdaptive f b a eps depth = Cx.neg (simpsonAdaptive f a b eps depth) :=
  simpsonAdaptive_reverse f a b eps depth

/-- T4c. `asr_evals_le`: the recursion makes at most `2^(max_depth+1) + 1` integrand evaluations —
termination within the fuel (the model's count is tied to the real call count by the `adaptive` op). -/
theorem asr_evals_le (f : ℝ → Cx ℝ) (a b eps : ℝ) (depth : ℕ) :
    simpsonAdaptiveEvals f a b eps depth ≤ 2 ^ (depth + 1) + 1 :=
  simpsonAdaptiveEvals_le f a b eps depth

/-- T4d. `asr_linear` in the form that is true of an adaptive rule: scaling the integrand by a
non-zero complex constant `c` and the tolerance by `|c|` scales the result by `c`; additivity holds
on the degree class by `asr_exact_cubic` (for general integrands the subdivision trees differ). -/
theorem asr_homogeneous (f : ℝ → Cx ℝ) (c : Cx ℝ) (hc : 0 < Cx.abs c) (a b eps : ℝ) (depth : ℕ) :
    simpsonAdaptive (fun x => Cx.mul c (f x)) a b (Cx.abs c * eps) depth
      = Cx.mul c (simpsonAdaptive f a b eps depth) :=
  simpsonAdaptive_scale f c hc a b eps depth

example : (0 : ℝ) < Cx.abs (⟨3, 4⟩ : Cx ℝ) := by
  show 0 < Real.sqrt (3 * 3 + 4 * 4)
  apply Real.sqrt_pos.mpr; norm_num
/-- non-vacuity of the moment hypothesis: the 2-point Gauss–Legendre rule `±1/√3`, weights 1, `m = 1`
(checked here for the exactly representable moments `k = 0, 1`) -/
example : ∀ k, k ≤ 1 → ruleMoment [-(1 / 2 : ℝ), 1 / 2] [1, 1] k = (1 - (-1) ^ (k + 1)) / ((k : ℝ) + 1) := by
  intro k hk
  interval_cases k <;> simp [ruleMoment_real]

end Spdc.Props.C12
