import Spdc.Real.Quad
/-!
# C12 — every quadrature method returns the integral to its accuracy class, 1-D and 2-D

Property theorems only (helper lemmas live in `Spdc/Real/Quad.lean`).  All statements are about the
executable model `Spdc/Model/Quad.lean` at the scalar `ℝ` (complex values through `Cx.toC : Cx ℝ → ℂ`).
-/
namespace Spdc.Props.C12
open Spdc Spdc.Quad

/-- T1. Composite Simpson is exact on every complex cubic, for every interval (either orientation)
and every accepted division count: the value is `P(b) − P(a)` with `P` the antiderivative. -/
theorem simpson_exact_cubic (c0 c1 c2 c3 : Cx ℝ) (a b : ℝ) (divs : ℕ) (v : Cx ℝ)
    (h : simpson (polyEval [c0, c1, c2, c3]) a b divs = .ok v) :
    v.toC = cubicAnti c0.toC c1.toC c2.toC c3.toC b - cubicAnti c0.toC c1.toC c2.toC c3.toC a := by
  obtain ⟨d, hd, rfl⟩ := map_eq_ok h
  obtain ⟨_, _, m, hm, rfl⟩ := simpsonDivs_ok hd
  exact simpsonCore_cubic c0 c1 c2 c3 a b m (by omega)

/-- T2a. Reversing the interval negates the result (and panics for the same division counts). -/
theorem simpson_reverse (f : ℝ → Cx ℝ) (a b : ℝ) (divs : ℕ) :
    simpson f b a divs = (simpson f a b divs).map Cx.neg :=
  simpson_reverse' f a b divs

/-- T2b. The rule is linear in the integrand (complex coefficients). -/
theorem simpson_linear (f g : ℝ → Cx ℝ) (al be : Cx ℝ) (a b : ℝ) (divs : ℕ) (u v : Cx ℝ)
    (hf : simpson f a b divs = .ok u) (hg : simpson g a b divs = .ok v) :
    simpson (fun x => Cx.add (Cx.mul al (f x)) (Cx.mul be (g x))) a b divs
      = .ok (Cx.add (Cx.mul al u) (Cx.mul be v)) := by
  obtain ⟨d, hd, rfl⟩ := map_eq_ok hf
  obtain ⟨d', hd', rfl⟩ := map_eq_ok hg
  rw [hd] at hd'; injection hd' with hd'; subst hd'
  simp only [simpson, hd, Outcome.map, simpsonCore_linear]

/-- T5a. The accepted division counts: 1-D from 5 on, 2-D from 3 on (odd counts are rounded up). -/
theorem simpson_accepts_iff (f : ℝ → Cx ℝ) (a b : ℝ) (divs : ℕ) :
    (simpson f a b divs).isOk = true ↔ 5 ≤ divs := by
  unfold simpson; rw [map_isOk]; exact simpsonDivs_isOk divs

theorem simpson2d_accepts_iff (f : ℝ → ℝ → Cx ℝ) (ax bx ay by_ : ℝ) (divs : ℕ) :
    (simpson2d f ax bx ay by_ divs).isOk = true ↔ 3 ≤ divs := by
  unfold simpson2d; rw [map_isOk]; exact simpson2dDivs_isOk divs

/-- T5b. Any division count accepted for 1-D integration is accepted for 2-D integration
(holds after the `fix:` that rounds odd counts up in `simpson2d`). -/
theorem accept_1d_imp_2d (f : ℝ → Cx ℝ) (g : ℝ → ℝ → Cx ℝ) (a b ax bx ay by_ : ℝ) (divs : ℕ)
    (h : (simpson f a b divs).isOk = true) : (simpson2d g ax bx ay by_ divs).isOk = true := by
  rw [simpson_accepts_iff] at h
  rw [simpson2d_accepts_iff]; omega

/-- T5c (finding D4a). The statement's parameter domain "divisions 4–400" is **not** accepted in
1-D: `divs = 4` panics ("Steps too low") although the 2-D rule accepts it. -/
theorem simpson_domain_4_400_not_accepted :
    ¬ ∀ divs, 4 ≤ divs → divs ≤ 400 →
        (simpson (fun _ => (Cx.one : Cx ℝ)) 0 1 divs).isOk = true := by
  intro h
  have := h 4 (by omega) (by omega)
  rw [simpson_accepts_iff] at this
  omega

example : (simpson2d (fun _ _ => (Cx.one : Cx ℝ)) 0 1 0 1 4).isOk = true := by
  rw [simpson2d_accepts_iff]; omega
example : (simpson (fun _ => (Cx.one : Cx ℝ)) 0 1 50).isOk = true := by
  rw [simpson_accepts_iff]; omega

end Spdc.Props.C12
