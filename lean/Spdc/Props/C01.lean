import Spdc.Real.CrystalClass
/-!
# C01 — principal refractive indices: Sellmeier data, bounds, monotonicity, class, windows, ids,
temperature law

Property theorems only (helper lemmas live in `Spdc/Real/CrystalLemmas.lean`).  All statements are
about the ℝ instance of `Spdc/Model/Crystals.lean`, the model whose Float instance is compared with
`CrystalType::get_indices` / `get_meta` / `from_string` on every check run.
-/
namespace Spdc.Props.C01
open Spdc Spdc.Crystals

/-! ## T1 — canonical pole form

Every Sellmeier equation of the crate is `A' + Σₖ Pₖ/(λ² − Cₖ) − D·λ²`.  `sellA`, `sellP`, `sellG`
are literally of that form; the other shapes the code uses are rewritten here.  (The sign and pole
conditions `Pₖ > 0`, `D ≥ 0`, `Cₖ` outside the window are discharged per crystal and axis in
`Spdc/Real/CrystalAxes.lean`, which is what T2 rests on.) -/

theorem nSq_canonical (A B C D P C1 C2 B1 B2 c1 c2 x l : ℝ) :
    (x ≠ C → sellB A B C D x = (A + B) + B * C / (x - C) - D * x) ∧
    (x ≠ C1 → sellK A B C1 P C2 x = (A + B) + B * C1 / (x - C1) + P / (x - C2)) ∧
    (l ≠ 0 → l * l ≠ c1 * c1 → l * l ≠ c2 * c2 →
      sellInv A B1 c1 B2 c2 l =
        (A + B1 + B2) + B1 * (c1 * c1) / (l * l - c1 * c1) + B2 * (c2 * c2) / (l * l - c2 * c2)) ∧
    (x ≠ c1 → x ≠ c2 →
      sellStd A B1 B2 0.0 c1 c2 0.0 x = (A + B1 + B2) + B1 * c1 / (x - c1) + B2 * c2 / (x - c2)) := by
  refine ⟨fun h => ?_, fun h => ?_, fun h0 h1 h2 => ?_, fun h1 h2 => ?_⟩
  · have : x - C ≠ 0 := sub_ne_zero.mpr h
    simp only [sellB]; field_simp; ring
  · have : x - C1 ≠ 0 := sub_ne_zero.mpr h
    simp only [sellK, mul_div_sub_eq this]; ring
  · have e1 : l * l - c1 * c1 ≠ 0 := sub_ne_zero.mpr h1
    have e2 : l * l - c2 * c2 ≠ 0 := sub_ne_zero.mpr h2
    have d1 : (1 : ℝ) - c1 / l * (c1 / l) = (l * l - c1 * c1) / (l * l) := by field_simp
    have d2 : (1 : ℝ) - c2 / l * (c2 / l) = (l * l - c2 * c2) / (l * l) := by field_simp
    simp only [sellInv, sqr, lit_one, d1, d2, div_div_eq_mul_div, mul_div_sub_eq e1,
      mul_div_sub_eq e2]
    ring
  · have e1 : x - c1 ≠ 0 := sub_ne_zero.mpr h1
    have e2 : x - c2 ≠ 0 := sub_ne_zero.mpr h2
    simp only [sellStd, lit_zero, zero_div, add_zero]
    field_simp
    ring

/-! ## T2 — strictly decreasing in wavelength; T3 — physical bounds

`Tmin = 223.15 K`, `Tmax = 473.15 K` are −50 °C and 200 °C; wavelengths in metres inside the declared
window.  The proof goes through the canonical form of each Sellmeier equation (every pole term
`P/(λ²−C)` with `P > 0` and the pole outside the window, `−Dλ²` with `D ≥ 0`; lemmas `sell*_anti`
of `Spdc/Real/CrystalLemmas.lean`, instantiated per crystal and axis in `Spdc/Real/CrystalAxes.lean`,
KTP `n_y` on both branches with the downward jump at 1.2 µm, LiNb_MgO for every admissible `F`). -/

/-- every principal index strictly decreases with increasing wavelength over the whole window,
for every crystal and every temperature of the range -/
theorem indices_strictAnti_in_wavelength (c : Crystal) {T : ℝ} (hT1 : Tmin ≤ T) (hT2 : T ≤ Tmax)
    {lam1 lam2 : ℝ} (h1 : windowLo c ≤ lam1) (h12 : lam1 < lam2) (h2 : lam2 ≤ windowHi c) :
    (indices c lam2 T).x < (indices c lam1 T).x ∧ (indices c lam2 T).y < (indices c lam1 T).y ∧
    (indices c lam2 T).z < (indices c lam1 T).z :=
  ⟨indices_comp_anti c hT1 hT2 h1 h12 h2 0, indices_comp_anti c hT1 hT2 h1 h12 h2 1,
   indices_comp_anti c hT1 hT2 h1 h12 h2 2⟩

/-- the squared indices stay above 1.03² on the window, so the square roots in the code are taken
of positive numbers (no NaN / Mathlib-totalisation artefact) -/
theorem nSq_pos (c : Crystal) {T : ℝ} (hT1 : Tmin ≤ T) (hT2 : T ≤ Tmax) {lam : ℝ}
    (h1 : windowLo c ≤ lam) (h2 : lam ≤ windowHi c) :
    1 < (nSq c (microns lam) T).x ∧ 1 < (nSq c (microns lam) T).y ∧ 1 < (nSq c (microns lam) T).z := by
  have h := fun i => ((nSq_good c hT1 hT2 i).bounds (microns_mem h1 h2)).1
  have h0 := h 0; have h1' := h 1; have h2' := h 2
  simp only [comp] at h0 h1' h2'
  norm_num at h0 h1' h2'
  exact ⟨by linarith, by linarith, by linarith⟩

/-- every principal index lies strictly between 1 and 4 -/
theorem indices_bounds (c : Crystal) {T : ℝ} (hT1 : Tmin ≤ T) (hT2 : T ≤ Tmax) {lam : ℝ}
    (h1 : windowLo c ≤ lam) (h2 : lam ≤ windowHi c) :
    (1 < (indices c lam T).x ∧ (indices c lam T).x < 4) ∧
    (1 < (indices c lam T).y ∧ (indices c lam T).y < 4) ∧
    (1 < (indices c lam T).z ∧ (indices c lam T).z < 4) :=
  ⟨indices_comp_bounds c hT1 hT2 h1 h2 0, indices_comp_bounds c hT1 hT2 h1 h2 1,
   indices_comp_bounds c hT1 hT2 h1 h2 2⟩

/-- non-vacuity: KTP at the window's lower edge, −50 °C -/
example : 1 < (indices Crystal.KTP (350e-9 : ℝ) Tmin).y ∧ (indices Crystal.KTP (350e-9 : ℝ) Tmin).y < 4 :=
  (indices_bounds .KTP (le_refl _) (by norm_num [Tmin, Tmax]) (by norm_num [windowLo])
    (by norm_num [windowHi])).2.1

/-- the hypotheses are satisfiable: BBO at 800 nm < 1550 nm, 20 °C -/
example : (indices Crystal.BBO_1 (1550e-9 : ℝ) Tref).z < (indices Crystal.BBO_1 (800e-9 : ℝ) Tref).z :=
  (indices_strictAnti_in_wavelength .BBO_1 (by norm_num [Tmin, Tref]) (by norm_num [Tmax, Tref])
    (by norm_num [windowLo]) (by norm_num) (by norm_num [windowHi])).2.2

/-! ## T4 — declared optical class

Uniaxial crystals have two equal indices; every crystal declared `NegativeUniaxial` has
`n_e = n_z < n_o = n_x`; positive biaxial crystals have `n_z` above `n_x` and `n_y` — at every
wavelength of the window and every temperature of the range.  (No built-in crystal is declared
`PositiveUniaxial` or `NegativeBiaxial`; the statement says nothing about the latter.)  The strict
inequalities come from kernel-checked antitone-partition certificates
(`Spdc/Real/CrystalCert.lean`, points found by the untrusted `tools/c01_cert.py`). -/

theorem optical_class (c : Crystal) {T : ℝ} (hT1 : Tmin ≤ T) (hT2 : T ≤ Tmax) {lam : ℝ}
    (h1 : windowLo c ≤ lam) (h2 : lam ≤ windowHi c) :
    ((axisType c).isUniaxial = true → (indices c lam T).x = (indices c lam T).y) ∧
    (axisType c = .NegativeUniaxial → (indices c lam T).z < (indices c lam T).x) ∧
    (axisType c = .PositiveUniaxial → (indices c lam T).x < (indices c lam T).z) ∧
    (axisType c = .PositiveBiaxial →
      (indices c lam T).x < (indices c lam T).z ∧ (indices c lam T).y < (indices c lam T).z) := by
  cases c
  case BBO_1 => exact ⟨fun _ => rfl, fun _ => bbo_ze_lt_xo hT1 hT2 h1 h2, by simp [axisType], by simp [axisType]⟩
  case KTP => exact ⟨by simp [axisType, AxisType.isUniaxial], by simp [axisType], by simp [axisType],
      fun _ => ⟨ktp_x_lt_z hT1 hT2 h1 h2, ktp_y_lt_z hT1 hT2 h1 h2⟩⟩
  case BiBO_1 => exact ⟨by simp [axisType, AxisType.isUniaxial], by simp [axisType], by simp [axisType],
      fun _ => ⟨bibo_x_lt_z hT1 hT2 h1 h2, bibo_y_lt_z hT1 hT2 h1 h2⟩⟩
  case LiNbO3_1 => exact ⟨fun _ => rfl, fun _ => ln_ze_lt_xo hT1 hT2 h1 h2, by simp [axisType], by simp [axisType]⟩
  case LiNb_MgO => exact ⟨fun _ => rfl, fun _ => mgo_ze_lt_xo hT1 hT2 h1 h2, by simp [axisType], by simp [axisType]⟩
  case KDP_1 => exact ⟨fun _ => rfl, fun _ => kdp_ze_lt_xo hT1 hT2 h1 h2, by simp [axisType], by simp [axisType]⟩
  case AgGaSe2_1 => exact ⟨fun _ => rfl, fun _ => ags1_ze_lt_xo hT1 hT2 h1 h2, by simp [axisType], by simp [axisType]⟩
  case AgGaSe2_2 => exact ⟨fun _ => rfl, fun _ => ags2_ze_lt_xo hT1 hT2 h1 h2, by simp [axisType], by simp [axisType]⟩
  case LiIO3_2 => exact ⟨fun _ => rfl, fun _ => lio2_ze_lt_xo hT1 hT2 h1 h2, by simp [axisType], by simp [axisType]⟩
  case LiIO3_1 => exact ⟨fun _ => rfl, fun _ => lio1_ze_lt_xo hT1 hT2 h1 h2, by simp [axisType], by simp [axisType]⟩
  case AgGaS2_1 => exact ⟨fun _ => rfl, fun _ => ags_ze_lt_xo hT1 hT2 h1 h2, by simp [axisType], by simp [axisType]⟩

/-- the declared axis type in the metadata is the one the class theorem speaks about -/
theorem meta_axisType (c : Crystal) : (getMeta (α := ℝ) c).axisType = axisType c := by
  cases c <;> rfl

/-- non-vacuity: AgGaS2 at its narrowest point (500 nm, 200 °C) -/
example : (indices Crystal.AgGaS2_1 (500e-9 : ℝ) Tmax).z < (indices Crystal.AgGaS2_1 (500e-9 : ℝ) Tmax).x :=
  (optical_class .AgGaS2_1 (by norm_num [Tmin, Tmax]) (le_refl _) (by norm_num [windowLo])
    (by norm_num [windowHi])).2.1 rfl

/-! ## T5 — metadata, windows, identifiers -/

/-- every declared transmission window is an interval inside 100 nm – 20 µm -/
theorem meta_wellformed (c : Crystal) :
    ∃ lo hi : ℝ, (getMeta (α := ℝ) c).range = some (lo, hi) ∧
      (100e-9 : ℝ) ≤ lo ∧ lo < hi ∧ hi ≤ (20e-6 : ℝ) := by
  refine ⟨windowLo c, windowHi c, ?_, ?_⟩
  · cases c <;> rfl
  · cases c <;> norm_num [windowLo, windowHi]

/-- identifiers are unique -/
theorem ids_nodup : ((allMeta (α := ℝ)).map (·.id)).Nodup := by
  decide

/-- printing then parsing gives the same crystal -/
theorem fromString_toString (c : Crystal) : fromString (Crystals.toString c) = some c := by
  cases c <;> decide

/-- only a crystal's own identifier parses to it -/
theorem fromString_only_id (s : String) (c : Crystal) (h : fromString s = some c) :
    s = Crystals.toString c := by
  unfold fromString at h
  split at h <;> first | (injection h with h; subst h; rfl) | (exact absurd h (by simp))

/-- every listed metadata record is found again through its identifier (`test_crystal_ids` for all
crystals) -/
theorem meta_fromString :
    ∀ m ∈ allMeta (α := ℝ), ∃ c, fromString m.id = some c ∧ getMeta c = m := by
  intro m hm
  simp only [allMeta, Crystal.all, List.map_cons, List.map_nil, List.mem_cons, List.not_mem_nil,
    or_false] at hm
  rcases hm with rfl | rfl | rfl | rfl | rfl | rfl | rfl | rfl | rfl | rfl | rfl <;>
    exact ⟨_, by decide, rfl⟩

/-- every crystal's metadata is listed, and its printed form is the listed identifier -/
theorem allMeta_complete (c : Crystal) :
    getMeta (α := ℝ) c ∈ allMeta (α := ℝ) ∧ (getMeta (α := ℝ) c).id = Crystals.toString c := by
  cases c <;> simp [allMeta, Crystal.all, getMeta, Crystals.toString]

/-! ## T6 — temperature laws -/

/-- the temperature flag is set exactly for the crystals with a linear thermo-optic term and for
LiNb_MgO (whose law is inside the Sellmeier equation) -/
theorem tempKnown_iff (c : Crystal) :
    tempKnown c = true ↔ (dn (α := ℝ) c).isSome = true ∨ c = .LiNb_MgO := by
  cases c <;> simp [tempKnown, dn]

/-- crystals declared temperature-independent return identical indices at every temperature -/
theorem temperature_independent (c : Crystal) (h : tempKnown c = false) (lam T T' : ℝ) :
    indices c lam T = indices c lam T' := by
  cases c <;> simp [tempKnown] at h <;> rfl

/-- the others (except LiNb_MgO) change linearly with temperature about 20 °C -/
theorem temperature_linear (c : Crystal) (d : Vec3 ℝ) (h : dn c = some d) (lam T : ℝ) :
    (indices c lam T).x = (indices c lam Tref).x + (T - Tref) * d.x ∧
    (indices c lam T).y = (indices c lam Tref).y + (T - Tref) * d.y ∧
    (indices c lam T).z = (indices c lam Tref).z + (T - Tref) * d.z := by
  cases c <;> simp only [dn, Option.some.injEq, reduceCtorEq] at h <;> subst h <;>
    simp only [indices, dn, nSq, tempOffset, Tref] <;> norm_num

/-- … and coincide with the plain Sellmeier value at the reference temperature -/
theorem temperature_reference (c : Crystal) (d : Vec3 ℝ) (h : dn c = some d) (lam : ℝ) :
    indices c lam Tref =
      ⟨Real.sqrt (nSq c (microns lam) Tref).x, Real.sqrt (nSq c (microns lam) Tref).y,
       Real.sqrt (nSq c (microns lam) Tref).z⟩ := by
  cases c <;> simp only [dn, reduceCtorEq] at h <;>
    simp [indices, dn, tempOffset, Tref, Transc.sqrt] <;> norm_num

/-- non-vacuity of the hypotheses of the temperature theorems -/
example : tempKnown Crystal.KDP_1 = false := rfl
example : dn (α := ℝ) Crystal.BBO_1 = some ⟨-9.3e-6, -9.3e-6, -16.6e-6⟩ := rfl
example : (indices Crystal.KDP_1 (1064e-9 : ℝ) 0 = indices Crystal.KDP_1 (1064e-9 : ℝ) 400) :=
  temperature_independent .KDP_1 rfl _ _ _

/-- LiNb_MgO follows the published law: temperature enters only through
`F = (T_c − 24.5)(T_c + 570.82)` inside the Sellmeier equation … -/
theorem temperature_law_mgo (lam T : ℝ) :
    gayerF T = (T - 273.15 - 24.5) * (T - 273.15 + 570.82) ∧
    indices .LiNb_MgO lam T =
      ⟨Real.sqrt (mgoNoSq (gayerF T) (microns lam)), Real.sqrt (mgoNoSq (gayerF T) (microns lam)),
       Real.sqrt (mgoNeSq (gayerF T) (microns lam))⟩ := by
  refine ⟨?_, rfl⟩
  simp only [gayerF, celsius, lit_two]; ring

/-- … and at the reference temperature 24.5 °C (`F = 0`) it is the reference Sellmeier equation -/
theorem temperature_reference_mgo (l : ℝ) :
    gayerF TrefMgO = 0 ∧
    mgoNoSq 0 l = 5.653 + 0.1185 / (l * l - 0.2091 ^ 2) + 89.61 / (l * l - 10.85 ^ 2) - 1.97e-2 * (l * l) ∧
    mgoNeSq 0 l = 5.756 + 0.0983 / (l * l - 0.2020 ^ 2) + 189.32 / (l * l - 12.52 ^ 2) - 1.32e-2 * (l * l) := by
  refine ⟨?_, ?_, ?_⟩
  · simp only [gayerF, celsius, TrefMgO]; norm_num
  · simp only [mgoNoSq, sellG, sqr]; norm_num
  · simp only [mgoNeSq, sellG, sqr]; norm_num

end Spdc.Props.C01
