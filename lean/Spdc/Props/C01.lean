import Spdc.Real.CrystalLemmas
/-!
# C01 — principal refractive indices: Sellmeier data, bounds, monotonicity, class, windows, ids,
temperature law

Property theorems only (helper lemmas live in `Spdc/Real/CrystalLemmas.lean`).  All statements are
about the ℝ instance of `Spdc/Model/Crystals.lean`, the model whose Float instance is compared with
`CrystalType::get_indices` / `get_meta` / `from_string` on every check run.
-/
namespace Spdc.Props.C01
open Spdc Spdc.Crystals

/-! ## T5 — metadata, windows, identifiers -/

/-- every declared transmission window is an interval inside 100 nm – 20 µm -/
theorem meta_wellformed (c : Crystal) :
    ∃ lo hi : ℝ, (getMeta (α := ℝ) c).range = some (lo, hi) ∧
      (100e-9 : ℝ) ≤ lo ∧ lo < hi ∧ hi ≤ (20e-6 : ℝ) := by
  refine ⟨windowLo c, windowHi c, ?_, ?_⟩
  · cases c <;> rfl
  · cases c <;> norm_num [windowLo, windowHi]

/-- identifiers are unique -/
theorem ids_nodup : ((allMeta (α := ℝ)).map (·.id)).Nodup := by
  decide

/-- printing then parsing gives the same crystal -/
theorem fromString_toString (c : Crystal) : fromString (Crystals.toString c) = some c := by
  cases c <;> decide

/-- only a crystal's own identifier parses to it -/
theorem fromString_only_id (s : String) (c : Crystal) (h : fromString s = some c) :
    s = Crystals.toString c := by
  unfold fromString at h
  split at h <;> first | (injection h with h; subst h; rfl) | (exact absurd h (by simp))

/-- every listed metadata record is found again through its identifier (`test_crystal_ids` for all
crystals) -/
theorem meta_fromString :
    ∀ m ∈ allMeta (α := ℝ), ∃ c, fromString m.id = some c ∧ getMeta c = m := by
  intro m hm
  simp only [allMeta, Crystal.all, List.map_cons, List.map_nil, List.mem_cons, List.not_mem_nil,
    or_false] at hm
  rcases hm with rfl | rfl | rfl | rfl | rfl | rfl | rfl | rfl | rfl | rfl | rfl <;>
    exact ⟨_, by decide, rfl⟩

/-- every crystal's metadata is listed, and its printed form is the listed identifier -/
theorem allMeta_complete (c : Crystal) :
    getMeta (α := ℝ) c ∈ allMeta (α := ℝ) ∧ (getMeta (α := ℝ) c).id = Crystals.toString c := by
  cases c <;> simp [allMeta, Crystal.all, getMeta, Crystals.toString]

/-! ## T6 — temperature laws -/

/-- the temperature flag is set exactly for the crystals with a linear thermo-optic term and for
LiNb_MgO (whose law is inside the Sellmeier equation) -/
theorem tempKnown_iff (c : Crystal) :
    tempKnown c = true ↔ (dn (α := ℝ) c).isSome = true ∨ c = .LiNb_MgO := by
  cases c <;> simp [tempKnown, dn]

/-- crystals declared temperature-independent return identical indices at every temperature -/
theorem temperature_independent (c : Crystal) (h : tempKnown c = false) (lam T T' : ℝ) :
    indices c lam T = indices c lam T' := by
  cases c <;> simp [tempKnown] at h <;> rfl

/-- the others (except LiNb_MgO) change linearly with temperature about 20 °C -/
theorem temperature_linear (c : Crystal) (d : Vec3 ℝ) (h : dn c = some d) (lam T : ℝ) :
    (indices c lam T).x = (indices c lam Tref).x + (T - Tref) * d.x ∧
    (indices c lam T).y = (indices c lam Tref).y + (T - Tref) * d.y ∧
    (indices c lam T).z = (indices c lam Tref).z + (T - Tref) * d.z := by
  cases c <;> simp only [dn, Option.some.injEq, reduceCtorEq] at h <;> subst h <;>
    simp only [indices, dn, nSq, tempOffset, Tref] <;> norm_num

/-- … and coincide with the plain Sellmeier value at the reference temperature -/
theorem temperature_reference (c : Crystal) (d : Vec3 ℝ) (h : dn c = some d) (lam : ℝ) :
    indices c lam Tref =
      ⟨Real.sqrt (nSq c (microns lam) Tref).x, Real.sqrt (nSq c (microns lam) Tref).y,
       Real.sqrt (nSq c (microns lam) Tref).z⟩ := by
  cases c <;> simp only [dn, reduceCtorEq] at h <;>
    simp [indices, dn, tempOffset, Tref, Transc.sqrt] <;> norm_num

/-- LiNb_MgO follows the published law: temperature enters only through
`F = (T_c − 24.5)(T_c + 570.82)` inside the Sellmeier equation … -/
theorem temperature_law_mgo (lam T : ℝ) :
    gayerF T = (T - 273.15 - 24.5) * (T - 273.15 + 570.82) ∧
    indices .LiNb_MgO lam T =
      ⟨Real.sqrt (mgoNoSq (gayerF T) (microns lam)), Real.sqrt (mgoNoSq (gayerF T) (microns lam)),
       Real.sqrt (mgoNeSq (gayerF T) (microns lam))⟩ := by
  refine ⟨?_, rfl⟩
  simp only [gayerF, celsius, lit_two]; ring

/-- … and at the reference temperature 24.5 °C (`F = 0`) it is the reference Sellmeier equation -/
theorem temperature_reference_mgo (l : ℝ) :
    gayerF TrefMgO = 0 ∧
    mgoNoSq 0 l = 5.653 + 0.1185 / (l * l - 0.2091 ^ 2) + 89.61 / (l * l - 10.85 ^ 2) - 1.97e-2 * (l * l) ∧
    mgoNeSq 0 l = 5.756 + 0.0983 / (l * l - 0.2020 ^ 2) + 189.32 / (l * l - 12.52 ^ 2) - 1.32e-2 * (l * l) := by
  refine ⟨?_, ?_, ?_⟩
  · simp only [gayerF, celsius, TrefMgO]; norm_num
  · simp only [mgoNoSq, sellG, sqr]; norm_num
  · simp only [mgoNeSq, sellG, sqr]; norm_num

end Spdc.Props.C01
