import Spdc.Real.Sweep
/-!
# C18 — parameter-sweep setters change exactly the named configuration field

Property theorems only.  `setter` / `sweep` mirror the repaired code (`fix:` commits for D8 and
D11); the `_pinned` theorems are about the flow of the pinned tree and prove that it violated the
statement.
-/
namespace Spdc.Props.C18
open Spdc Spdc.Cfg Spdc.Sweep Spdc.Grid

/-- **T1 (frame rule, all 25 paths).** For every path, base setup and value, the configuration of
the swept setup is the configuration of the base setup with exactly the field named by the path
replaced by `sigfigs` of the requested value in the path's unit (`target`: THz as 10¹² cycles/s
seen as the wavelength, external angle as the Snell-internal angle, poling period as magnitude);
errors and panics of the sub-routines propagate unchanged. -/
theorem setter_frame (ext : Ext ℝ) (p : Path) (s : Setup ℝ) (v : ℝ)
    (hs : WellFormed s) (hv : InRange p v) :
    (setter ext p s v).map asConfig
      = (target ext p s v).map fun x => (asConfig s).setField p (fieldRound p x) := by
  cases p
  case signalPhi =>
    simp [setter, setterG, target, Outcome.map, asConfig, asConfigG, Config.setField, Beam.toCfg,
      Beam.setPhi, Beam.wavelength, normAngle_deg hv.1 hv.2, deg_roundtrip, fieldRound]
  case idlerPhi =>
    simp [setter, setterG, target, Outcome.map, asConfig, asConfigG, Config.setField, Beam.toCfg,
      Beam.setPhi, Beam.wavelength, normAngle_deg hv.1 hv.2, deg_roundtrip, setIdler, fieldRound]
  case signalTheta =>
    simp [setter, setterG, target, Outcome.map, asConfig, asConfigG, Config.setField, Beam.toCfg,
      Beam.setThetaInternal, Beam.wavelength, normAngleSigned_deg hv.1 hv.2, deg_roundtrip,
      setBeamTheta, fieldRound]
  case idlerTheta =>
    simp [setter, setterG, target, Outcome.map, asConfig, asConfigG, Config.setField, Beam.toCfg,
      Beam.setThetaInternal, Beam.wavelength, normAngleSigned_deg hv.1 hv.2, deg_roundtrip,
      setBeamTheta, setIdler, fieldRound]
  case signalThetaExternal =>
    simp only [setter, setterG, target, Beam.setThetaExternal, Cfg.abs_eq, fieldRound]
    cases ext.snell s.signal |v * deg| s.crystal <;>
      simp [Outcome.map, asConfig, asConfigG, Config.setField, Beam.toCfg, Beam.setAngles,
        Beam.wavelength, setBeamTheta, hs.1]
  case idlerThetaExternal =>
    simp only [setter, setterG, target, Beam.setThetaExternal, Cfg.abs_eq, fieldRound]
    cases ext.snell s.idler |v * deg| s.crystal <;>
      simp [Outcome.map, asConfig, asConfigG, Config.setField, Beam.toCfg, Beam.setAngles,
        Beam.wavelength, setBeamTheta, setIdler, hs.2]
  case polingPeriod =>
    simp only [setter, setterG, target, assignPolingPeriod, fieldRound]
    cases computeSign ext s.signal s.pump s.crystal with
    | ok neg =>
      simp only [Outcome.map, asConfig, asConfigG, Config.setField, if_true, withPeriod_toCfg]
      cases s.pp.toCfg <;> rfl
    | err e => simp [Outcome.map]
    | panic e => simp [Outcome.map]
  all_goals
    simp [setter, setterG, target, Outcome.map, asConfig, asConfigG, Config.setField, Crystal.toCfg,
      Beam.toCfg, Beam.setFrequency, Beam.setWavelength, Beam.setWaist, Beam.wavelength, thzToOmega,
      thz_wavelength, wl_roundtrip, deg_roundtrip, micro_roundtrip, nano_roundtrip,
      pmPerVolt_roundtrip, toDeff_roundtrip, kelvin_roundtrip, mw_roundtrip, setIdler, fieldRound]

/-- the frame rule is not vacuous: on a concrete base the rule gives an `ok` configuration -/
example (ext : Ext ℝ) (s : Setup ℝ) (hs : WellFormed s) :
    (setter ext .signalWaist s 42).map asConfig
      = .ok ((asConfig s).setField .signalWaist (sigfigs 42)) :=
  setter_frame ext .signalWaist s 42 hs trivial

/-- the rounding of the named field: `sigfigs`, except that an azimuth rounding up to 360.0000 is
written as 0 (for 0 ≤ sigfigs v < 360 it is `sigfigs v`) -/
theorem fieldRound_eq (p : Path) (x : ℝ) :
    (p ≠ .signalPhi → p ≠ .idlerPhi → fieldRound p x = sigfigs x) ∧
    (0 ≤ sigfigs x → sigfigs x < 360 → fieldRound p x = sigfigs x) ∧
    (sigfigs x = 360 → (p = .signalPhi ∨ p = .idlerPhi) → fieldRound p x = 0) := by
  refine ⟨?_, ?_, ?_⟩
  · intro h1 h2; cases p <;> first | rfl | exact absurd rfl h1 | exact absurd rfl h2
  · intro h0 h1; cases p <;> first | rfl | exact wrap360_of_mem h0 h1
  · rintro h (rfl | rfl) <;> simp [fieldRound, h, wrap360_360]

/-- **D8 (pinned tree).** With `v · 10¹²` stored as rad/s, `signal.frequency_thz = 200` reads back
as a wavelength 2π times too long (9418.26 nm instead of 1498.96 nm): the frame rule's value is
off by the factor 2π. -/
theorem frequency_thz_pinned_wrong (ext : Ext ℝ) (s : Setup ℝ) :
    ∃ s', setterG false true ext .signalFrequency s 200 = .ok s' ∧
      s'.signal.wavelength = 2 * Real.pi * (299792458 / (200 * 10 ^ 12)) ∧
      s'.signal.wavelength ≠ 299792458 / (200 * 10 ^ 12) := by
  refine ⟨_, rfl, ?_, ?_⟩
  · simp only [Beam.wavelength, Beam.setFrequency, thzToOmega, freqToWl_def, twoPiC, twoPi_eq]
    norm_num
    ring
  · simp only [Beam.wavelength, Beam.setFrequency, thzToOmega, freqToWl_def, twoPiC, twoPi_eq]
    have := Real.two_le_pi
    norm_num
    intro h
    nlinarith

/-- **D11 (pinned tree).** On a base setup whose poling is off, the poling-period path was a
no-op: the swept configuration still says "off". -/
theorem poling_period_pinned_noop (ext : Ext ℝ) (s : Setup ℝ) (v : ℝ) (hoff : s.pp = .off)
    (neg : Bool) (hsign : computeSign ext s.signal s.pump s.crystal = .ok neg) :
    (setterG true false ext .polingPeriod s v).map asConfig = .ok (asConfig s) := by
  simp [setterG, assignPolingPeriod, hsign, Outcome.map, hoff, Poling.assignPeriod, asConfig,
    asConfigG]

/-- … and the repaired code switches poling on with the requested magnitude -/
theorem poling_period_fixed (ext : Ext ℝ) (s : Setup ℝ) (v : ℝ) (hoff : s.pp = .off)
    (neg : Bool) (hsign : computeSign ext s.signal s.pump s.crystal = .ok neg) :
    (setter ext .polingPeriod s v).map (fun s' => (asConfig s').poling)
      = .ok (.config (.param (sigfigs |v|)) .off) := by
  simp only [setter, setterG, assignPolingPeriod, hsign, Outcome.map, asConfig, asConfigG, if_true,
    withPeriod_toCfg]
  rw [hoff]; rfl

/-- "the poling period keeps its automatically derived sign": whatever sign the base setup's
poling carried, after the poling-period path the stored sign is the one `compute_sign` derives for
the setup the setter is applied to (which in a two-parameter sweep already has the first
parameter applied), and the stored magnitude is `|v|` µm. -/
theorem poling_sign_derived (ext : Ext ℝ) (s : Setup ℝ) (v : ℝ) (neg : Bool)
    (hsign : computeSign ext s.signal s.pump s.crystal = .ok neg) (hv : v ≠ 0) :
    ∃ s' a, setter ext .polingPeriod s v = .ok s' ∧ s'.pp = .on (|v| * micro) neg a := by
  have hq : 0 < |v| * micro := mul_pos (abs_pos.mpr hv) micro_pos
  have hm : Transc.abs (v * micro) = |v| * micro := by
    rw [abs_eq, abs_mul, abs_of_pos micro_pos]
  have key : ∀ a : Apod ℝ, Poling.new (signMul neg (Transc.abs (v * micro))) a
      = .on (|v| * micro) neg a := by
    intro a
    rw [hm]
    generalize |v| * micro = q at hq
    unfold Poling.new signMul
    rw [lit_zero, lit_one]
    cases neg
    · simp only [Bool.false_eq_true, if_false, mul_one, if_pos hq]
    · have h2 : ¬ (0 < q * -1) := by linarith
      simp only [if_true, if_neg h2]
      congr 1; ring
  refine ⟨{ s with pp := s.pp.withPeriod (signMul neg (Transc.abs (v * micro))) },
    (match s.pp with | .off => .off | .on _ _ a => a), ?_, ?_⟩
  · simp only [setter, setterG, assignPolingPeriod, hsign, Outcome.map, if_true]
  · show s.pp.withPeriod (signMul neg (Transc.abs (v * micro))) = _
    cases s.pp with
    | off => simp only [Poling.withPeriod, key]
    | on p n a => simp only [Poling.withPeriod, key]

/-- **T2.** every one of the 25 names is accepted and names its own path … -/
theorem known_accepted : ∀ p ∈ Path.all, Path.ofString p.name = some p := by decide

/-- … the table is complete … -/
theorem paths_complete : ∀ p : Path, p ∈ Path.all := by intro p; cases p <;> decide

/-- … and any other string is rejected, by `get_setter` and by `SPDCIter::try_new` in either
position. -/
theorem unknown_rejected (str : String) (h : ∀ p : Path, p.name ≠ str) :
    Path.ofString str = none ∧
      (∀ other, tryNew str other = .err "unknown-property") ∧
      (∀ other, (∃ q, Path.ofString other = some q) → tryNew other str = .err "unknown-property") := by
  have h1 : Path.ofString str = none := by
    unfold Path.ofString
    rw [List.find?_eq_none]
    intro p _
    simp [h p]
  refine ⟨h1, ?_, ?_⟩
  · intro other; simp [tryNew, h1]
  · rintro other ⟨q, hq⟩; simp [tryNew, h1, hq]

/-- **T3.** a two-parameter sweep has exactly `nx · ny` elements … -/
theorem sweep_length (ext : Ext ℝ) (p1 p2 : Path) (base : Setup ℝ) (steps : Steps2D ℝ) :
    (sweep ext p1 p2 base steps).length = steps.x.n * steps.y.n := by
  simp [sweep, Steps2D.collect, Steps2D.len]

/-- … and element `k` is the base with the first setter applied to the `k`-th grid value's first
coordinate and then the second setter to its second coordinate, where the grid is row-major with
the first parameter varying fastest (`Steps2D.value k` uses column `k % nx`, row `k / nx`). -/
theorem sweep_order (ext : Ext ℝ) (p1 p2 : Path) (base : Setup ℝ) (steps : Steps2D ℝ) (k : Nat)
    (hk : k < steps.x.n * steps.y.n) :
    (sweep ext p1 p2 base steps)[k]? =
      some ((setter ext p1 base (steps.value k).1).bind fun s1 => setter ext p2 s1 (steps.value k).2) := by
  simp [sweep, Steps2D.collect, Steps2D.len, sweepPoint, hk]

/-- the grid value at flat index `k` is built from column `k % nx` and row `k / nx` -/
theorem sweep_index (steps : Steps2D ℝ) (k : Nat) :
    get2dIndices k steps.x.n = (k % steps.x.n, k / steps.x.n) := rfl

end Spdc.Props.C18
