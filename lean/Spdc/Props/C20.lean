import Spdc.Real.Optimum
import Spdc.Real.ComposeAutoLemmas
import Spdc.Real.ComposeGridLemmas
/-!
# C20 — normalised spectra are relative to the optimised setup; optimising is idempotent

Property theorems only (helper lemmas live in `Spdc/Real/Optimum.lean`).  `Ext` bundles the numeric
routines `try_as_optimum` calls, `SpecExt` the raw spectra and normalisations of the layer below; both
are arbitrary (deterministic) functions here.
-/
namespace Spdc.Props.C20
open Spdc Spdc.Optimum

section idem
variable {α A : Type} [Neg α] [OfScientific α] [LT α] [DecidableLT α]

/-- **T1.** Optimising an optimised setup changes nothing — for *any* scalar type (so also for `Float`)
and any deterministic sub-routines.  On the second pass every sub-routine receives the arguments of
the first pass (`set_angles`, `optimum_poling_period`, `try_new_optimum`, `optimal_waist_position`),
except `optimum_theta`, whose crystal argument now carries the optimum angle instead of the original
one: `hθ` says the routine does not read it (it overwrites `crystal_setup.theta` before every use and
the external angle of a collinear signal is `asin(n·sin 0) = 0` for every crystal angle).
`hcp` (counter-propagation only): the two reset angles 0° and 180° are normalised to values on the
correct sides of 90°. -/
theorem optimum_idem (ext : Ext α A) (s o : Setup α A)
    (h : tryAsOptimum ext s = .ok o)
    (hθ : ∀ θ, ext.optimumTheta { o.cs with theta := θ } o.signal o.pump =
               ext.optimumTheta o.cs o.signal o.pump)
    (hcp : s.cs.counterProp = true →
      (ext.setAngles (ext.deg (0.0 : α)) (ext.deg (0.0 : α))).2.1 < ext.deg (90.0 : α) ∧
      ¬ (ext.setAngles (ext.deg (0.0 : α)) (ext.deg (180.0 : α))).2.1 < ext.deg (90.0 : α)) :
    tryAsOptimum ext o = .ok o := by
  cases hpp : s.pp with
  | off =>
    rw [tryAsOptimum_off ext s hpp] at h
    cases hth : ext.optimumTheta s.cs (resetSignal ext s) s.pump with
    | ok θ =>
      rw [hth] at h; simp only [Outcome.bind] at h
      obtain ⟨i0, hi, ho⟩ := finishOptimum_ok h
      have hsig : o.signal = resetSignal ext s := by rw [ho]
      have hcs : o.cs = { s.cs with theta := θ } := by rw [ho]
      have hpump : o.pump = s.pump := by rw [ho]
      have hopp : o.pp = .off := by rw [ho]
      have hreset := resetSignal_idem ext s o hsig (by rw [hcs]) hcp
      have hθ' : ext.optimumTheta o.cs o.signal o.pump = .ok θ := by
        rw [← hθ s.cs.theta, hsig, hpump]
        have : ({ o.cs with theta := s.cs.theta } : Crystal α) = s.cs := by rw [hcs]
        rw [this]; exact hth
      rw [tryAsOptimum_off ext o hopp, hreset, hθ']
      simp only [Outcome.bind]
      have hcs' : ({ o.cs with theta := θ } : Crystal α) = o.cs := by rw [hcs]
      rw [hcs']
      unfold finishOptimum
      have hi' : ext.optimumIdler o.signal o.pump o.cs .off = .ok i0 := by
        rw [hsig, hpump, hcs]; exact hi
      rw [hi']
      simp only [Outcome.bind, Outcome.ok.injEq]
      rw [ho]
    | err e => rw [hth] at h; simp [Outcome.bind] at h
    | panic e => rw [hth] at h; simp [Outcome.bind] at h
  | on p0 n0 apod =>
    rw [tryAsOptimum_on ext s hpp] at h
    cases hper : ext.optimumPolingPeriod (resetSignal ext s) s.pump s.cs with
    | ok p =>
      rw [hper] at h; simp only [Outcome.bind] at h
      obtain ⟨i0, hi, ho⟩ := finishOptimum_ok h
      have hsig : o.signal = resetSignal ext s := by rw [ho]
      have hcs : o.cs = s.cs := by rw [ho]
      have hpump : o.pump = s.pump := by rw [ho]
      have hopp : o.pp = PP.new p apod := by rw [ho]
      have hreset := resetSignal_idem ext s o hsig (by rw [hcs]) hcp
      obtain ⟨q, n, hnew⟩ := PP.new_apod (α := α) p apod
      rw [tryAsOptimum_on ext o (hopp.trans hnew), hreset, hsig, hpump, hcs, hper]
      simp only [Outcome.bind]
      unfold finishOptimum
      rw [hpump, hi]
      simp only [Outcome.bind, Outcome.ok.injEq]
      rw [ho]
    | err e => rw [hper] at h; simp [Outcome.bind] at h
    | panic e => rw [hper] at h; simp [Outcome.bind] at h

/-- **T1, forward propagation** (the case of the statement): no hypothesis on the angles is needed. -/
theorem optimum_idem_forward (ext : Ext α A) (s o : Setup α A)
    (h : tryAsOptimum ext s = .ok o) (hfw : s.cs.counterProp = false)
    (hθ : ∀ θ, ext.optimumTheta { o.cs with theta := θ } o.signal o.pump =
               ext.optimumTheta o.cs o.signal o.pump) :
    tryAsOptimum ext o = .ok o :=
  optimum_idem ext s o h hθ (fun hc => by rw [hfw] at hc; exact absurd hc (by decide))

end idem

/-! ## composed model

`optimum_idem` above is about `tryAsOptimum ext` for an arbitrary bundle `ext`, with the hypothesis
`hθ` that `optimum_theta` does not read the crystal angle it is handed.  `Compose.asOptimum`
(`Spdc/Model/ComposeAuto.lean`) is `try_as_optimum` on primitive setups with every routine computed
by the composed model (Nelder–Mead over the composed `|Δk_z|`, optimum idler, optimal waist
positions); for it `hθ` is a theorem: the cost closure overwrites the crystal angle before every use
and the external angle of the collinear reset signal is `asin(n · sin 0) = 0` whatever the angle. -/

/-- composed model, T1 with concrete routines and `hθ` discharged (forward propagation): optimising
an optimised primitive setup changes nothing.  No hypothesis besides `counter_propagation = false`. -/
theorem compose_optimum_idem (S o : Compose.Setup ℝ) (h : Compose.asOptimum S = .ok o)
    (hfw : S.counterProp = false) : Compose.asOptimum o = .ok o :=
  Compose.asOptimum_idem S o h hfw

/-- composed model: the discharged hypothesis itself — for a collinear signal the composed
`optimum_theta` does not depend on the crystal angle stored in the setup -/
theorem compose_optimum_theta_ignores_angle (S : Compose.Setup ℝ) (θ : ℝ) (s p : Beam.Beam ℝ)
    (hs : s.theta = 0) :
    Compose.optimumThetaB { S with cTheta := θ } s p = Compose.optimumThetaB S s p :=
  Compose.optimumThetaB_collinear (T := { S with cTheta := θ }) (U := S) ⟨rfl, rfl, rfl, rfl, rfl, rfl⟩ s p hs

section real
variable {A I : Type}

/-- **T1 (support).** The repair of `try_as_optimum` (the optimum idler is computed with the *new* poling
instead of the one passed in) cannot change any result when `sin θ_signal = 0`: the internal angle of
the optimum idler is `asin(n_s·sin θ_s / √…)·sign`, which does not see the poling at all then.  In ℝ this
covers the backward signal (θ = π) too; in `f64`, `sin π ≠ 0`, which is why the pinned code was not
idempotent for counter-propagation (measured by the correspondence, op `idler_opt`). -/
theorem idler_indep_of_poling (ix : IdlerExt ℝ) (signal pump : Beam ℝ) (cs : Crystal ℝ)
    (pp pp' : PP ℝ A) (h : Real.sin signal.theta = 0) :
    idlerOptimum ix signal pump cs pp = idlerOptimum ix signal pump cs pp' := by
  unfold idlerOptimum idlerTheta
  simp only [Transc.sin, h, mul_zero, zero_div]

/-- **T2 (definitions).** Every normalised accessor is the raw accessor divided by the reference taken at
the centre of the *optimised clone* `o` (not of the setup itself), the spectrum keeps the setup it was
given, and the idler variants are the same statements about the swapped setup. -/
theorem normalized_def (ext : Ext ℝ A) (sx : SpecExt ℝ A I) (s o : Setup ℝ A) (integ : I)
    (hopt : tryAsOptimum ext s = .ok o) :
    ∃ js, JointSpectrum.new ext sx s integ = .ok js ∧ js.spdc = s ∧
      js.jsaCenter = refAmplitude sx o integ ∧ js.jsiSinglesCenter = refSingles sx o integ ∧
      ∀ ws wi,
        (js.jsaNormalized sx ws wi).toC = (js.jsa sx ws wi).toC / ((refAmplitude sx o integ : ℝ) : ℂ) ∧
        js.jsiNormalized sx ws wi = js.jsi sx ws wi / (refAmplitude sx o integ) ^ 2 ∧
        js.jsiSinglesNormalized sx ws wi = js.jsiSingles sx ws wi / refSingles sx o integ := by
  refine ⟨⟨s, integ, refAmplitude sx o integ, refSingles sx o integ⟩, ?_, rfl, rfl, rfl, ?_⟩
  · unfold JointSpectrum.new; rw [hopt]
  · intro ws wi
    refine ⟨?_, ?_, rfl⟩
    · simp [JointSpectrum.jsaNormalized]
    · simp [JointSpectrum.jsiNormalized, pow_two]

/-- **T2 (reference = raw value at the optimum's centre).** For an optimised setup `o`
(`try_as_optimum o = o`) with non-negative coincidence normalisation at its centre, the references are
the unnormalised values of `o`'s own spectrum at `o`'s central frequencies: `|jsa|`, `jsi = ref²`,
`jsi_singles`. -/
theorem reference_is_value_at_centre (ext : Ext ℝ A) (sx : SpecExt ℝ A I) (o : Setup ℝ A) (integ : I)
    (hfix : tryAsOptimum ext o = .ok o)
    (hn : 0 ≤ sx.jsiNorm o.signal.freq o.idler.freq o) :
    ∃ jo, JointSpectrum.new ext sx o integ = .ok jo ∧
      refAmplitude sx o integ = ‖(jo.jsa sx o.signal.freq o.idler.freq).toC‖ ∧
      (refAmplitude sx o integ) ^ 2 = jo.jsi sx o.signal.freq o.idler.freq ∧
      refSingles sx o integ = jo.jsiSingles sx o.signal.freq o.idler.freq := by
  refine ⟨⟨o, integ, refAmplitude sx o integ, refSingles sx o integ⟩, ?_, ?_, ?_, ?_⟩
  · unfold JointSpectrum.new; rw [hfix]
  · exact refAmplitude_eq_norm_jsa sx o integ hn
  · exact refAmplitude_sq_eq_jsi sx o integ hn
  · exact refSingles_eq_jsiSingles sx o integ

/-- **T2 (intensity = |amplitude|²).** Everywhere, provided the coincidence normalisation is
non-negative at that pair (it is a product of squares and positive constants; a negative value would
make the code's `sqrt` NaN). -/
theorem jsi_normalized_eq_normSq (sx : SpecExt ℝ A I) (js : JointSpectrum ℝ A I) (ws wi : ℝ)
    (hn : 0 ≤ sx.jsiNorm ws wi js.spdc) :
    js.jsiNormalized sx ws wi = Complex.normSq (js.jsaNormalized sx ws wi).toC :=
  jsiNormalized_eq_normSq sx js ws wi hn

/-- **T3.** An optimised setup is its own reference: at its centre the normalised coincidence intensity
is 1 and the normalised amplitude has modulus 1 (needs a non-zero raw amplitude and a positive
normalisation there, otherwise the code divides 0 by 0). -/
theorem centre_is_one (ext : Ext ℝ A) (sx : SpecExt ℝ A I) (o : Setup ℝ A) (integ : I)
    (hfix : tryAsOptimum ext o = .ok o)
    (ha : (sx.jsaRaw o.signal.freq o.idler.freq o integ).toC ≠ 0)
    (hn : 0 < sx.jsiNorm o.signal.freq o.idler.freq o) :
    ∃ jo, JointSpectrum.new ext sx o integ = .ok jo ∧
      jo.jsiNormalized sx o.signal.freq o.idler.freq = 1 ∧
      ‖(jo.jsaNormalized sx o.signal.freq o.idler.freq).toC‖ = 1 := by
  obtain ⟨jo, hnew, -, hsq, -⟩ := reference_is_value_at_centre ext sx o integ hfix hn.le
  have hc : jo.jsaCenter = refAmplitude sx o integ := by
    unfold JointSpectrum.new at hnew; rw [hfix] at hnew
    simp only [Outcome.ok.injEq] at hnew; rw [← hnew]
  have hspdc : jo.spdc = o := by
    unfold JointSpectrum.new at hnew; rw [hfix] at hnew
    simp only [Outcome.ok.injEq] at hnew; rw [← hnew]
  have hpos : 0 < refAmplitude sx o integ := refAmplitude_pos sx o integ ha hn
  have h1 : jo.jsiNormalized sx o.signal.freq o.idler.freq = 1 := by
    unfold JointSpectrum.jsiNormalized
    rw [hc, ← hsq, pow_two]
    exact div_self (mul_pos hpos hpos).ne'
  refine ⟨jo, hnew, h1, ?_⟩
  have hq := jsiNormalized_eq_normSq sx jo o.signal.freq o.idler.freq (by rw [hspdc]; exact hn.le)
  rw [h1, Complex.normSq_eq_norm_sq] at hq
  have hnn : 0 ≤ ‖(jo.jsaNormalized sx o.signal.freq o.idler.freq).toC‖ := norm_nonneg _
  nlinarith [hq, hnn]

/-- **T1 + T3.** What `try_as_optimum` returns is such a fixed point, hence has centre value 1. -/
theorem optimised_centre_is_one (ext : Ext ℝ A) (sx : SpecExt ℝ A I) (s o : Setup ℝ A) (integ : I)
    (h : tryAsOptimum ext s = .ok o) (hfw : s.cs.counterProp = false)
    (hθ : ∀ θ, ext.optimumTheta { o.cs with theta := θ } o.signal o.pump =
               ext.optimumTheta o.cs o.signal o.pump)
    (ha : (sx.jsaRaw o.signal.freq o.idler.freq o integ).toC ≠ 0)
    (hn : 0 < sx.jsiNorm o.signal.freq o.idler.freq o) :
    ∃ jo, JointSpectrum.new ext sx o integ = .ok jo ∧
      jo.jsiNormalized sx o.signal.freq o.idler.freq = 1 ∧
      ‖(jo.jsaNormalized sx o.signal.freq o.idler.freq).toC‖ = 1 :=
  centre_is_one ext sx o integ (optimum_idem_forward ext s o h hfw hθ) ha hn

/-- **T4.** The normalised sweep is the raw sweep divided, element by element, by one reference taken at
the centre of the *base* setup's optimum; that reference is the square of the spectrum reference. -/
theorem sweep_normalized (ext : Ext ℝ A) (sx : SpecExt ℝ A I) (integ : I) (base o : Setup ℝ A)
    (l : List (Setup ℝ A)) (hopt : tryAsOptimum ext base = .ok o) :
    jsiValuesNormalized sx ext integ base l =
      .ok ((jsiValues sx integ l).map (· / sweepRef sx integ o)) ∧
    (0 ≤ sx.jsiNorm o.signal.freq o.idler.freq o → sweepRef sx integ o = (refAmplitude sx o integ) ^ 2) := by
  constructor
  · unfold jsiValuesNormalized jsiValues
    rw [hopt, List.map_map]
    simp only
    congr 1
    apply List.map_congr_left
    intro st _
    exact jsiValueNormalized_eq sx integ (sweepRef sx integ o) st
  · exact sweepRef_eq_sq sx integ o

end real

/-! ## the pinned tree was not idempotent; non-vacuity of the hypotheses -/
section witness

/-- a beam with a given centre frequency -/
def beam0 (f : ℝ) : Beam ℝ := ⟨1, 1, f, .o, 0, 0, ⟨0, 0, 1⟩⟩

/-- sub-routines of a toy world: the optimum idler always has frequency 2, and the optimal waist
position of a beam is (say) its frequency -/
def ext0 : Ext ℝ Unit where
  deg := fun x => x
  setAngles := fun _ _ => (0, 0, ⟨0, 0, 1⟩)
  optimumTheta := fun _ _ _ => .ok 0
  optimumPolingPeriod := fun _ _ _ => .ok 1
  optimumIdler := fun _ _ _ _ => .ok (beam0 2)
  optimalWaistPosition := fun _ f _ => f

/-- a setup whose idler (frequency 1) is not the optimum idler (frequency 2) -/
def s0 : Setup ℝ Unit :=
  ⟨beam0 3, beam0 1, beam0 5, ⟨0, 0, 0, 0, 1, 0, false⟩, .off, 1, 1, 1, 0, 0, 1⟩

/-- **The defect repaired by `fix: try_as_optimum is idempotent`.**  The pinned tree computed the idler
waist position from the idler that was passed in: on this input the first optimisation stores
`zi = 1` (old idler), the second `zi = 2` (new idler), so optimising twice ≠ optimising once. -/
theorem pinned_not_idempotent :
    ∃ o, tryAsOptimumPinned ext0 s0 = .ok o ∧ tryAsOptimumPinned ext0 o ≠ .ok o := by
  refine ⟨_, rfl, ?_⟩
  intro h
  have hz := congrArg (fun r => match r with | Outcome.ok t => t.zi | _ => 0) h
  simp [tryAsOptimumPinned, finishOptimumPinned, resetSignal, Optimum.Beam.setAngles, ext0, s0, beam0,
    Outcome.bind] at hz

/-- non-vacuity of T1: the repaired wiring is idempotent on the same input, through the theorem -/
example : ∃ o, tryAsOptimum ext0 s0 = .ok o ∧ tryAsOptimum ext0 o = .ok o :=
  ⟨_, rfl, optimum_idem_forward ext0 s0 _ rfl rfl (fun _ => rfl)⟩

/-- a toy layer below: unit amplitude and singles, coincidence normalisation 4, singles normalisation 3 -/
def sx0 : SpecExt ℝ Unit Unit where
  jsaRaw := fun _ _ _ _ => ⟨0, 1⟩
  jsiSinglesRaw := fun _ _ _ _ => 1
  jsiNorm := fun _ _ _ => 4
  jsiSinglesNorm := fun _ _ _ => 3
  swap := fun s => s

/-- non-vacuity of T3 / T1+T3 (hypotheses: fixed point, non-zero amplitude, positive normalisation) -/
example : ∃ jo, JointSpectrum.new ext0 sx0 (s0 : Setup ℝ Unit) () = .ok jo := by
  obtain ⟨o, h1, -⟩ : ∃ o, tryAsOptimum ext0 s0 = .ok o ∧ True := ⟨_, rfl, trivial⟩
  exact ⟨_, (normalized_def ext0 sx0 s0 o () h1).choose_spec.1⟩

example (o : Setup ℝ Unit) (h : tryAsOptimum ext0 s0 = .ok o) :
    ∃ jo, JointSpectrum.new ext0 sx0 o () = .ok jo ∧
      jo.jsiNormalized sx0 o.signal.freq o.idler.freq = 1 ∧
      ‖(jo.jsaNormalized sx0 o.signal.freq o.idler.freq).toC‖ = 1 :=
  optimised_centre_is_one ext0 sx0 s0 o () h rfl (fun _ => rfl)
    (by simp [sx0, Cx.toC, Complex.ext_iff]) (by simp [sx0])

end witness

/-! ## composed model (grid level)

The theorems of T2–T4 above are about an abstract layer below (`SpecExt`).  Below the clause "the
normalised spectrum of an optimum setup at its own centre equals 1" is proved for the COMPOSED model
(`Spdc/Model/ComposeGrid.lean`): `jointSpectrum` is `JointSpectrum::new` on a primitive setup, its centre
value is `√norm · |jsa_raw|` of the composed `try_as_optimum` at the optimum's own centre frequencies
(computed through every layer, Simpson quadrature), and `jsiNormalized` divides the composed `jsi` by
its square. -/

/-- composed model, T3 lifted: if `o` is an optimum primitive setup (a fixed point of the composed
`try_as_optimum`, e.g. any result of it under forward propagation — `compose_optimum_idem`) whose
centre value is non-zero, then the composed `jsi_normalized` of `o` at its own centre frequencies is
exactly `1`. -/
theorem compose_centre_is_one (o : Compose.Setup ℝ) (divs : Nat) (js : Compose.JS ℝ)
    (hjs : Compose.jointSpectrum o divs = .ok js) (hfix : Compose.asOptimum o = .ok o)
    (hc : js.jsaCenter ≠ 0) :
    ∃ i, Compose.idlerBeam o = .ok i ∧
      js.jsiNormalized (Compose.signalBeam o).frequency i.frequency = .ok 1 := by
  obtain ⟨hS, hd, o', ho', hcv⟩ := Compose.jointSpectrum_ok hjs
  rw [hfix] at ho'
  injection ho' with ho'
  subst ho'
  obtain ⟨i, n, r, hi, hn, hr, hcen⟩ := Compose.centreValues_ok hcv
  simp only at hcen
  refine ⟨i, hi, ?_⟩
  have hr0 : r ≠ Cx.zero := by
    intro h0
    apply hc
    rw [hcen, h0]
    simp [Cx.abs, Cx.zero, Cx.normSq, Transc.sqrt, lit_zero]
  obtain ⟨J, q, hJ, hq, hrJ⟩ := Compose.jsaRaw_ne_zero hr hr0
  rw [Compose.jsiNormalizationC_eq hJ] at hn
  injection hn with hn
  have hnz : Real.sqrt n ≠ 0 := fun h0 => hc (by rw [hcen, h0, zero_mul])
  have hnpos : 0 < n := Real.sqrt_pos.mp (lt_of_le_of_ne (Real.sqrt_nonneg n) (Ne.symm hnz))
  have hjsi : js.jsi (Compose.signalBeam o).frequency i.frequency = .ok (n * r.normSq) := by
    unfold Compose.JS.jsi
    rw [hS, hd, Compose.jsi_eq_of_ok hJ hq]
    congr 1
    unfold PM.jsi PM.jsiOfRaw
    rw [← hrJ, hn]
    have hz : PM.Cx.isZero r = false := by
      rw [← Bool.not_eq_true]
      intro hz
      apply hr0
      simp only [PM.Cx.isZero, Bool.and_eq_true, PM.isZero_iff] at hz
      cases r
      simp only [Cx.zero, lit_zero] at hz ⊢
      rw [hz.1, hz.2]
    simp [hz]
  unfold Compose.JS.jsiNormalized
  rw [hjsi]
  simp only [Outcome.map]
  congr 1
  rw [hcen]
  have hns : 0 ≤ r.normSq := by unfold Cx.normSq; nlinarith [mul_self_nonneg r.re, mul_self_nonneg r.im]
  have habs : r.abs * r.abs = r.normSq := by
    unfold Cx.abs
    exact Real.mul_self_sqrt hns
  have hden : Real.sqrt n * r.abs * (Real.sqrt n * r.abs) = n * r.normSq := by
    rw [show Real.sqrt n * r.abs * (Real.sqrt n * r.abs)
      = (Real.sqrt n * Real.sqrt n) * (r.abs * r.abs) by ring, Real.mul_self_sqrt hnpos.le, habs]
  rw [hden]
  have hne : n * r.normSq ≠ 0 := by
    intro h0
    apply hc
    rw [hcen]
    have : Real.sqrt n * r.abs * (Real.sqrt n * r.abs) = 0 := by rw [hden, h0]
    exact mul_self_eq_zero.mp this
  exact div_self hne

/-- non-vacuity of the fixed-point hypothesis at the level it can be shown symbolically: every
result of the composed `try_as_optimum` under forward propagation IS a fixed point -/
example (S o : Compose.Setup ℝ) (h : Compose.asOptimum S = .ok o) (hfw : S.counterProp = false) :
    Compose.asOptimum o = .ok o := compose_optimum_idem S o h hfw

/-- non-vacuity of `hjs` and `hfix` together: an optimum primitive setup (fixed point of the composed
`try_as_optimum`, obtained from the concrete unpoled KTP setup `Compose.exGrid`) with a spectrum object
exists over ℝ; only `jsaCenter ≠ 0` (a numerical fact about Sellmeier values) is left as a hypothesis -/
example : ∃ (o : Compose.Setup ℝ) (js : Compose.JS ℝ),
    Compose.asOptimum o = .ok o ∧ Compose.jointSpectrum o 50 = .ok js := Compose.exGrid_optimum_available

end Spdc.Props.C20
