import Spdc.Real.Jsa
import Spdc.Real.ComposeLemmas
/-!
# C07 — spectrum scales with power and deff², follows the Gaussian pump, is zero off-support

Property theorems only (helper lemmas: `Spdc/Real/Jsa.lean`).  Statements are about the executable
model of `common_norm`, `jsi_normalization`, `jsi_singles_normalization`, `pump_spectral_amplitude`,
`fwhm_to_spectral_width`, `invalid_frequencies`, `jsa_raw`, `jsi_singles_raw`,
`JointSpectrum::{jsa,jsi,jsi_singles,*_normalized}`, `efficiencies_from_counts`
(`Spdc/Model/{Norm,Jsa}.lean`) at `α := ℝ`; the z-quadrature is any fixed-weight rule, the singles
phase-matching function `sr` is arbitrary.
-/
namespace Spdc.Props.C07
open Spdc Spdc.PM

/-- T1. `common_norm`, hence `jsi_normalization` and `jsi_singles_normalization`, are linear in the
pump power and quadratic in `deff`; `jsa_raw` and `jsi_singles_raw` read neither; hence `jsi`,
`jsi_singles` and every count rate (a sum over a grid times the correction factor) scale by
`a·b²`. -/
theorem norm_linear (J : JSetup ℝ) (sr : Setup ℝ → ℝ → ℝ → ℝ) (a b : ℝ)
    (nodes : List (ℝ × ℝ)) (scale ωs ωi ns ni corr dw2 : ℝ) (grid : List (ℝ × ℝ)) :
    commonNorm (J.scaled a b).normIn ωs ωi ns ni = a * b ^ 2 * commonNorm J.normIn ωs ωi ns ni
    ∧ jsiNormalization (J.scaled a b).normIn (J.scaled a b).sig (J.scaled a b).idl ωs ωi
        = a * b ^ 2 * jsiNormalization J.normIn J.sig J.idl ωs ωi
    ∧ jsiSinglesNormalization (J.scaled a b).normIn (J.scaled a b).sig (J.scaled a b).idl ωs ωi
        = a * b ^ 2 * jsiSinglesNormalization J.normIn J.sig J.idl ωs ωi
    ∧ jsaRaw (J.scaled a b) nodes scale ωs ωi = jsaRaw J nodes scale ωs ωi
    ∧ jsiSinglesRaw sr (J.scaled a b) ωs ωi = jsiSinglesRaw sr J ωs ωi
    ∧ jsi (J.scaled a b) nodes scale ωs ωi = a * b ^ 2 * jsi J nodes scale ωs ωi
    ∧ jsiSingles sr (J.scaled a b) ωs ωi = a * b ^ 2 * jsiSingles sr J ωs ωi
    ∧ countsSum corr dw2 grid (jsi (J.scaled a b) nodes scale)
        = a * b ^ 2 * countsSum corr dw2 grid (jsi J nodes scale)
    ∧ countsSum corr dw2 grid (jsiSingles sr (J.scaled a b))
        = a * b ^ 2 * countsSum corr dw2 grid (jsiSingles sr J) := by
  refine ⟨commonNorm_scaled J.normIn a b ωs ωi ns ni, jsiNormalization_scaled J a b ωs ωi,
    jsiSinglesNormalization_scaled J a b ωs ωi, rfl, rfl, ?_, jsiSingles_scaled sr J a b ωs ωi, ?_, ?_⟩
  · exact jsiOfRaw_scaled J a b ωs ωi _
  · rw [← countsSum_smul]
    congr 1
    funext x y
    exact jsiOfRaw_scaled J a b x y _
  · rw [← countsSum_smul]
    congr 1
    funext x y
    exact jsiSingles_scaled sr J a b x y

/-- the amplitude scales by `√a·|b|` (magnitude only: the phase is untouched) -/
theorem jsa_scaling (J : JSetup ℝ) (a b : ℝ) (ha : 0 ≤ a) (nodes : List (ℝ × ℝ)) (scale ωs ωi : ℝ) :
    jsa (J.scaled a b) nodes scale ωs ωi = Cx.smul (Real.sqrt a * |b|) (jsa J nodes scale ωs ωi) :=
  jsaOfRaw_scaled J a b ωs ωi _ ha

/-- T2a. Efficiencies (`efficiencies_from_counts`) do not change when the three rates are scaled
by a common positive factor (`s = a·b²`). -/
theorem ratios_invariant_efficiencies (s cc ss si : ℝ) (hs : 0 < s) :
    efficienciesFromCounts (s * cc) (s * ss) (s * si) = efficienciesFromCounts cc ss si :=
  efficiencies_scaled s cc ss si hs

/-- T2b. Normalised spectra (`jsi_normalized`, `jsi_singles_normalized`, `jsa_normalized`; the
reference is computed from the optimum clone `Jo`, which carries the same power and deff) do not
depend on power and deff. -/
theorem ratios_invariant_normalized (J Jo : JSetup ℝ) (sr : Setup ℝ → ℝ → ℝ → ℝ) (a b : ℝ)
    (ha : 0 < a) (hb : b ≠ 0) (nodes : List (ℝ × ℝ)) (scale ωs ωi : ℝ)
    (hn : 0 ≤ jsiNormalization Jo.normIn Jo.sig Jo.idl Jo.sig.freq Jo.idl.freq) :
    jsiNormalized (J.scaled a b) (Jo.scaled a b) nodes scale ωs ωi = jsiNormalized J Jo nodes scale ωs ωi
    ∧ jsiSinglesNormalized sr (J.scaled a b) (Jo.scaled a b) ωs ωi = jsiSinglesNormalized sr J Jo ωs ωi
    ∧ jsaNormalized (J.scaled a b) (Jo.scaled a b) nodes scale ωs ωi = jsaNormalized J Jo nodes scale ωs ωi := by
  have hs : a * b ^ 2 ≠ 0 := mul_ne_zero (ne_of_gt ha) (pow_ne_zero 2 hb)
  have hk : 0 < Real.sqrt a * |b| := mul_pos (Real.sqrt_pos.mpr ha) (abs_pos.mpr hb)
  have hc : jsaCenter (Jo.scaled a b) nodes scale = (Real.sqrt a * |b|) * jsaCenter Jo nodes scale := by
    unfold jsaCenter
    have e1 : (Jo.scaled a b).sig = Jo.sig := rfl
    have e2 : (Jo.scaled a b).idl = Jo.idl := rfl
    rw [jsaRaw_scaled, e1, e2]
    have := jsiNormalization_scaled Jo a b Jo.sig.freq Jo.idl.freq
    rw [e1, e2] at this
    rw [this]
    show Real.sqrt _ * _ = _
    rw [sqrt_scaled a b _ (le_of_lt ha)]
    show _ = Real.sqrt a * |b| * (Real.sqrt _ * _)
    ring
  refine ⟨?_, ?_, ?_⟩
  · unfold jsiNormalized
    simp only []
    rw [hc, (norm_linear J sr a b nodes scale ωs ωi 0 0 0 0 []).2.2.2.2.2.1]
    have hk2 : (Real.sqrt a * |b|) * (Real.sqrt a * |b|) = a * b ^ 2 := by
      rw [mul_mul_mul_comm, Real.mul_self_sqrt (le_of_lt ha), abs_mul_abs_self]; ring
    rw [show Real.sqrt a * |b| * jsaCenter Jo nodes scale * (Real.sqrt a * |b| * jsaCenter Jo nodes scale)
        = (Real.sqrt a * |b| * (Real.sqrt a * |b|)) * (jsaCenter Jo nodes scale * jsaCenter Jo nodes scale) by ring,
      hk2, mul_div_mul_left _ _ hs]
  · unfold jsiSinglesNormalized jsiSinglesCenter
    have e1 : (Jo.scaled a b).sig = Jo.sig := rfl
    have e2 : (Jo.scaled a b).idl = Jo.idl := rfl
    have := jsiSinglesNormalization_scaled Jo a b Jo.sig.freq Jo.idl.freq
    rw [e1, e2] at this
    rw [jsiSingles_scaled, jsiSinglesRaw_scaled, e1, e2, this, mul_assoc (a * b ^ 2),
      mul_div_mul_left _ _ hs]
  · unfold jsaNormalized
    rw [hc, jsa_scaling J a b (le_of_lt ha)]
    apply Cx.toC_injective
    simp only [Cx.toC_divs, Cx.toC_smul]
    push_cast
    have : ((Real.sqrt a : ℂ) * ((|b| : ℝ) : ℂ)) ≠ 0 := by
      exact_mod_cast ne_of_gt hk
    rw [mul_div_mul_left _ _ this]

/-- T2c. Every functional of the joint amplitudes that is homogeneous of degree 0 (Schmidt number:
C11; HOM rate and visibilities: C09, C10) takes the same value on the spectra of the scaled setup. -/
theorem ratios_invariant_homogeneous (J : JSetup ℝ) (a b : ℝ) (ha : 0 < a) (hb : b ≠ 0)
    (nodes : List (ℝ × ℝ)) (scale : ℝ) (grid : List (ℝ × ℝ)) {β : Type} (F : List ℂ → β)
    (hF : ∀ c : ℝ, c ≠ 0 → ∀ v : List ℂ, F (v.map fun z => (c : ℂ) * z) = F v) :
    F (grid.map fun p => (jsa (J.scaled a b) nodes scale p.1 p.2).toC)
      = F (grid.map fun p => (jsa J nodes scale p.1 p.2).toC) := by
  have hk : Real.sqrt a * |b| ≠ 0 := ne_of_gt (mul_pos (Real.sqrt_pos.mpr ha) (abs_pos.mpr hb))
  rw [← hF _ hk (grid.map fun p => (jsa J nodes scale p.1 p.2).toC), List.map_map]
  congr 1
  apply List.map_congr_left
  intro p _
  simp only [Function.comp, jsa_scaling J a b (le_of_lt ha), Cx.toC_smul]

/-- T2d. Two-source functionals (two-source HOM rate and visibilities, C10) that are homogeneous of
degree 0 in EACH list of amplitudes take the same value whatever the power and deff of either
source. -/
theorem ratios_invariant_two_source (J1 J2 : JSetup ℝ) (a1 b1 a2 b2 : ℝ) (ha1 : 0 < a1) (hb1 : b1 ≠ 0)
    (ha2 : 0 < a2) (hb2 : b2 ≠ 0) (nodes : List (ℝ × ℝ)) (scale : ℝ) (grid1 grid2 : List (ℝ × ℝ))
    {β : Type} (F : List ℂ → List ℂ → β)
    (hF : ∀ c1 c2 : ℝ, c1 ≠ 0 → c2 ≠ 0 → ∀ v1 v2 : List ℂ,
      F (v1.map fun z => (c1 : ℂ) * z) (v2.map fun z => (c2 : ℂ) * z) = F v1 v2) :
    F (grid1.map fun p => (jsa (J1.scaled a1 b1) nodes scale p.1 p.2).toC)
        (grid2.map fun p => (jsa (J2.scaled a2 b2) nodes scale p.1 p.2).toC)
      = F (grid1.map fun p => (jsa J1 nodes scale p.1 p.2).toC)
          (grid2.map fun p => (jsa J2 nodes scale p.1 p.2).toC) := by
  have hk1 : Real.sqrt a1 * |b1| ≠ 0 := ne_of_gt (mul_pos (Real.sqrt_pos.mpr ha1) (abs_pos.mpr hb1))
  have hk2 : Real.sqrt a2 * |b2| ≠ 0 := ne_of_gt (mul_pos (Real.sqrt_pos.mpr ha2) (abs_pos.mpr hb2))
  rw [← hF _ _ hk1 hk2 (grid1.map fun p => (jsa J1 nodes scale p.1 p.2).toC)
    (grid2.map fun p => (jsa J2 nodes scale p.1 p.2).toC), List.map_map, List.map_map]
  congr 1
  · apply List.map_congr_left
    intro p _
    simp only [Function.comp, jsa_scaling J1 a1 b1 (le_of_lt ha1), Cx.toC_smul]
  · apply List.map_congr_left
    intro p _
    simp only [Function.comp, jsa_scaling J2 a2 b2 (le_of_lt ha2), Cx.toC_smul]

/-- T3a. The pump envelope has amplitude 1 at the pump centre frequency. -/
theorem envelope_centre (ω0 fwhm : ℝ) : pumpSpectralAmplitude ω0 ω0 fwhm = 1 :=
  envelope_centre' ω0 fwhm

/-- T3b. With `Δ = ω(λ_p − ½fwhm) − ω(λ_p + ½fwhm)` the frequency span of the wavelength FWHM, the
intensity (amplitude squared) is one half at `ω_p ± Δ/2` (`0 < fwhm < 2λ_p` makes `Δ > 0`). -/
theorem envelope_half (ω0 fwhm : ℝ) (hf : 0 < fwhm) (hl : fwhm < 2 * freqToWavelength ω0) :
    let Δ := fwhmFreqSpan (freqToWavelength ω0) fwhm
    0 < Δ ∧ (pumpSpectralAmplitude (ω0 + Δ / 2) ω0 fwhm) ^ 2 = 1 / 2
      ∧ (pumpSpectralAmplitude (ω0 - Δ / 2) ω0 fwhm) ^ 2 = 1 / 2 := by
  intro Δ
  have hpos := fwhmFreqSpan_pos (freqToWavelength ω0) fwhm hf hl
  refine ⟨hpos, ?_, ?_⟩
  · have := envelope_half' ω0 fwhm 1 (Or.inl rfl) (ne_of_gt hpos)
    simpa using this
  · have := envelope_half' ω0 fwhm (-1) (Or.inr rfl) (ne_of_gt hpos)
    simpa [sub_eq_add_neg] using this

/-- T4. Inside the support and above the threshold the raw joint amplitude is the envelope at
`ω_s + ω_i` times the phase-matching amplitude. -/
theorem jsaRaw_factor (J : JSetup ℝ) (nodes : List (ℝ × ℝ)) (scale ωs ωi : ℝ)
    (hv : invalidFrequencies ωs ωi J.omegaP = false)
    (ht : J.threshold ≤ pumpSpectralAmplitude (ωs + ωi) J.omegaP J.bandwidth) :
    jsaRaw J nodes scale ωs ωi
      = Cx.smul (pumpSpectralAmplitude (ωs + ωi) J.omegaP J.bandwidth)
          (pmCoincQ J.toSetup nodes scale ωs ωi) := by
  unfold jsaRaw
  simp [hv, not_lt.mpr ht]

/-- T4b. The singles raw intensity has the SAME support logic as the coincidence amplitude (the
envelope AMPLITUDE is compared with the threshold) and is the squared envelope times the singles
phase-matching function inside it. -/
theorem jsiSinglesRaw_factor (J : JSetup ℝ) (sr : Setup ℝ → ℝ → ℝ → ℝ) (ωs ωi : ℝ)
    (hv : invalidFrequencies ωs ωi J.omegaP = false)
    (ht : J.threshold ≤ pumpSpectralAmplitude (ωs + ωi) J.omegaP J.bandwidth) :
    jsiSinglesRaw sr J ωs ωi
      = pumpSpectralAmplitude (ωs + ωi) J.omegaP J.bandwidth
          * pumpSpectralAmplitude (ωs + ωi) J.omegaP J.bandwidth * sr J.toSetup ωs ωi := by
  unfold jsiSinglesRaw
  simp [hv, not_lt.mpr ht]

/-- T5. Exact zeros off-support: below the threshold, for a non-positive frequency, above the pump
frequency, or for `|ω_s − ω_i| > ¾ω_p`, every spectrum is the literal zero. -/
theorem zero_off_support (J : JSetup ℝ) (sr : Setup ℝ → ℝ → ℝ → ℝ) (nodes : List (ℝ × ℝ))
    (scale ωs ωi : ℝ)
    (h : pumpSpectralAmplitude (ωs + ωi) J.omegaP J.bandwidth < J.threshold ∨ ωs ≤ 0 ∨ ωi ≤ 0
      ∨ J.omegaP < ωs ∨ J.omegaP < ωi ∨ 3 / 4 * J.omegaP < |ωs - ωi|) :
    jsaRaw J nodes scale ωs ωi = Cx.zero ∧ jsiSinglesRaw sr J ωs ωi = 0
      ∧ jsa J nodes scale ωs ωi = Cx.zero ∧ jsi J nodes scale ωs ωi = 0
      ∧ jsiSingles sr J ωs ωi = 0 := by
  have hraw : jsaRaw J nodes scale ωs ωi = Cx.zero := by
    unfold jsaRaw
    by_cases hv : invalidFrequencies ωs ωi J.omegaP = true
    · simp [hv]
    · have ht : pumpSpectralAmplitude (ωs + ωi) J.omegaP J.bandwidth < J.threshold := by
        rcases h with h | h
        · exact h
        · exact absurd ((invalidFrequencies_iff ωs ωi J.omegaP).mpr h) hv
      simp [hv, ht]
  have hs : jsiSinglesRaw sr J ωs ωi = 0 := by
    unfold jsiSinglesRaw
    by_cases hv : invalidFrequencies ωs ωi J.omegaP = true
    · simp [hv, lit_zero]
    · have ht : pumpSpectralAmplitude (ωs + ωi) J.omegaP J.bandwidth < J.threshold := by
        rcases h with h | h
        · exact h
        · exact absurd ((invalidFrequencies_iff ωs ωi J.omegaP).mpr h) hv
      simp [hv, ht, lit_zero]
  refine ⟨hraw, hs, ?_, ?_, ?_⟩
  · unfold jsa jsaOfRaw; rw [hraw]; simp [cxIsZero_zero]
  · unfold jsi jsiOfRaw; rw [hraw]; simp [cxIsZero_zero, lit_zero]
  · unfold jsiSingles; rw [hs]
    have : PM.isZero (0 : ℝ) = true := (isZero_iff 0).mpr rfl
    simp [this, lit_zero]

/-! ## composed model

The theorems above are about the joint-spectrum layer with the phase-matching inputs arbitrary.  The
theorems below lift them to the COMPOSED model (`Spdc/Model/Compose.lean`): the only inputs are the
primitive setup `Compose.Setup`; indices, angles, walk-off, `k_eff`, apodisation, the integrand, the
Simpson z-integral and the normalisation are all computed from it through the layer models.  No
assumption beyond those of the layer theorems is needed: pump power and `deff` enter the composition
only through `common_norm`, the threshold and the box only through the support test. -/

/-- composed model, T1 lifted: scaling the primitive pump power by `a` and `deff` by `b` leaves
`jsa_raw` untouched and multiplies the normalisations, `jsi` and `jsi_singles` (all computed from the
primitive inputs through all layers, Simpson quadratures) by `a·b²` — including the panic / `Err`
outcomes, which are the same on both sides. -/
theorem compose_norm_linear (S : Compose.Setup ℝ) (a b : ℝ) (divs : Nat) (ωs ωi : ℝ) :
    Compose.jsaRaw (S.scaled a b) divs ωs ωi = Compose.jsaRaw S divs ωs ωi
      ∧ Compose.jsiNormalization (S.scaled a b) ωs ωi
          = (Compose.jsiNormalization S ωs ωi).map (fun x => a * b ^ 2 * x)
      ∧ Compose.jsiSinglesNormalization (S.scaled a b) ωs ωi
          = (Compose.jsiSinglesNormalization S ωs ωi).map (fun x => a * b ^ 2 * x)
      ∧ Compose.jsi (S.scaled a b) divs ωs ωi
          = (Compose.jsi S divs ωs ωi).map (fun x => a * b ^ 2 * x)
      ∧ Compose.jsiSingles (S.scaled a b) divs ωs ωi
          = (Compose.jsiSingles S divs ωs ωi).map (fun x => a * b ^ 2 * x) := by
  refine ⟨?_, ?_, ?_, ?_, ?_⟩
  · unfold Compose.jsaRaw
    rw [Compose.offSupport_scaled, Compose.jsetup_scaled]
    split
    · rfl
    · cases Compose.jsetup S with
      | ok J =>
        cases (Compose.simpsonRule divs : Outcome (List (ℝ × ℝ) × ℝ)) with
        | ok r => simp only [Outcome.map, Outcome.bind, jsaRaw_scaled]
        | err e => rfl
        | panic e => rfl
      | err e => rfl
      | panic e => rfl
  · unfold Compose.jsiNormalization
    rw [Compose.jsetup_scaled]
    cases Compose.jsetup S with
    | ok J => simp only [Outcome.map]; rw [jsiNormalization_scaled]
    | err e => rfl
    | panic e => rfl
  · unfold Compose.jsiSinglesNormalization
    rw [Compose.jsetup_scaled]
    cases Compose.jsetup S with
    | ok J => simp only [Outcome.map]; rw [jsiSinglesNormalization_scaled]
    | err e => rfl
    | panic e => rfl
  · unfold Compose.jsi
    rw [Compose.offSupport_scaled, Compose.jsetup_scaled]
    split
    · simp [Outcome.map, lit_zero]
    · cases Compose.jsetup S with
      | ok J =>
        cases (Compose.simpsonRule divs : Outcome (List (ℝ × ℝ) × ℝ)) with
        | ok r =>
          simp only [Outcome.map, Outcome.bind]
          congr 1
          exact (norm_linear J (fun _ _ _ => 0) a b r.1 r.2 ωs ωi 0 0 0 0 []).2.2.2.2.2.1
        | err e => rfl
        | panic e => rfl
      | err e => rfl
      | panic e => rfl
  · unfold Compose.jsiSingles
    rw [Compose.offSupport_scaled, Compose.jsetup_scaled]
    split
    · simp [Outcome.map, lit_zero]
    · cases Compose.jsetup S with
      | ok J =>
        cases (Quad.simpson2dDivs divs) with
        | ok d =>
          simp only [Outcome.map, Outcome.bind]
          congr 1
          exact jsiSingles_scaled _ J a b ωs ωi
        | err e => rfl
        | panic e => rfl
      | err e => rfl
      | panic e => rfl

/-- composed model, T5 lifted: below the threshold, for a non-positive frequency, above the pump
frequency `2πc/λ_p` of the PRIMITIVE pump wavelength, or for `|ω_s − ω_i| > ¾·2πc/λ_p`, every spectrum
of the composed model is the literal zero — and nothing else is evaluated (no panic of the quadrature,
of `k_eff` or of the walk-off derivative can surface there). -/
theorem compose_zero_off_support (S : Compose.Setup ℝ) (divs : Nat) (ωs ωi : ℝ)
    (h : Compose.pumpAmplitude S (ωs + ωi) < S.threshold ∨ ωs ≤ 0 ∨ ωi ≤ 0
      ∨ 2 * Real.pi * 299792458 / S.lamP < ωs ∨ 2 * Real.pi * 299792458 / S.lamP < ωi
      ∨ 3 / 4 * (2 * Real.pi * 299792458 / S.lamP) < |ωs - ωi|) :
    Compose.jsaRaw S divs ωs ωi = .ok Cx.zero ∧ Compose.jsa S divs ωs ωi = .ok Cx.zero
      ∧ Compose.jsi S divs ωs ωi = .ok 0 ∧ Compose.jsiSingles S divs ωs ωi = .ok 0 := by
  rw [← Compose.omegaP_formula S] at h
  have hoff : Compose.offSupport S ωs ωi = true := (Compose.offSupport_iff S ωs ωi).mpr h
  simp [Compose.jsaRaw, Compose.jsa, Compose.jsi, Compose.jsiSingles, hoff, lit_zero]

/-- composed model, T4 lifted: on the support the composed `jsa_raw` is the envelope at `ω_s + ω_i`
(centre `2πc/λ_p`, width from the primitive bandwidth) times the composed `phasematch_fiber_coupling`
(the quadrature layer's Simpson rule applied to the composed integrand). -/
theorem compose_jsaRaw_factor (S : Compose.Setup ℝ) (divs : Nat) (ωs ωi : ℝ)
    (hoff : Compose.offSupport S ωs ωi = false)
    (h1 : ¬ divs + divs % 2 < 2) (h2 : ¬ divs + divs % 2 - 2 < 4) :
    Compose.jsaRaw S divs ωs ωi
      = (Compose.pmCoinc S divs ωs ωi).map (Cx.smul (Compose.pumpAmplitude S (ωs + ωi))) := by
  have hs : (Compose.simpsonRule divs : Outcome (List (ℝ × ℝ) × ℝ))
      = .ok (simpsonNodes (divs + divs % 2 - 2),
          (((1.0 : ℝ) - (-(1.0 : ℝ))) / ((divs + divs % 2 - 2 : Nat) : ℝ)) / (3.0 : ℝ)) := by
    simp [Compose.simpsonRule, Quad.simpsonDivs, h1, h2, Outcome.map]
  unfold Compose.jsaRaw Compose.pmCoinc
  rw [hoff, hs]
  simp only [Bool.false_eq_true, if_false]
  cases hJ : Compose.jsetup S with
  | ok J =>
    obtain ⟨hw, hb, ht⟩ := Compose.jsetup_pump hJ
    have hq := Compose.half_simpson_eq J.toSetup divs ωs ωi h1 h2
    simp only [pmCoincSimpson, h1, h2, if_false] at hq
    simp only [Outcome.bind]
    rw [hq]
    simp only [Outcome.map]
    congr 1
    simp only [Compose.offSupport, Bool.or_eq_false_iff, decide_eq_false_iff_not, not_lt] at hoff
    have hf := jsaRaw_factor J (simpsonNodes (divs + divs % 2 - 2))
      ((((1.0 : ℝ) - (-(1.0 : ℝ))) / ((divs + divs % 2 - 2 : Nat) : ℝ)) / (3.0 : ℝ)) ωs ωi
      (by rw [hw]; exact hoff.1) (by rw [hw, hb, ht]; exact hoff.2)
    rw [hf, hw, hb]
    rfl
  | err e => rfl
  | panic e => rfl

/-! ### non-vacuity -/

/-- a concrete pump (1 rad/s centre, tiny FWHM) satisfies the hypotheses of `envelope_half` -/
example : (0 : ℝ) < 1 ∧ (1 : ℝ) < 2 * freqToWavelength (1 : ℝ) := by
  refine ⟨by norm_num, ?_⟩
  have h := twoPi_cLight_pos
  have h1 : (1:ℝ) < twoPi * cLight := by
    have hp : (2:ℝ) ≤ Real.pi := Real.two_le_pi
    simp only [twoPi, lit_two, Transc.pi, cLight]
    nlinarith
  simp only [freqToWavelength, div_one]
  linarith

/-- the off-support hypothesis is satisfiable without touching the threshold -/
example : (3 : ℝ) / 4 * 4 < |(4 : ℝ) - 0.5| := by norm_num [abs_of_pos]

/-- composed model: the off-support hypothesis is satisfiable for every primitive setup (`ω_s = 0`),
and the division-count side conditions of `compose_jsaRaw_factor` hold for the default Simpson-50 -/
example (S : Compose.Setup ℝ) :
    Compose.pumpAmplitude S (0 + 1) < S.threshold ∨ (0 : ℝ) ≤ 0 ∨ (1 : ℝ) ≤ 0
      ∨ 2 * Real.pi * 299792458 / S.lamP < 0 ∨ 2 * Real.pi * 299792458 / S.lamP < 1
      ∨ 3 / 4 * (2 * Real.pi * 299792458 / S.lamP) < |(0 : ℝ) - 1| := Or.inr (Or.inl le_rfl)

example : ¬ (50 + 50 % 2 < 2) ∧ ¬ (50 + 50 % 2 - 2 < 4) := by decide

end Spdc.Props.C07
