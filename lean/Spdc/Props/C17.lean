import Spdc.Real.Config
/-!
# C17 — invalid configurations give an error, never a panic

Property theorems only.
-/
namespace Spdc.Props.C17
open Spdc Spdc.PM Spdc.Cfg

/-- giving both or neither of the signal's internal and external angle is an error -/
theorem listed_signal_angles (cfg : Config ℝ) (ext : Ext ℝ)
    (h : cfg.signal.thetaDeg.isSome = cfg.signal.thetaExternalDeg.isSome) :
    tryAsSpdc cfg ext = .err "angles" := by
  unfold tryAsSpdc tryAsSpdcG BeamCfg.tryAsBeam
  cases h1 : cfg.signal.thetaDeg <;> cases h2 : cfg.signal.thetaExternalDeg <;>
    simp_all [Outcome.bind]

end Spdc.Props.C17
