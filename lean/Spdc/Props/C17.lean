import Spdc.Real.ConfigFlow
import Spdc.Real.ComposeAutoLemmas
/-!
# C17 — invalid configurations give an error, never a panic or a non-finite setup

Property theorems only.  `tryAsSpdc` mirrors the repaired code (`fix:` commit for D7: early error
for `λs ≤ λp`); `tryAsSpdcG false` is the pinned tree, about which the `_pinned` theorems prove
the violation.  `Ext` are the numeric sub-routines; `ExtNoPanic ext` says that they do not panic
by themselves (panics inside them are searched for on the real code, see notes/C17.md).
-/
namespace Spdc.Props.C17
open Spdc Spdc.Cfg Spdc.Outcome
open Spdc.PM hiding Setup Beam twoPi sec cLight

/-- an outcome that neither panics nor is `ok` is an error -/
theorem err_of_np_of_not_ok {β : Type} {x : Outcome β} (h1 : NP x) (h2 : ∀ b, x ≠ .ok b) :
    ∃ e, x = .err e := by
  cases x with
  | ok b => exact absurd rfl (h2 b)
  | err e => exact ⟨e, rfl⟩
  | panic s => simp [NP, Outcome.isPanic] at h1

/-- **T2.** `try_as_spdc` never panics, for every configuration (inside or outside the window) and
every non-panicking behaviour of the numeric sub-routines: behind the early `λs ≤ λp` error the
`unwrap()`s in `optimum_theta`, `compute_sign` and `optimum_poling_period` are unreachable. -/
theorem no_panic (cfg : Config ℝ) (ext : Ext ℝ) (hx : ExtNoPanic ext) :
    (tryAsSpdc cfg ext).isPanic = false :=
  np_tryAsSpdc hx cfg

/-- **T1a.** both or neither of the signal's internal and external angle is an error -/
theorem listed_signal_angles (cfg : Config ℝ) (ext : Ext ℝ)
    (h : cfg.signal.thetaDeg.isSome = cfg.signal.thetaExternalDeg.isSome) :
    tryAsSpdc cfg ext = .err "angles" := by
  unfold tryAsSpdc tryAsSpdcG BeamCfg.tryAsBeam
  cases h1 : cfg.signal.thetaDeg <;> cases h2 : cfg.signal.thetaExternalDeg <;>
    simp_all [Outcome.bind]

/-- **T1b.** an "auto" crystal angle together with periodic poling is an error -/
theorem listed_auto_theta_with_poling (cfg : Config ℝ) (ext : Ext ℝ) (hx : ExtNoPanic ext)
    (ha : cfg.crystal.thetaDeg.isAuto = true) (hp : cfg.poling ≠ .off) :
    ∃ e, tryAsSpdc cfg ext = .err e := by
  apply err_of_np_of_not_ok (np_tryAsSpdc hx cfg)
  intro s hs
  obtain ⟨signal, pp, c1, idler, iwp, swp, _, _, hpp, hc1, _⟩ := tryAsSpdcG_ok_inv hs
  rcases thetaStep_ok hc1 with ⟨hna, _⟩ | ⟨_, hoff, _⟩
  · rw [ha] at hna; exact absurd hna (by simp)
  · exact hp ((tryAsPoling_off_iff hpp).mp hoff)

/-- **T1c.** a signal wavelength not longer than the pump's is an error, whatever else is set to
"auto" (crystal angle, poling period, idler, waist positions) -/
theorem listed_ls_le_lp (cfg : Config ℝ) (ext : Ext ℝ) (hx : ExtNoPanic ext)
    (hl : cfg.signal.wavelengthNm ≤ cfg.pump.wavelengthNm) :
    ∃ e, tryAsSpdc cfg ext = .err e := by
  apply err_of_np_of_not_ok (np_tryAsSpdc hx cfg)
  intro s hs
  obtain ⟨signal, pp, c1, idler, iwp, swp, hsig, hg, _⟩ := tryAsSpdcG_ok_inv hs
  have := (lsLeLp_iff hsig cfg.crystal.toSetup).mpr hl
  rw [hg rfl] at this
  exact absurd this (by simp)

/-- **T1d.** when the optimiser reports that no poling period within the crystal length
phase-matches (C04), an "auto" poling period is an error -/
theorem listed_period_out_of_range (cfg : Config ℝ) (ext : Ext ℝ) (hx : ExtNoPanic ext)
    (apod : Apod ℝ) (hp : cfg.poling = .config .auto apod)
    (hper : ∀ signal, cfg.signal.tryAsBeam ext cfg.crystal.toSetup.pmType.signalPol
        cfg.crystal.toSetup = .ok signal →
      ∃ e, ext.period signal (cfg.pump.asBeam cfg.crystal.toSetup) cfg.crystal.toSetup = .err e) :
    ∃ e, tryAsSpdc cfg ext = .err e := by
  apply err_of_np_of_not_ok (np_tryAsSpdc hx cfg)
  intro s hs
  obtain ⟨signal, pp, c1, idler, iwp, swp, hsig, _, hpp, _⟩ := tryAsSpdcG_ok_inv hs
  obtain ⟨e, he⟩ := hper signal hsig
  rw [hp] at hpp
  simp only [PolingCfg.tryAsPoling, map_eq_ok] at hpp
  obtain ⟨per, hper', _⟩ := hpp
  rw [optimumPolingPeriod_ok hper', ] at he
  exact absurd he (by simp)

/-- **T3 (partial: finiteness itself is a float notion).** On `ok`, every field of the setup is a
unit multiple of a configured value or the value of a numeric sub-routine, and poling is off
exactly when the configuration says so (so the period is "infinite" only then). -/
theorem ok_fields_partial (cfg : Config ℝ) (ext : Ext ℝ) (s : Setup ℝ)
    (h : tryAsSpdc cfg ext = .ok s) :
    s.pump = cfg.pump.asBeam cfg.crystal.toSetup ∧
    s.pumpBandwidth = cfg.pump.bandwidthNm * nano ∧
    s.pumpAveragePower = cfg.pump.averagePowerMw * 1.0 ∧
    s.deff = toDeff cfg.deffPmPerVolt ∧
    (s.pp.isOff = true ↔ cfg.poling = .off) ∧
    (s.crystal = cfg.crystal.toSetup ∨
      ∃ th, ext.theta cfg.crystal.toSetup s.signal s.pump = .ok th ∧
        s.crystal = { cfg.crystal.toSetup with theta := th }) ∧
    (idlerStep ext cfg s.signal s.pump s.crystal s.pp = .ok s.idler) ∧
    (waistPosition ext cfg.signal.waistPositionUm s.crystal s.signal = .ok s.signalWaistPos) ∧
    (waistPosition ext (idlerWaistCfg cfg) s.crystal s.idler = .ok s.idlerWaistPos) := by
  obtain ⟨signal, pp, c1, idler, iwp, swp, hsig, _, hpp, hc1, hid, hiwp, hswp, rfl⟩ :=
    tryAsSpdcG_ok_inv h
  refine ⟨rfl, rfl, rfl, rfl, tryAsPoling_off_iff hpp, ?_, hid, hswp, hiwp⟩
  rcases thetaStep_ok hc1 with ⟨_, rfl⟩ | ⟨_, _, th, hth, rfl⟩
  · exact Or.inl rfl
  · exact Or.inr ⟨th, optimumTheta_ok hth, rfl⟩

/-! ## composed model

`no_panic` above assumes `ExtNoPanic ext`.  For the composed routines (`Compose.composedExt`,
`Spdc/Model/ComposeAuto.lean`) that assumption is a THEOREM over ℝ (`Compose.extNoPanic_composed`):

* Snell inverse — the cost `|sin θe − n(θ) sin θ|` of the modelled Nelder–Mead is a real number, so
  `NM1D.run_spec` yields a value;
* optimum idler, optimal waist position, poling sign — straight-line code behind the wavelength guard;
* optimum poling period — inside the optimiser's bounds `[f64::MIN_POSITIVE, L]` the trial period is
  positive, so `k_eff`'s `assert!` cannot fire, the optimum idler exists (`λp < λs`), the cost is real;
* optimum crystal angle — the simplex NESTED in its cost (re-aiming the signal at its external angle)
  is a value by the first item, the rest as above.

What remains outside the theorem: IEEE NaN.  Over `f64` a cost can be NaN (an index far outside the
Sellmeier range, `asin` of an argument above 1), and argmin then fails — those panics exist in the
real crate and the `Float` run of the SAME definitions reproduces them case by case (op
`cmpa_from_config`, malformed stream: identical PANIC sets). -/

/-- composed model, T2 with the `ExtNoPanic` hypothesis discharged: `try_as_spdc` with every numeric
sub-routine computed by the composed model never panics, for every configuration (over ℝ). -/
theorem compose_no_panic (cfg : Config ℝ) :
    (Compose.trySpdc cfg).isPanic = false ∧ (Compose.fromConfig cfg).isPanic = false := by
  have h := no_panic cfg Compose.composedExt Compose.extNoPanic_composed
  refine ⟨h, ?_⟩
  show NP ((Compose.trySpdc cfg).map (Compose.toCompose cfg))
  exact np_map _ h

/-- composed model, T1 with the concrete routines: the listed configurations are errors of the
composed `try_as_spdc` (no hypothesis on sub-routines left) -/
theorem compose_listed_errors (cfg : Config ℝ) :
    (cfg.signal.thetaDeg.isSome = cfg.signal.thetaExternalDeg.isSome →
      Compose.trySpdc cfg = .err "angles") ∧
    (cfg.crystal.thetaDeg.isAuto = true → cfg.poling ≠ .off → ∃ e, Compose.trySpdc cfg = .err e) ∧
    (cfg.signal.wavelengthNm ≤ cfg.pump.wavelengthNm → ∃ e, Compose.trySpdc cfg = .err e) :=
  ⟨listed_signal_angles cfg Compose.composedExt,
   listed_auto_theta_with_poling cfg Compose.composedExt Compose.extNoPanic_composed,
   listed_ls_le_lp cfg Compose.composedExt Compose.extNoPanic_composed⟩

/-! ## the pinned tree (no early guard) violated the statement — D7 -/

/-- a configuration with the signal given by its internal angle and `λs ≤ λp` -/
def BadWavelengths (cfg : Config ℝ) : Prop :=
  cfg.signal.thetaDeg.isSome = true ∧ cfg.signal.thetaExternalDeg = none ∧
    cfg.signal.wavelengthNm ≤ cfg.pump.wavelengthNm

theorem pinned_signal (cfg : Config ℝ) (ext : Ext ℝ) (hb : BadWavelengths cfg) :
    ∃ signal, cfg.signal.tryAsBeam ext cfg.crystal.toSetup.pmType.signalPol cfg.crystal.toSetup
        = .ok signal ∧ lsLeLp signal (cfg.pump.asBeam cfg.crystal.toSetup) = true := by
  obtain ⟨h1, h2, h3⟩ := hb
  obtain ⟨t, ht⟩ := Option.isSome_iff_exists.mp h1
  have hsig : ∃ b, cfg.signal.tryAsBeam ext cfg.crystal.toSetup.pmType.signalPol cfg.crystal.toSetup
      = .ok b := by
    unfold BeamCfg.tryAsBeam; rw [ht, h2]; exact ⟨_, rfl⟩
  obtain ⟨b, hb⟩ := hsig
  exact ⟨b, hb, (lsLeLp_iff hb _).mpr h3⟩

/-- **D7, witness 1.** `λs ≤ λp` with crystal angle "auto" and no poling panicked in
`optimum_theta`, for every behaviour of the sub-routines. -/
theorem pinned_panics_auto_theta (cfg : Config ℝ) (ext : Ext ℝ) (hb : BadWavelengths cfg)
    (ha : cfg.crystal.thetaDeg.isAuto = true) (hp : cfg.poling = .off) :
    tryAsSpdcG false cfg ext = .panic "optimum_theta:unwrap" := by
  obtain ⟨signal, hsig, hl⟩ := pinned_signal cfg ext hb
  simp [tryAsSpdcG, hsig, Outcome.bind, hp, PolingCfg.tryAsPoling, thetaStep, ha, Poling.isOff,
    optimumTheta, hl, Outcome.map]

/-- **D7, witness 2.** `λs ≤ λp` with any periodic-poling section panicked in `compute_sign`
(explicit period) or `optimum_poling_period` ("auto"). -/
theorem pinned_panics_poling (cfg : Config ℝ) (ext : Ext ℝ) (hb : BadWavelengths cfg)
    (per : Auto ℝ) (apod : Apod ℝ) (hp : cfg.poling = .config per apod) :
    (tryAsSpdcG false cfg ext).isPanic = true := by
  obtain ⟨signal, hsig, hl⟩ := pinned_signal cfg ext hb
  cases per <;>
    simp [tryAsSpdcG, hsig, Outcome.bind, hp, PolingCfg.tryAsPoling, optimumPolingPeriod,
      computeSign, hl, Outcome.map, Outcome.isPanic]

/-- …while an explicit crystal angle without poling and an "auto" idler already gave the clean
error. -/
theorem pinned_ls_le_lp_partial (cfg : Config ℝ) (ext : Ext ℝ) (hb : BadWavelengths cfg)
    (ha : cfg.crystal.thetaDeg.isAuto = false) (hp : cfg.poling = .off) (hi : cfg.idler = .auto) :
    tryAsSpdcG false cfg ext = .err "ls<=lp" := by
  obtain ⟨signal, hsig, hl⟩ := pinned_signal cfg ext hb
  simp [tryAsSpdcG, hsig, Outcome.bind, hp, PolingCfg.tryAsPoling, thetaStep, ha, idlerStep, hi,
    optimumIdler, hl]

/-! ## non-vacuity -/

/-- sub-routines that answer with an error are a non-panicking `Ext` … -/
def errExt : Ext ℝ :=
  { snell := fun _ _ _ => .err "x", signNeg := fun _ _ _ => .err "x", period := fun _ _ _ => .err "x",
    theta := fun _ _ _ => .err "x", idler := fun _ _ _ _ => .err "x", waistPos := fun _ _ _ => .err "x" }

example : ExtNoPanic errExt := ⟨fun _ _ _ => rfl, fun _ _ _ => rfl, fun _ _ _ => rfl,
  fun _ _ _ => rfl, fun _ _ _ _ => rfl, fun _ _ _ => rfl⟩

/-- … and the crate's default configuration with the signal at 700 nm below the 775 nm pump
satisfies `BadWavelengths` with crystal angle "auto": the pinned flow panicked on it. -/
example : tryAsSpdcG false
    { (defaultConfig : Config ℝ) with
      signal := { (defaultConfig : Config ℝ).signal with wavelengthNm := 700 } } errExt
    = .panic "optimum_theta:unwrap" := by
  apply pinned_panics_auto_theta
  · refine ⟨rfl, rfl, ?_⟩
    show (700 : ℝ) ≤ (775.0 : ℝ)
    norm_num
  · rfl
  · rfl

end Spdc.Props.C17
