import Spdc.Real.Jsa
import Spdc.Real.ComposeLemmas
/-!
# C06 — relabelling signal and idler leaves the coincidence joint spectrum unchanged

Property theorems only (helper lemmas: `Spdc/Real/PM.lean`, `Spdc/Real/Jsa.lean`).  All statements
are about the executable model of `get_pm_integrand`, `phasematch_fiber_coupling`, `jsa_raw`,
`JointSpectrum::{jsa,jsi,jsi_singles}`, `with_swapped_signal_idler`, `get_counts_correction`
(`Spdc/Model/{PM,Norm,Jsa}.lean`) at `α := ℝ`, for every dispersion law (`Beam.n`, `Setup.nP` are
arbitrary functions), every apodisation profile and every fixed-weight quadrature rule.
`Coef.Good` / `Good` is the guard that `A1 … A4`, `denom1`, `denom2` do not vanish (Mathlib's
`x/0 = 0` would otherwise make the algebra true or false for the wrong reason).
-/
namespace Spdc.Props.C06
open Spdc Spdc.PM

/-- T1. The integrand as a function `G(A1,…,A10)` of the ten coefficients is invariant under
`(A1,A2,A3,A4,A5,A7) ↦ (A3,A4,A1,A2,A7,A5)`: exponent, `denom1`, `denom2` and hence the value. -/
theorem G_symm (A : Coef ℝ) (g : A.Good) (w : ℝ) :
    A.exch.exponent = A.exponent ∧ A.exch.denom1 = A.denom1 ∧ A.exch.denom2 = A.denom2
      ∧ A.exch.integrand w = A.integrand w :=
  ⟨exponent_exch A g, denom1_exch A, denom2_exch A, integrand_exch A g w⟩

/-- T2. The coefficient map commutes with the exchange:
`A1(swap S, ω_i, ω_s) = A3(S, ω_s, ω_i)`, … (one `chain` serves both beams). -/
theorem coeffs_swap (S : Setup ℝ) (ωs ωi z : ℝ) :
    coef S.swap ωi ωs z = (coef S ωs ωi z).exch :=
  coef_swap' S ωs ωi z

/-- the integrand of the exchanged setup at exchanged frequencies -/
theorem pmIntegrand_swap (S : Setup ℝ) (ωs ωi z : ℝ) (g : Good S ωs ωi z) :
    pmIntegrand S.swap ωi ωs z = pmIntegrand S ωs ωi z :=
  pmIntegrand_swap' S ωs ωi z g

/-- T3. `jsa_raw` of the exchanged setup at `(ω_i, ω_s)` equals `jsa_raw` of the setup at
`(ω_s, ω_i)`, for every quadrature rule that is a fixed weighted sum of integrand values (Simpson,
Gauss–Legendre): the pump envelope depends on `ω_s + ω_i`, the support box on `|ω_s − ω_i|`. -/
theorem jsaRaw_swap (J : JSetup ℝ) (nodes : List (ℝ × ℝ)) (scale ωs ωi : ℝ)
    (g : ∀ p ∈ nodes, Good J.toSetup ωs ωi p.1) :
    jsaRaw J.swap nodes scale ωi ωs = jsaRaw J nodes scale ωs ωi :=
  jsaRaw_swap' J nodes scale ωs ωi g

/-- T4a. `jsi_normalization` is exchange symmetric. -/
theorem norm_swap (J : JSetup ℝ) (ωs ωi : ℝ) :
    jsiNormalization J.swap.normIn J.swap.sig J.swap.idl ωi ωs
      = jsiNormalization J.normIn J.sig J.idl ωs ωi :=
  jsiNormalization_swap J.normIn J.sig J.idl ωs ωi

/-- T4b. `JointSpectrum::jsa` — exact equality over ℝ (stronger than the stated 1e-6), in
magnitude and phase. -/
theorem jsa_swap (J : JSetup ℝ) (nodes : List (ℝ × ℝ)) (scale ωs ωi : ℝ)
    (g : ∀ p ∈ nodes, Good J.toSetup ωs ωi p.1) :
    jsa J.swap nodes scale ωi ωs = jsa J nodes scale ωs ωi := by
  unfold jsa jsaOfRaw
  rw [jsaRaw_swap J nodes scale ωs ωi g, norm_swap]

/-- T4c. `JointSpectrum::jsi`. -/
theorem jsi_swap (J : JSetup ℝ) (nodes : List (ℝ × ℝ)) (scale ωs ωi : ℝ)
    (g : ∀ p ∈ nodes, Good J.toSetup ωs ωi p.1) :
    jsi J.swap nodes scale ωi ωs = jsi J nodes scale ωs ωi := by
  unfold jsi jsiOfRaw
  rw [jsaRaw_swap J nodes scale ωs ωi g, norm_swap]

/-- T4d. `get_counts_correction` is exchange symmetric (signal and idler group indices enter as a
product). -/
theorem countsCorrection_swap (lp ls li ns ni np ngs ngi : ℝ) :
    countsCorrection lp li ls ni ns np ngi ngs = countsCorrection lp ls li ns ni np ngs ngi := by
  simp only [countsCorrection, lit_four]
  ring

/-- T4e. Coincidence rates are invariant: the rate of the exchanged setup over the exchanged grid
(visited in any order) equals the rate of the setup over the grid. -/
theorem rate_swap (J : JSetup ℝ) (nodes : List (ℝ × ℝ)) (scale corr dw2 : ℝ)
    (grid grid' : List (ℝ × ℝ)) (hperm : grid'.Perm (grid.map Prod.swap))
    (g : ∀ q ∈ grid, ∀ p ∈ nodes, Good J.toSetup q.1 q.2 p.1) :
    countsSum corr dw2 grid' (jsi J.swap nodes scale) = countsSum corr dw2 grid (jsi J nodes scale) := by
  unfold countsSum
  rw [sumList_eq, sumList_eq]
  have h : (grid'.map fun p => jsi J.swap nodes scale p.1 p.2 * dw2).sum
      = (grid.map fun p => jsi J nodes scale p.1 p.2 * dw2).sum := by
    rw [(hperm.map _).sum_eq, List.map_map]
    apply congrArg List.sum
    apply List.map_congr_left
    intro q hq
    simp only [Function.comp, Prod.fst_swap, Prod.snd_swap]
    rw [jsi_swap J nodes scale q.1 q.2 (g q hq)]
  rw [h]

/-- T5. The idler singles spectrum of a setup is, as coded (`jsi_singles_idler_range`,
`counts_singles_idler`), the signal singles spectrum of the exchanged setup with the arguments
exchanged — for every singles phase-matching function `sr`; and the idler singles rate of `J` over
`grid` is the signal singles rate of `swap J` over the exchanged grid (same correction factor by
T4d). -/
theorem idler_singles_def (sr : Setup ℝ → ℝ → ℝ → ℝ) (J : JSetup ℝ) (ωs ωi corr dw2 : ℝ)
    (grid grid' : List (ℝ × ℝ)) (hperm : grid'.Perm (grid.map Prod.swap)) :
    jsiSinglesIdler sr J ωs ωi = jsiSingles sr J.swap ωi ωs
      ∧ countsSum corr dw2 grid (jsiSinglesIdler sr J)
          = countsSum corr dw2 grid' (jsiSingles sr J.swap) := by
  refine ⟨rfl, ?_⟩
  unfold countsSum
  rw [sumList_eq, sumList_eq]
  have h : (grid'.map fun p => jsiSingles sr J.swap p.1 p.2 * dw2).sum
      = (grid.map fun p => jsiSinglesIdler sr J p.1 p.2 * dw2).sum := by
    rw [(hperm.map _).sum_eq, List.map_map]
    rfl
  rw [h]

/-- T6a. The exchange is an involution. -/
theorem swap_involutive (J : JSetup ℝ) : J.swap.swap = J ∧ J.toSetup.swap.swap = J.toSetup :=
  ⟨JSetup.swap_swap J, Setup.swap_swap J.toSetup⟩

/-- T6b. `PMType::inverse` exchanges the signal and idler polarisations, keeps the pump's, and is
an involution (complete finite table). -/
theorem pmtype_inverse_table (t : PMType) :
    t.inverse.signalPol = t.idlerPol ∧ t.inverse.idlerPol = t.signalPol
      ∧ t.inverse.pumpPol = t.pumpPol ∧ t.inverse.inverse = t := by
  cases t <;> decide

/-- T6c. In the exchanged setup the new signal is the old idler (beam, waist position, index
function) and vice versa; nothing else changes but the phase-matching type. -/
theorem swap_fields (S : Setup ℝ) :
    S.swap.sig = S.idl ∧ S.swap.idl = S.sig ∧ S.swap.pm = S.pm.inverse ∧ S.swap.L = S.L
      ∧ S.swap.wpx = S.wpx ∧ S.swap.wpy = S.wpy ∧ S.swap.nP = S.nP ∧ S.swap.rho = S.rho
      ∧ S.swap.keff = S.keff ∧ S.swap.apod = S.apod :=
  ⟨rfl, rfl, rfl, rfl, rfl, rfl, rfl, rfl, rfl, rfl⟩

/-! ### non-vacuity: the guard is satisfiable, with asymmetric coefficients -/

/-- an asymmetric coefficient set -/
def exA : Coef ℝ :=
  ⟨⟨-1, 1⟩, ⟨-2, 0⟩, ⟨-3, 1⟩, ⟨-1, 2⟩, ⟨1, 1⟩, ⟨0, 1⟩, ⟨2, 0⟩, ⟨-1, 0⟩, ⟨-1, 1⟩, ⟨0, 5⟩⟩

/-- it satisfies the guard -/
example : exA.Good := by
  constructor
  · intro h; have := congrArg Complex.re h; simp [exA, Cx.toC] at this
  · intro h; have := congrArg Complex.re h; simp [exA, Cx.toC] at this
  · intro h; have := congrArg Complex.re h; simp [exA, Cx.toC] at this
  · intro h; have := congrArg Complex.re h; simp [exA, Cx.toC] at this
  · rw [denom1_toC]; intro h; have := congrArg Complex.re h; simp [exA, Cx.toC] at this
    norm_num at this
  · rw [denom2_toC]; intro h; have := congrArg Complex.re h; simp [exA, Cx.toC] at this

/-! ## composed model

The theorems above are about the phase-matching layer with its inputs (indices, external angles,
walk-off, `k_eff`, apodisation) arbitrary.  The theorems below lift them to the COMPOSED model
(`Spdc/Model/Compose.lean`), whose only inputs are the primitive setup `Compose.Setup` (crystal id,
angles, wavelengths, waists, …) and which computes those layer inputs itself through the crystal,
index, beam and poling layers.  Assumptions of the lift: the idler is given explicitly
(`idlerAuto = false`; with `"auto"` the exchanged setup would recompute a different idler), and the
guard `Good` at the Simpson nodes as before. -/

/-- composed model, T2 lifted: the coefficient inputs computed from the primitives commute with the
exchange — the joint-spectrum view of the exchanged primitive setup is the exchanged view (same
principal indices, directions, external angles, waist positions; pump walk-off and `k_eff` untouched;
`PMType::inverse` hands each beam the other's polarization). -/
theorem compose_coeffs_swap (S : Compose.Setup ℝ) (h : S.idlerAuto = false) :
    Compose.jsetup S.swap = (Compose.jsetup S).map JSetup.swap :=
  Compose.jsetup_swap S h

/-- composed model: the integrand of the exchanged primitive setup at exchanged frequencies -/
theorem compose_pmIntegrand_swap (S : Compose.Setup ℝ) (h : S.idlerAuto = false) (ωs ωi z : ℝ)
    (g : ∀ J, Compose.jsetup S = .ok J → Good J.toSetup ωs ωi z) :
    Compose.pmIntegrand S.swap ωi ωs z = Compose.pmIntegrand S ωs ωi z := by
  unfold Compose.pmIntegrand
  rw [Compose.jsetup_swap S h]
  cases hJ : Compose.jsetup S with
  | ok J =>
    simp only [Outcome.map]
    congr 1
    exact pmIntegrand_swap J.toSetup ωs ωi z (g J hJ)
  | err e => rfl
  | panic e => rfl

/-- composed model, T3/T4 lifted: `jsa_raw`, `jsa` (magnitude and phase) and `jsi` computed from the
primitive inputs through all layers are invariant under the exchange of the primitive signal and idler
records (wavelength, angles, waist, waist position; PM type inverted) together with the frequency
arguments — for every crystal, every Simpson division count (a panic for `divs < 5` is the same on
both sides). -/
theorem compose_jsa_swap (S : Compose.Setup ℝ) (h : S.idlerAuto = false) (divs : Nat) (ωs ωi : ℝ)
    (g : ∀ J r, Compose.jsetup S = .ok J → Compose.simpsonRule divs = .ok r →
      ∀ p ∈ r.1, Good J.toSetup ωs ωi p.1) :
    Compose.jsaRaw S.swap divs ωi ωs = Compose.jsaRaw S divs ωs ωi
      ∧ Compose.jsa S.swap divs ωi ωs = Compose.jsa S divs ωs ωi
      ∧ Compose.jsi S.swap divs ωi ωs = Compose.jsi S divs ωs ωi := by
  refine ⟨?_, ?_, ?_⟩
  · unfold Compose.jsaRaw
    rw [Compose.offSupport_swap, Compose.jsetup_swap S h]
    split
    · rfl
    · cases hJ : Compose.jsetup S with
      | ok J =>
        cases hr : (Compose.simpsonRule divs : Outcome (List (ℝ × ℝ) × ℝ)) with
        | ok r =>
          simp only [Outcome.map, Outcome.bind]
          congr 1
          exact jsaRaw_swap J r.1 r.2 ωs ωi (g J r hJ hr)
        | err e => simp only [Outcome.map, Outcome.bind]
        | panic e => simp only [Outcome.map, Outcome.bind]
      | err e => rfl
      | panic e => rfl
  · unfold Compose.jsa
    rw [Compose.offSupport_swap, Compose.jsetup_swap S h]
    split
    · rfl
    · cases hJ : Compose.jsetup S with
      | ok J =>
        cases hr : (Compose.simpsonRule divs : Outcome (List (ℝ × ℝ) × ℝ)) with
        | ok r =>
          simp only [Outcome.map, Outcome.bind]
          congr 1
          exact jsa_swap J r.1 r.2 ωs ωi (g J r hJ hr)
        | err e => simp only [Outcome.map, Outcome.bind]
        | panic e => simp only [Outcome.map, Outcome.bind]
      | err e => rfl
      | panic e => rfl
  · unfold Compose.jsi
    rw [Compose.offSupport_swap, Compose.jsetup_swap S h]
    split
    · rfl
    · cases hJ : Compose.jsetup S with
      | ok J =>
        cases hr : (Compose.simpsonRule divs : Outcome (List (ℝ × ℝ) × ℝ)) with
        | ok r =>
          simp only [Outcome.map, Outcome.bind]
          congr 1
          exact jsi_swap J r.1 r.2 ωs ωi (g J r hJ hr)
        | err e => simp only [Outcome.map, Outcome.bind]
        | panic e => simp only [Outcome.map, Outcome.bind]
      | err e => rfl
      | panic e => rfl

/-- composed model: the two transcriptions of the Simpson z-integral (generic `math::simpson` of the
quadrature layer; the node list used by the joint-spectrum layer) give the same
`phasematch_fiber_coupling` on the composed view -/
theorem compose_pmCoinc_paths (S : Compose.Setup ℝ) (divs : Nat) (ωs ωi : ℝ)
    (h1 : ¬ divs + divs % 2 < 2) (h2 : ¬ divs + divs % 2 - 2 < 4) :
    Compose.pmCoinc S divs ωs ωi
      = (Compose.jsetup S).bind fun J => pmCoincSimpson J.toSetup divs ωs ωi := by
  unfold Compose.pmCoinc
  congr 1
  funext J
  exact Compose.half_simpson_eq J.toSetup divs ωs ωi h1 h2

/-- non-vacuity of the composed statements: a concrete primitive setup with an explicit idler whose
exchange is a different setup -/
def exS : Compose.Setup ℝ :=
  { crystal := .KTP, cTheta := 1.5, cPhi := 0, L := 0.01, T := 293, counterProp := false,
    pm := .t2_e_eo, lamP := 775e-9, wpx := 1e-4, wpy := 1e-4, bandwidth := 1e-9, power := 1,
    threshold := 0.01, deff := 1e-12,
    sig := ⟨1500e-9, 0.01, 0, 5e-5, 5e-5, -0.003⟩, idl := ⟨1603e-9, 0.011, 3, 6e-5, 6e-5, -0.002⟩,
    idlerAuto := false, poling := .off }

example : exS.idlerAuto = false ∧ exS.swap.pm = .t2_e_oe ∧ exS.swap.sig.wx = 6e-5
    ∧ exS.swap.swap.pm = exS.pm := ⟨rfl, rfl, rfl, rfl⟩

end Spdc.Props.C06
