import Spdc.Real.Jsa
/-!
# C06 — relabelling signal and idler leaves the coincidence joint spectrum unchanged

Property theorems only (helper lemmas: `Spdc/Real/PM.lean`, `Spdc/Real/Jsa.lean`).  All statements
are about the executable model of `get_pm_integrand`, `phasematch_fiber_coupling`, `jsa_raw`,
`JointSpectrum::{jsa,jsi,jsi_singles}`, `with_swapped_signal_idler`, `get_counts_correction`
(`Spdc/Model/{PM,Norm,Jsa}.lean`) at `α := ℝ`, for every dispersion law (`Beam.n`, `Setup.nP` are
arbitrary functions), every apodisation profile and every fixed-weight quadrature rule.
`Coef.Good` / `Good` is the guard that `A1 … A4`, `denom1`, `denom2` do not vanish (Mathlib's
`x/0 = 0` would otherwise make the algebra true or false for the wrong reason).
-/
namespace Spdc.Props.C06
open Spdc Spdc.PM

/-- T1. The integrand as a function `G(A1,…,A10)` of the ten coefficients is invariant under
`(A1,A2,A3,A4,A5,A7) ↦ (A3,A4,A1,A2,A7,A5)`: exponent, `denom1`, `denom2` and hence the value. -/
theorem G_symm (A : Coef ℝ) (g : A.Good) (w : ℝ) :
    A.exch.exponent = A.exponent ∧ A.exch.denom1 = A.denom1 ∧ A.exch.denom2 = A.denom2
      ∧ A.exch.integrand w = A.integrand w :=
  ⟨exponent_exch A g, denom1_exch A, denom2_exch A, integrand_exch A g w⟩

/-- T2. The coefficient map commutes with the exchange:
`A1(swap S, ω_i, ω_s) = A3(S, ω_s, ω_i)`, … (one `chain` serves both beams). -/
theorem coeffs_swap (S : Setup ℝ) (ωs ωi z : ℝ) :
    coef S.swap ωi ωs z = (coef S ωs ωi z).exch :=
  coef_swap' S ωs ωi z

/-- the integrand of the exchanged setup at exchanged frequencies -/
theorem pmIntegrand_swap (S : Setup ℝ) (ωs ωi z : ℝ) (g : Good S ωs ωi z) :
    pmIntegrand S.swap ωi ωs z = pmIntegrand S ωs ωi z :=
  pmIntegrand_swap' S ωs ωi z g

/-- T3. `jsa_raw` of the exchanged setup at `(ω_i, ω_s)` equals `jsa_raw` of the setup at
`(ω_s, ω_i)`, for every quadrature rule that is a fixed weighted sum of integrand values (Simpson,
Gauss–Legendre): the pump envelope depends on `ω_s + ω_i`, the support box on `|ω_s − ω_i|`. -/
theorem jsaRaw_swap (J : JSetup ℝ) (nodes : List (ℝ × ℝ)) (scale ωs ωi : ℝ)
    (g : ∀ p ∈ nodes, Good J.toSetup ωs ωi p.1) :
    jsaRaw J.swap nodes scale ωi ωs = jsaRaw J nodes scale ωs ωi :=
  jsaRaw_swap' J nodes scale ωs ωi g

/-- T4a. `jsi_normalization` is exchange symmetric. -/
theorem norm_swap (J : JSetup ℝ) (ωs ωi : ℝ) :
    jsiNormalization J.swap.normIn J.swap.sig J.swap.idl ωi ωs
      = jsiNormalization J.normIn J.sig J.idl ωs ωi :=
  jsiNormalization_swap J.normIn J.sig J.idl ωs ωi

/-- T4b. `JointSpectrum::jsa` — exact equality over ℝ (stronger than the stated 1e-6), in
magnitude and phase. -/
theorem jsa_swap (J : JSetup ℝ) (nodes : List (ℝ × ℝ)) (scale ωs ωi : ℝ)
    (g : ∀ p ∈ nodes, Good J.toSetup ωs ωi p.1) :
    jsa J.swap nodes scale ωi ωs = jsa J nodes scale ωs ωi := by
  unfold jsa jsaOfRaw
  rw [jsaRaw_swap J nodes scale ωs ωi g, norm_swap]

/-- T4c. `JointSpectrum::jsi`. -/
theorem jsi_swap (J : JSetup ℝ) (nodes : List (ℝ × ℝ)) (scale ωs ωi : ℝ)
    (g : ∀ p ∈ nodes, Good J.toSetup ωs ωi p.1) :
    jsi J.swap nodes scale ωi ωs = jsi J nodes scale ωs ωi := by
  unfold jsi jsiOfRaw
  rw [jsaRaw_swap J nodes scale ωs ωi g, norm_swap]

/-- T4d. `get_counts_correction` is exchange symmetric (signal and idler group indices enter as a
product). -/
theorem countsCorrection_swap (lp ls li ns ni np ngs ngi : ℝ) :
    countsCorrection lp li ls ni ns np ngi ngs = countsCorrection lp ls li ns ni np ngs ngi := by
  simp only [countsCorrection, lit_four]
  ring

/-- T4e. Coincidence rates are invariant: the rate of the exchanged setup over the exchanged grid
(visited in any order) equals the rate of the setup over the grid. -/
theorem rate_swap (J : JSetup ℝ) (nodes : List (ℝ × ℝ)) (scale corr dw2 : ℝ)
    (grid grid' : List (ℝ × ℝ)) (hperm : grid'.Perm (grid.map Prod.swap))
    (g : ∀ q ∈ grid, ∀ p ∈ nodes, Good J.toSetup q.1 q.2 p.1) :
    countsSum corr dw2 grid' (jsi J.swap nodes scale) = countsSum corr dw2 grid (jsi J nodes scale) := by
  unfold countsSum
  rw [sumList_eq, sumList_eq]
  have h : (grid'.map fun p => jsi J.swap nodes scale p.1 p.2 * dw2).sum
      = (grid.map fun p => jsi J nodes scale p.1 p.2 * dw2).sum := by
    rw [(hperm.map _).sum_eq, List.map_map]
    apply congrArg List.sum
    apply List.map_congr_left
    intro q hq
    simp only [Function.comp, Prod.fst_swap, Prod.snd_swap]
    rw [jsi_swap J nodes scale q.1 q.2 (g q hq)]
  rw [h]

/-- T5. The idler singles spectrum of a setup is, as coded (`jsi_singles_idler_range`,
`counts_singles_idler`), the signal singles spectrum of the exchanged setup with the arguments
exchanged — for every singles phase-matching function `sr`; and the idler singles rate of `J` over
`grid` is the signal singles rate of `swap J` over the exchanged grid (same correction factor by
T4d). -/
theorem idler_singles_def (sr : Setup ℝ → ℝ → ℝ → ℝ) (J : JSetup ℝ) (ωs ωi corr dw2 : ℝ)
    (grid grid' : List (ℝ × ℝ)) (hperm : grid'.Perm (grid.map Prod.swap)) :
    jsiSinglesIdler sr J ωs ωi = jsiSingles sr J.swap ωi ωs
      ∧ countsSum corr dw2 grid (jsiSinglesIdler sr J)
          = countsSum corr dw2 grid' (jsiSingles sr J.swap) := by
  refine ⟨rfl, ?_⟩
  unfold countsSum
  rw [sumList_eq, sumList_eq]
  have h : (grid'.map fun p => jsiSingles sr J.swap p.1 p.2 * dw2).sum
      = (grid.map fun p => jsiSinglesIdler sr J p.1 p.2 * dw2).sum := by
    rw [(hperm.map _).sum_eq, List.map_map]
    rfl
  rw [h]

/-- T6a. The exchange is an involution. -/
theorem swap_involutive (J : JSetup ℝ) : J.swap.swap = J ∧ J.toSetup.swap.swap = J.toSetup :=
  ⟨JSetup.swap_swap J, Setup.swap_swap J.toSetup⟩

/-- T6b. `PMType::inverse` exchanges the signal and idler polarisations, keeps the pump's, and is
an involution (complete finite table). -/
theorem pmtype_inverse_table (t : PMType) :
    t.inverse.signalPol = t.idlerPol ∧ t.inverse.idlerPol = t.signalPol
      ∧ t.inverse.pumpPol = t.pumpPol ∧ t.inverse.inverse = t := by
  cases t <;> decide

/-- T6c. In the exchanged setup the new signal is the old idler (beam, waist position, index
function) and vice versa; nothing else changes but the phase-matching type. -/
theorem swap_fields (S : Setup ℝ) :
    S.swap.sig = S.idl ∧ S.swap.idl = S.sig ∧ S.swap.pm = S.pm.inverse ∧ S.swap.L = S.L
      ∧ S.swap.wpx = S.wpx ∧ S.swap.wpy = S.wpy ∧ S.swap.nP = S.nP ∧ S.swap.rho = S.rho
      ∧ S.swap.keff = S.keff ∧ S.swap.apod = S.apod :=
  ⟨rfl, rfl, rfl, rfl, rfl, rfl, rfl, rfl, rfl, rfl⟩

/-! ### non-vacuity: the guard is satisfiable, with asymmetric coefficients -/

/-- an asymmetric coefficient set -/
def exA : Coef ℝ :=
  ⟨⟨-1, 1⟩, ⟨-2, 0⟩, ⟨-3, 1⟩, ⟨-1, 2⟩, ⟨1, 1⟩, ⟨0, 1⟩, ⟨2, 0⟩, ⟨-1, 0⟩, ⟨-1, 1⟩, ⟨0, 5⟩⟩

/-- it satisfies the guard -/
example : exA.Good := by
  constructor
  · intro h; have := congrArg Complex.re h; simp [exA, Cx.toC] at this
  · intro h; have := congrArg Complex.re h; simp [exA, Cx.toC] at this
  · intro h; have := congrArg Complex.re h; simp [exA, Cx.toC] at this
  · intro h; have := congrArg Complex.re h; simp [exA, Cx.toC] at this
  · rw [denom1_toC]; intro h; have := congrArg Complex.re h; simp [exA, Cx.toC] at this
    norm_num at this
  · rw [denom2_toC]; intro h; have := congrArg Complex.re h; simp [exA, Cx.toC] at this

end Spdc.Props.C06
