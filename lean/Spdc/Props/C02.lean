import Spdc.Real.Index
/-!
# C02 — the index along a direction is the Fresnel wave-normal solution per polarisation; walk-off

Property theorems only (helper lemmas live in `Spdc/Real/Index.lean`).  All statements are about the
ℝ-instance of the executable model `Spdc/Model/Index.lean`, whose Float instance is compared with
`CrystalSetup::index_along`, `to_crystal_frame`, `roots::find_roots_quadratic`, `derivative_at` and
`Beam::walkoff_angle` on every check run.  Principal indices are arbitrary positive reals (C01 shows
the built-in crystals' indices lie in (1,4) on their windows).
-/
namespace Spdc.Props.C02
open Spdc Spdc.Index

/-- T1a. The discriminant of eq. (11) is non-negative for every unit direction (squared direction
cosines `u,v,w ≥ 0`, `u+v+w = 1`) and *any* real `bᵢ = 1/nᵢ²`. -/
theorem fresnel_disc_nonneg (u v w bx b_y bz : ℝ) (hu : 0 ≤ u) (hv : 0 ≤ v) (hw : 0 ≤ w)
    (h1 : u + v + w = 1) :
    0 ≤ fresnelB ⟨u, v, w⟩ ⟨bx, b_y, bz⟩ * fresnelB ⟨u, v, w⟩ ⟨bx, b_y, bz⟩
          - 4 * fresnelC ⟨u, v, w⟩ ⟨bx, b_y, bz⟩ := by
  rw [fresnelB_eq, fresnelC_eq]
  exact disc_nonneg_aux u v w bx b_y bz hu hv hw h1

/-- T1b. Both "return 0" exits of `index_along` are unreachable in exact arithmetic: the root finder
never reports `Roots::No`, and the selected `1/n²` is strictly positive. -/
theorem index_exits_unreachable (n : Vec3 ℝ) (hx : 0 < n.x) (hy : 0 < n.y) (hz : 0 < n.z)
    (θ φ : ℝ) (d : Vec3 ℝ) (hd : d.normSq = 1) (pol : Pol) :
    let s2 := sqVec (toCrystalFrame θ φ d)
    let r := quadRoots (1.0 : ℝ) (fresnelB s2 (invSq n)) (fresnelC s2 (invSq n))
    r ≠ Roots.no ∧ ∃ x, pickInvSq r pol none = some x ∧ 0 < x := by
  intro s2 r
  have hs : (toCrystalFrame θ φ d).normSq = 1 := by rw [toCrystalFrame_normSq, hd]
  have h := frameData n _ hx hy hz hs
  have hp := pick_eq_spec _ _ h.disc_nonneg pol none
  refine ⟨?_, _, hp, h.spec_pos hx hy hz pol⟩
  intro hno
  simp only [r, s2] at hno
  rw [hno] at hp
  simp [pickInvSq] at hp

/-- T1c (refinement). Over ℝ the faithful form of `index_along` — both the repaired code and the
pinned tree's variant that returns 0 for `Roots::No` — equals the closed-form spec, and so does the\nclamped evaluation of the spec that the driver runs in Float. -/
theorem indexAlong_refines_spec (n : Vec3 ℝ) (hx : 0 < n.x) (hy : 0 < n.y) (hz : 0 < n.z)
    (θ φ : ℝ) (d : Vec3 ℝ) (hd : d.normSq = 1) (pol : Pol) :
    indexAlong n θ φ d pol = indexAlongSpec n θ φ d pol ∧
    indexAlongPinned n θ φ d pol = indexAlongSpec n θ φ d pol ∧
    indexAlongSpecClamped n θ φ d pol = indexAlongSpec n θ φ d pol := by
  have hs : (toCrystalFrame θ φ d).normSq = 1 := by rw [toCrystalFrame_normSq, hd]
  refine ⟨?_, ?_, ?_⟩
  · exact indexFromFrame_eq_spec n _ hx hy hz hs pol
  swap
  · have h := frameData n _ hx hy hz hs
    simp only [indexAlongSpecClamped, indexAlongSpec, indexFromFrameSpec]
    rw [specInvSqClamped_eq _ _ h.disc_nonneg]
  · have h := frameData n _ hx hy hz hs
    simp only [indexAlongPinned, indexAlongSpec, indexFromFrameSpec]
    rw [pick_eq_spec _ _ h.disc_nonneg]
    simp only [finishIndex, lit_zero]
    rw [if_neg (not_lt.mpr (specInvSq_nonneg _ _ h.B_nonneg h.C_nonneg pol))]

/-- T2. `x = 1/N²` for the two returned indices are solutions of Fresnel's wave-normal equation
`Σ sᵢ²/(x − 1/nᵢ²) = 0` (denominators cleared; `fresnel_fraction_form` gives the fraction form away
from the poles) and there are no other solutions. -/
theorem roots_are_fresnel (n : Vec3 ℝ) (hx : 0 < n.x) (hy : 0 < n.y) (hz : 0 < n.z)
    (θ φ : ℝ) (d : Vec3 ℝ) (hd : d.normSq = 1) :
    let s2 := sqVec (toCrystalFrame θ φ d)
    let N := fun pol => indexAlong n θ φ d pol
    (∀ pol, fresnelCleared s2 (invSq n) (1 / (N pol * N pol)) = 0) ∧
    (∀ x, fresnelCleared s2 (invSq n) x = 0 →
      x = 1 / (N .ordinary * N .ordinary) ∨ x = 1 / (N .extraordinary * N .extraordinary)) := by
  intro s2 N
  have hs : (toCrystalFrame θ φ d).normSq = 1 := by rw [toCrystalFrame_normSq, hd]
  have h := frameData n _ hx hy hz hs
  have hN : ∀ pol, 1 / (N pol * N pol)
      = specInvSq (fresnelB s2 (invSq n)) (fresnelC s2 (invSq n)) pol := by
    intro pol
    simp only [N, indexAlong]
    rw [indexFromFrame_eq_spec n _ hx hy hz hs pol, indexFromFrameSpec_eq]
    exact recip_sq_index _ (h.spec_pos hx hy hz pol)
  have hfac := fresnelCleared_factor s2 (invSq n) h.sum h.disc_nonneg
  constructor
  · intro pol
    rw [hfac, hN]
    cases pol <;> simp
  · intro x hx0
    rw [hfac] at hx0
    rcases mul_eq_zero.mp hx0 with h0 | h0
    · left; rw [hN]; linarith
    · right; rw [hN]; linarith

/-- T3. `ordinary` is the slow (larger) and `extraordinary` the fast (smaller) index; both lie
between the smallest and the largest principal index, hence are positive. -/
theorem slow_fast (n : Vec3 ℝ) (hx : 0 < n.x) (hy : 0 < n.y) (hz : 0 < n.z)
    (θ φ : ℝ) (d : Vec3 ℝ) (hd : d.normSq = 1) :
    indexAlong n θ φ d .extraordinary ≤ indexAlong n θ φ d .ordinary ∧
    ∀ pol,
      (∀ m, 0 < m → m ≤ n.x → m ≤ n.y → m ≤ n.z → m ≤ indexAlong n θ φ d pol) ∧
      (∀ M, n.x ≤ M → n.y ≤ M → n.z ≤ M → indexAlong n θ φ d pol ≤ M) ∧
      0 < indexAlong n θ φ d pol := by
  have hs : (toCrystalFrame θ φ d).normSq = 1 := by rw [toCrystalFrame_normSq, hd]
  have e : ∀ pol, indexAlong n θ φ d pol = indexFromFrameSpec n (toCrystalFrame θ φ d) pol :=
    fun pol => indexFromFrame_eq_spec n _ hx hy hz hs pol
  refine ⟨?_, fun pol => ⟨?_, ?_, ?_⟩⟩
  · rw [e, e]; exact indexFromFrameSpec_order n _ hx hy hz hs
  · intro m hm mx my mz; rw [e]; exact indexFromFrameSpec_ge n _ hx hy hz hs pol m hm mx my mz
  · intro M mx my mz; rw [e]; exact indexFromFrameSpec_le n _ hx hy hz hs pol M mx my mz
  · rw [e]
    have hm : 0 < min n.x (min n.y n.z) := lt_min hx (lt_min hy hz)
    exact lt_of_lt_of_le hm (indexFromFrameSpec_ge n _ hx hy hz hs pol _ hm (min_le_left _ _)
      (le_trans (min_le_right _ _) (min_le_left _ _)) (le_trans (min_le_right _ _) (min_le_right _ _)))

/-- T4. Only the squared direction cosines enter: the index is unchanged when the (lab) direction is
reversed and when the crystal-frame direction is mirrored in any principal plane. -/
theorem reverse_mirror_invariant (n : Vec3 ℝ) (θ φ : ℝ) (d s : Vec3 ℝ) (pol : Pol) :
    indexAlong n θ φ ⟨-d.x, -d.y, -d.z⟩ pol = indexAlong n θ φ d pol ∧
    indexFromFrame n ⟨-s.x, s.y, s.z⟩ pol = indexFromFrame n s pol ∧
    indexFromFrame n ⟨s.x, -s.y, s.z⟩ pol = indexFromFrame n s pol ∧
    indexFromFrame n ⟨s.x, s.y, -s.z⟩ pol = indexFromFrame n s pol := by
  refine ⟨?_, ?_, ?_, ?_⟩
  · have : sqVec (toCrystalFrame θ φ ⟨-d.x, -d.y, -d.z⟩) = sqVec (toCrystalFrame θ φ d) := by
      rw [toCrystalFrame_eq, toCrystalFrame_eq]
      simp only [sqVec, Vec3.mk.injEq]
      refine ⟨?_, ?_, ?_⟩ <;> ring
    simp only [indexAlong, indexFromFrame, this]
  · simp only [indexFromFrame, sqVec, neg_mul_neg]
  · simp only [indexFromFrame, sqVec, neg_mul_neg]
  · simp only [indexFromFrame, sqVec, neg_mul_neg]

/-- T5. Uniaxial crystals (`n_x = n_y = n_o`, `n_z = n_e`): the quadratic factors as
`(x − 1/n_o²)(x − (w/n_o² + (1−w)/n_e²))`; one polarisation returns `n_o` for every direction, the
other obeys `1/n² = cos²ψ/n_o² + sin²ψ/n_e²` with `ψ` the angle from the optic axis; which is which
follows the sign of the birefringence. -/
theorem uniaxial_factor (no ne : ℝ) (hno : 0 < no) (hne : 0 < ne) (s : Vec3 ℝ) (hs : s.normSq = 1)
    (ψ : ℝ) (hψ : s.z = Real.cos ψ) :
    (∀ x, fresnelCleared (sqVec s) (invSq ⟨no, no, ne⟩) x
        = (x - 1 / (no * no)) * (x - ((sqVec s).z * (1 / (no * no)) + (1 - (sqVec s).z) * (1 / (ne * ne))))) ∧
    (ne ≤ no → indexFromFrame ⟨no, no, ne⟩ s .ordinary = no ∧
               indexFromFrame ⟨no, no, ne⟩ s .extraordinary = uniaxialIndex no ne ψ) ∧
    (no ≤ ne → indexFromFrame ⟨no, no, ne⟩ s .ordinary = uniaxialIndex no ne ψ ∧
               indexFromFrame ⟨no, no, ne⟩ s .extraordinary = no) := by
  have h := frameData ⟨no, no, ne⟩ s hno hno hne hs
  have hb : invSq (⟨no, no, ne⟩ : Vec3 ℝ) = ⟨1 / (no * no), 1 / (no * no), 1 / (ne * ne)⟩ := by
    simp only [invSq, lit_one]
  have hsum : (sqVec s).x + (sqVec s).y + (sqVec s).z = 1 := h.sum
  obtain ⟨hord, hext⟩ := uniaxial_spec (sqVec s) (1 / (no * no)) (1 / (ne * ne)) hsum
  have hbt := btheta_angle s no ne ψ hψ
  have hw1 : (sqVec s).z ≤ 1 := by have := h.u; have := h.v; linarith
  have hw0 : 0 ≤ (sqVec s).z := h.w
  have hI : ∀ pol, indexFromFrame ⟨no, no, ne⟩ s pol = 1 / Real.sqrt (specInvSq
      (fresnelB (sqVec s) ⟨1 / (no * no), 1 / (no * no), 1 / (ne * ne)⟩)
      (fresnelC (sqVec s) ⟨1 / (no * no), 1 / (no * no), 1 / (ne * ne)⟩) pol) := by
    intro pol
    rw [indexFromFrame_eq_spec _ s hno hno hne hs pol, indexFromFrameSpec_eq, hb]
  refine ⟨?_, ?_, ?_⟩
  · intro x
    have hd := h.disc_nonneg
    rw [hb] at hd
    rw [hb, fresnelCleared_factor _ _ hsum hd, hord, hext]
    rcases le_total (1 / (no * no)) ((sqVec s).z * (1 / (no * no)) + (1 - (sqVec s).z) * (1 / (ne * ne))) with hle | hle
    · rw [min_eq_left hle, max_eq_right hle]
    · rw [min_eq_right hle, max_eq_left hle]; ring
  · intro hle
    have hbb : 1 / (no * no) ≤ 1 / (ne * ne) := recip_sq_le _ _ hne hle
    have hcmp : 1 / (no * no) ≤ (sqVec s).z * (1 / (no * no)) + (1 - (sqVec s).z) * (1 / (ne * ne)) := by
      nlinarith
    rw [hI, hI, hord, hext, min_eq_left hcmp, max_eq_right hcmp, hbt, uniaxialIndex_eq]
    exact ⟨one_div_sqrt_one_div_sq no hno, rfl⟩
  · intro hle
    have hbb : 1 / (ne * ne) ≤ 1 / (no * no) := recip_sq_le _ _ hno hle
    have hcmp : (sqVec s).z * (1 / (no * no)) + (1 - (sqVec s).z) * (1 / (ne * ne)) ≤ 1 / (no * no) := by
      nlinarith
    rw [hI, hI, hord, hext, min_eq_right hcmp, max_eq_left hcmp, hbt, uniaxialIndex_eq]
    exact ⟨rfl, one_div_sqrt_one_div_sq no hno⟩

/-- T6. A pump along lab `z` has crystal-frame polar angles exactly `(θ, φ)`, and the rotation into
the crystal frame preserves the norm. -/
theorem frame_of_z (θ φ : ℝ) :
    toCrystalFrame θ φ ⟨0, 0, 1⟩
      = ⟨Real.sin θ * Real.cos φ, Real.sin θ * Real.sin φ, Real.cos θ⟩ ∧
    ∀ v : Vec3 ℝ, (toCrystalFrame θ φ v).normSq = v.normSq := by
  refine ⟨?_, toCrystalFrame_normSq θ φ⟩
  rw [toCrystalFrame_eq]
  simp only [Vec3.mk.injEq]
  refine ⟨?_, ?_, ?_⟩ <;> ring

/-- T7. Exact walk-off for uniaxial crystals and a beam along `z` (crystal angle = angle from the
optic axis): for the direction-dependent polarisation `n(θ)` is differentiable in the crystal angle
with `−n′/n = ½ n² (1/n_e² − 1/n_o²) sin 2θ`, so `atan(−n′/n) = walkoffExact`; for the other
polarisation the index is constant (`n′ = 0`, walk-off 0). -/
theorem walkoff_uniaxial (no ne : ℝ) (hno : 0 < no) (hne : 0 < ne) (θ φ : ℝ) (dep indep : Pol)
    (hpol : (ne ≤ no ∧ dep = .extraordinary ∧ indep = .ordinary) ∨
            (no ≤ ne ∧ dep = .ordinary ∧ indep = .extraordinary)) :
    let f := fun t => indexAlong ⟨no, no, ne⟩ t φ ⟨0, 0, 1⟩ dep
    let g := fun t => indexAlong ⟨no, no, ne⟩ t φ ⟨0, 0, 1⟩ indep
    (∃ n', HasDerivAt f n' θ ∧
      -n' / f θ = 1 / 2 * (f θ * f θ) * (1 / (ne * ne) - 1 / (no * no)) * Real.sin (2 * θ) ∧
      Real.arctan (-n' / f θ) = walkoffExact no ne θ) ∧
    HasDerivAt g 0 θ ∧ Real.arctan (-0 / g θ) = 0 := by
  intro f g
  have key : ∀ t, indexAlong ⟨no, no, ne⟩ t φ ⟨0, 0, 1⟩ dep = uniaxialIndex no ne t ∧
      indexAlong ⟨no, no, ne⟩ t φ ⟨0, 0, 1⟩ indep = no := by
    intro t
    have hz := (frame_of_z t φ).1
    have hs : (toCrystalFrame t φ ⟨0, 0, 1⟩).normSq = 1 := by
      rw [toCrystalFrame_normSq]; simp [Vec3.normSq, Vec3.dot]
    have hψ : (toCrystalFrame t φ ⟨0, 0, 1⟩).z = Real.cos t := by rw [hz]
    obtain ⟨_, h1, h2⟩ := uniaxial_factor no ne hno hne _ hs t hψ
    rcases hpol with ⟨hle, rfl, rfl⟩ | ⟨hle, rfl, rfl⟩
    · exact ⟨(h1 hle).2, (h1 hle).1⟩
    · exact ⟨(h2 hle).1, (h2 hle).2⟩
  have hf : f = uniaxialIndex no ne := funext fun t => (key t).1
  have hg : g = fun _ => no := funext fun t => (key t).2
  have hpos : 0 < uniaxialIndex no ne θ := by
    rw [uniaxialIndex_eq]
    exact one_div_pos.mpr (Real.sqrt_pos.mpr (uniaxial_g_pos no ne θ hno hne))
  refine ⟨⟨-(uniaxialIndex no ne θ) * (1 / 2 * (uniaxialIndex no ne θ * uniaxialIndex no ne θ) *
        (1 / (ne * ne) - 1 / (no * no)) * Real.sin (2 * θ)), ?_, ?_, ?_⟩, ?_, ?_⟩
  · rw [hf]; exact uniaxialIndex_hasDerivAt no ne θ hno hne
  · rw [hf]; field_simp
  · rw [hf]
    have : -(-(uniaxialIndex no ne θ) * (1 / 2 * (uniaxialIndex no ne θ * uniaxialIndex no ne θ) *
        (1 / (ne * ne) - 1 / (no * no)) * Real.sin (2 * θ))) / uniaxialIndex no ne θ
        = 1 / 2 * (uniaxialIndex no ne θ * uniaxialIndex no ne θ) *
        (1 / (ne * ne) - 1 / (no * no)) * Real.sin (2 * θ) := by
      field_simp
    rw [this]
    simp only [walkoffExact, Transc.atan, Transc.sin, lit_half, lit_one, lit_two]
  · rw [hg]; exact hasDerivAt_const θ no
  · simp

/-- T7b. The exact walk-off carries the sign of `n_o − n_e` on `(0, π/2)` and vanishes at `π/2`
(and at 0). -/
theorem walkoff_sign (no ne : ℝ) (hno : 0 < no) (hne : 0 < ne) (θ : ℝ) (h0 : 0 < θ)
    (h1 : θ < Real.pi / 2) :
    (0 < walkoffExact no ne θ ↔ ne < no) ∧ (walkoffExact no ne θ < 0 ↔ no < ne) ∧
    walkoffExact no ne (Real.pi / 2) = 0 ∧ walkoffExact no ne 0 = 0 := by
  have hn : 0 < uniaxialIndex no ne θ * uniaxialIndex no ne θ := by
    have : 0 < uniaxialIndex no ne θ := by
      rw [uniaxialIndex_eq]
      exact one_div_pos.mpr (Real.sqrt_pos.mpr (uniaxial_g_pos no ne θ hno hne))
    positivity
  have hsin : 0 < Real.sin (2 * θ) := Real.sin_pos_of_pos_of_lt_pi (by linarith) (by linarith)
  have hk : 0 < 1 / 2 * (uniaxialIndex no ne θ * uniaxialIndex no ne θ) := by positivity
  have hdiff : (0 < 1 / (ne * ne) - 1 / (no * no) ↔ ne < no) := by
    rw [sub_pos, one_div_lt_one_div (by positivity) (by positivity)]
    constructor
    · intro h; by_contra hc; rw [not_lt] at hc; nlinarith
    · intro h; nlinarith
  have hdiff' : (1 / (ne * ne) - 1 / (no * no) < 0 ↔ no < ne) := by
    rw [sub_neg, one_div_lt_one_div (by positivity) (by positivity)]
    constructor
    · intro h; by_contra hc; rw [not_lt] at hc; nlinarith
    · intro h; nlinarith
  have hw : walkoffExact no ne θ = Real.arctan (1 / 2 * (uniaxialIndex no ne θ * uniaxialIndex no ne θ) *
      (1 / (ne * ne) - 1 / (no * no)) * Real.sin (2 * θ)) := by
    simp only [walkoffExact, Transc.atan, Transc.sin, lit_half, lit_one, lit_two]
  refine ⟨?_, ?_, ?_, ?_⟩
  · rw [hw, Real.arctan_pos, ← hdiff]
    constructor
    · intro h
      by_contra hc; rw [not_lt] at hc
      have := mul_nonpos_of_nonneg_of_nonpos hk.le hc
      have := mul_nonpos_of_nonpos_of_nonneg this hsin.le
      linarith
    · intro h; positivity
  · rw [hw, Real.arctan_lt_zero, ← hdiff']
    constructor
    · intro h
      by_contra hc; rw [not_lt] at hc
      have := mul_nonneg (mul_nonneg hk.le hc) hsin.le
      linarith
    · intro h
      have := mul_neg_of_pos_of_neg hk h
      exact mul_neg_of_neg_of_pos this hsin
  · simp only [walkoffExact, Transc.atan, Transc.sin, lit_two]
    rw [show 2 * (Real.pi / 2) = Real.pi by ring, Real.sin_pi, mul_zero, Real.arctan_zero]
  · simp only [walkoffExact, Transc.atan, Transc.sin, lit_two]
    rw [mul_zero, Real.sin_zero, mul_zero, Real.arctan_zero]

/-- The coded walk-off (central difference, two `assert!`s) never panics in exact arithmetic, and its
denominator `n(θ)` is positive. -/
theorem walkoff_no_panic (n : Vec3 ℝ) (hx : 0 < n.x) (hy : 0 < n.y) (hz : 0 < n.z)
    (θ φ : ℝ) (d : Vec3 ℝ) (hd : d.normSq = 1) (pol : Pol) :
    (∃ ρ, walkoff n θ φ d pol = .ok ρ) ∧ 0 < indexAlong n θ φ d pol := by
  refine ⟨?_, ((slow_fast n hx hy hz θ φ d hd).2 pol).2.2⟩
  simp only [walkoff, derivativeAt, isFinite, sub_self, lit_zero, beq_self_eq_true, Bool.not_true,
    Bool.false_eq_true, if_false, Outcome.map]
  exact ⟨_, rfl⟩

/-! ### non-vacuity -/

/-- the hypotheses are satisfiable: BBO-like indices, a tilted crystal, a non-axial direction -/
example : ∃ (n : Vec3 ℝ) (d : Vec3 ℝ), 0 < n.x ∧ 0 < n.y ∧ 0 < n.z ∧ d.normSq = 1 ∧ d.x ≠ 0 :=
  ⟨⟨1.66, 1.66, 1.54⟩, ⟨3/5, 0, 4/5⟩, by norm_num, by norm_num, by norm_num,
    by simp [Vec3.normSq, Vec3.dot]; norm_num, by norm_num⟩

/-- T5 instantiated: a direction 60° from the optic axis of a negative uniaxial crystal -/
example : indexFromFrame (⟨1.66, 1.66, 1.54⟩ : Vec3 ℝ) ⟨Real.sin (Real.pi / 3), 0, Real.cos (Real.pi / 3)⟩ .ordinary = 1.66 := by
  have h := uniaxial_factor 1.66 1.54 (by norm_num) (by norm_num)
    ⟨Real.sin (Real.pi / 3), 0, Real.cos (Real.pi / 3)⟩
    (by simp only [Vec3.normSq, Vec3.dot]; nlinarith [Real.sin_sq_add_cos_sq (Real.pi / 3)])
    (Real.pi / 3) rfl
  exact (h.2.1 (by norm_num)).1

end Spdc.Props.C02
