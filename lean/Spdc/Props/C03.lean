import Spdc.Real.DeltaK
import Spdc.Real.ComposeLemmas
/-!
# C03 — phase mismatch is `kp − ks − ki − kΛ`; the optimum idler conserves energy and momentum

Property theorems only (helper lemmas: `Spdc/Real/DeltaK.lean`).  All statements are about the
ℝ-instance of `Spdc/Model/DeltaK.lean`, whose `Float` instance is compared bit-for-bit with
`spdcalc::delta_k` / `IdlerBeam::try_new_optimum` on every check.  The refractive indices
`n_p, n_s, n_i` are inputs (C01/C02's layer).
-/
namespace Spdc.Props.C03
open Spdc Spdc.DeltaK Real

/-! ## T1 — definition of the mismatch -/

/-- `delta_k = kp − ks − ki − k_eff ẑ`, each wave vector `n ω / c` along its direction -/
theorem deltaK_def (ds di dp : Vec3 ℝ) (ns ni np ws wi wp : ℝ) (pp : Poling ℝ) (ke : ℝ)
    (h : kEff pp = .ok ke) :
    deltaK ds di dp ns ni np ws wi wp pp = .ok
      ⟨np * wp / c0 * dp.x - ns * ws / c0 * ds.x - ni * wi / c0 * di.x,
       np * wp / c0 * dp.y - ns * ws / c0 * ds.y - ni * wi / c0 * di.y,
       np * wp / c0 * dp.z - ns * ws / c0 * ds.z - ni * wi / c0 * di.z - ke⟩ := by
  simp [deltaK, h, Outcome.map, wavevector, Vec3.sub, Vec3.smul, lit_zero, lit_one]

/-- zero without poling -/
theorem kEff_off : kEff (Poling.off : Poling ℝ) = .ok 0 := DeltaK.kEff_off

/-- `2π/Λ` carrying the poling sign -/
theorem kEff_on_pos (p : ℝ) (hp : 0 < p) :
    kEff (Poling.on p false) = .ok (2 * π / p) ∧ kEff (Poling.on p true) = .ok (-(2 * π / p)) := by
  constructor
  · rw [DeltaK.kEff_on false hp, signMul_eq]; simp
  · rw [DeltaK.kEff_on true hp, signMul_eq]; simp [div_neg]

/-- the mismatch is a value (no panic) exactly for positive stored periods -/
theorem deltaK_panic_iff (ds di dp : Vec3 ℝ) (ns ni np ws wi wp p : ℝ) (neg : Bool) :
    (deltaK ds di dp ns ni np ws wi wp (Poling.on p neg)).isPanic = true ↔ p ≤ 0 := by
  by_cases hp : 0 < p
  · simp [deltaK, DeltaK.kEff_on neg hp, Outcome.map, Outcome.isPanic, hp]
  · simp [deltaK, kEff, lit_zero, hp, Outcome.map, Outcome.isPanic, not_lt.mp hp]

/-! ## T2 — energy, polarization, azimuth, waist -/

/-- `1/λ_i = 1/λ_p − 1/λ_s` (the idler's `vacuum_wavelength()`) -/
theorem idler_energy (i : IdlerIn ℝ) (o : IdlerOut ℝ) (h : optimumIdler i = .ok o)
    (hlp : 0 < i.lp) :
    1 / wavelengthOfFreq o.omega = 1 / i.lp - 1 / i.ls := by
  obtain ⟨hlt, rfl⟩ := optimumIdler_ok h
  have hls : 0 < i.ls := hlp.trans hlt
  have hd : i.ls - i.lp ≠ 0 := (sub_pos.mpr hlt).ne'
  have hl : idlerLambda i.ls i.lp ≠ 0 := by
    simp only [idlerLambda]
    exact div_ne_zero (mul_ne_zero hls.ne' hlp.ne') hd
  show 1 / wavelengthOfFreq (freqOfWavelength (idlerLambda i.ls i.lp)) = _
  rw [wavelength_freq_roundtrip hl, idlerLambda]
  field_simp

/-- the polarization dictated by the phase-matching type (third letter of `p → s i`) -/
theorem idler_polarization (i : IdlerIn ℝ) (o : IdlerOut ℝ) (h : optimumIdler i = .ok o) :
    o.pol = i.pm.idlerPol ∧
      (o.pol = Pol.e ↔ (i.pm = PMType.t0_e_ee ∨ i.pm = PMType.t2_e_oe)) := by
  obtain ⟨-, rfl⟩ := optimumIdler_ok h
  refine ⟨rfl, ?_⟩
  cases hpm : i.pm <;> simp [PMType.idlerPol]

/-- azimuth opposite to the signal's: `φ_i ≡ φ_s + π (mod 2π)`, normalised to `[0, 2π)` -/
theorem idler_phi (i : IdlerIn ℝ) (o : IdlerOut ℝ) (h : optimumIdler i = .ok o) :
    (∃ n : ℤ, o.phi = i.phiS + π - 2 * π * n) ∧ 0 ≤ o.phi ∧ o.phi < 2 * π := by
  obtain ⟨-, rfl⟩ := optimumIdler_ok h
  obtain ⟨n1, h1, -, -⟩ := normalizeAngle_spec (i.phiS + π)
  obtain ⟨n2, h2, h3, h4⟩ := normalizeAngle_spec (normalizeAngle (i.phiS + π))
  refine ⟨⟨n1 + n2, ?_⟩, h3, h4⟩
  show normalizeAngle (normalizeAngle (i.phiS + π)) = _
  rw [h2, h1]; push_cast; ring

/-- the signal's waist -/
theorem idler_waist (i : IdlerIn ℝ) (o : IdlerOut ℝ) (h : optimumIdler i = .ok o) :
    o.wx = i.wx ∧ o.wy = i.wy := by
  obtain ⟨-, rfl⟩ := optimumIdler_ok h
  exact ⟨rfl, rfl⟩

/-! ## T3 — momentum -/

/-- the radicand of `try_new_optimum` is `‖(λ_s/2π)(kp − ks − kΛ ẑ)‖²` -/
theorem arg_eq_closing_norm_sq (ns np ls lp thetaS phiS : ℝ) (pp : Poling ℝ) :
    idlerArg ns np ls lp thetaS pp = (closingScaled ns np ls lp thetaS phiS pp).normSq :=
  idlerArg_eq ns np ls lp thetaS phiS pp

/-- `closingScaled` really is `(λ_s/2π)(kp − ks − kΛ ẑ)` for a pump along `ẑ` with
`ω = 2πc/λ` and the signal along `(θ_s, φ_s)` -/
theorem closingScaled_eq (ns np ls lp thetaS phiS : ℝ) (pp : Poling ℝ) (ke : ℝ)
    (hls : ls ≠ 0) (hlp : lp ≠ 0) (hke : kEff pp = .ok ke) :
    let ks := wavevector (dirFromPolar phiS thetaS) ns (freqOfWavelength ls)
    let kp := wavevector ⟨0, 0, 1⟩ np (freqOfWavelength lp)
    closingScaled ns np ls lp thetaS phiS pp =
      Vec3.smul (ls / (2 * π)) (Vec3.sub (Vec3.sub kp ks) ⟨0, 0, ke⟩) := by
  have hc : (c0 : ℝ) ≠ 0 := c0_pos.ne'
  have hpi : (π : ℝ) ≠ 0 := Real.pi_ne_zero
  have hk := kEff_eq_kpp hls pp hke
  simp only [closingScaled, wavevector, dirFromPolar_eq, freqOfWavelength_eq, Vec3.smul, Vec3.sub,
    tsin, tcos, hk, Vec3.mk.injEq]
  refine ⟨?_, ?_, ?_⟩ <;> field_simp <;> ring

/-- **momentum conservation**: forward signal of either sign (`|θ_s| < π/2`), no
counter-propagation, closing vector `c` pointing forward (`c_z ≥ 0`, `c ≠ 0`): the idler's direction
is exactly `c/‖c‖` -/
theorem idler_parallel_closing (i : IdlerIn ℝ) (o : IdlerOut ℝ) (h : optimumIdler i = .ok o)
    (hcp : i.cp = false) (h0 : -(π / 2) < i.thetaS) (h1 : i.thetaS < π / 2)
    (hz : 0 ≤ (closingScaled i.ns i.np i.ls i.lp i.thetaS i.phiS i.pp).z)
    (hc : 0 < (closingScaled i.ns i.np i.ls i.lp i.thetaS i.phiS i.pp).normSq) :
    o.dir = Vec3.smul (1 / Real.sqrt (closingScaled i.ns i.np i.ls i.lp i.thetaS i.phiS i.pp).normSq)
      (closingScaled i.ns i.np i.ls i.lp i.thetaS i.phiS i.pp) := by
  obtain ⟨-, rfl⟩ := optimumIdler_ok h
  have harg := idlerArg_eq i.ns i.np i.ls i.lp i.thetaS i.phiS i.pp
  set c := closingScaled i.ns i.np i.ls i.lp i.thetaS i.phiS i.pp with hcdef
  set N := Real.sqrt c.normSq with hN
  have hNpos : 0 < N := Real.sqrt_pos.mpr hc
  have hNsq : N ^ 2 = c.normSq := Real.sq_sqrt hc.le
  have hpi := Real.pi_pos
  -- ‖c‖² = (n_s sin θ_s)² + c_z²
  have hcn : c.normSq = (i.ns * Real.sin i.thetaS) ^ 2 + c.z ^ 2 := by
    have h2 := Real.sin_sq_add_cos_sq i.phiS
    simp only [hcdef, closingScaled, Vec3.normSq, Vec3.dot, tsin, tcos]
    linear_combination (i.ns ^ 2 * Real.sin i.thetaS ^ 2) * h2
  have habs : |i.ns * Real.sin i.thetaS| ≤ N := by
    rw [hN]; apply Real.abs_le_sqrt; rw [hcn]; nlinarith [sq_nonneg c.z]
  set v := i.ns * Real.sin i.thetaS / N with hv
  have hv0 : -1 ≤ v := by
    rw [hv, le_div_iff₀ hNpos]; linarith [(abs_le.mp habs).1]
  have hv1 : v ≤ 1 := (div_le_one hNpos).mpr (abs_le.mp habs).2
  have hth : idlerThetaRaw i = Real.arcsin v := by
    rw [idlerThetaRaw_forward hcp h0 h1, harg]
  have hth0 : -π < Real.arcsin v := by linarith [Real.neg_pi_div_two_le_arcsin v]
  have hth1 : Real.arcsin v ≤ π := (Real.arcsin_le_pi_div_two v).trans (by linarith)
  have hsinI : Real.sin (Real.arcsin v) = v := Real.sin_arcsin hv0 hv1
  have hcosI : Real.cos (Real.arcsin v) = c.z / N := by
    rw [Real.cos_arcsin]
    have : 1 - v ^ 2 = (c.z / N) ^ 2 := by
      rw [hv]; field_simp; rw [hNsq, hcn]; ring
    rw [this, Real.sqrt_sq (div_nonneg hz hNpos.le)]
  have hcosP : Real.cos (normalizeAngle (normalizeAngle (i.phiS + π))) = -Real.cos i.phiS := by
    rw [cos_normalizeAngle, cos_normalizeAngle, Real.cos_add_pi]
  have hsinP : Real.sin (normalizeAngle (normalizeAngle (i.phiS + π))) = -Real.sin i.phiS := by
    rw [sin_normalizeAngle, sin_normalizeAngle, Real.sin_add_pi]
  simp only [IdlerOut.dir, dirFromPolar_eq, hth, normalizeAngleSigned_of_mem' hth0 hth1, hsinI,
    hcosI, hcosP, hsinP, Vec3.smul, Vec3.mk.injEq]
  refine ⟨?_, ?_, ?_⟩
  · simp only [hcdef, closingScaled, tsin, tcos, hv]; ring
  · simp only [hcdef, closingScaled, tsin, tcos, hv]; ring
  · ring

/-- a collinear signal yields a collinear idler (for every poling) -/
theorem idler_collinear (i : IdlerIn ℝ) (o : IdlerOut ℝ) (h : optimumIdler i = .ok o)
    (hcp : i.cp = false) (hth : i.thetaS = 0) :
    o.theta = 0 ∧ o.dir = ⟨0, 0, 1⟩ := by
  obtain ⟨-, rfl⟩ := optimumIdler_ok h
  have hraw : idlerThetaRaw i = 0 := by
    rw [idlerThetaRaw_forward hcp (by rw [hth]; linarith [Real.pi_pos]) (by rw [hth]; positivity), hth]
    simp
  have h0 : normalizeAngleSigned (idlerThetaRaw i) = 0 := by
    rw [hraw]; exact normalizeAngleSigned_of_mem le_rfl Real.pi_pos.le
  refine ⟨h0, ?_⟩
  simp [IdlerOut.dir, dirFromPolar_eq, h0]

/-- the residual mismatch is parallel to the idler: with the idler along `c/‖c‖`,
`Δk = (‖kp − ks − kΛ ẑ‖ − n_i ω_i / c) · dir_i` -/
theorem deltaK_parallel_idler (i : IdlerIn ℝ) (o : IdlerOut ℝ) (h : optimumIdler i = .ok o)
    (hcp : i.cp = false) (h0 : -(π / 2) < i.thetaS) (h1 : i.thetaS < π / 2)
    (hlp : 0 < i.lp)
    (hz : 0 ≤ (closingScaled i.ns i.np i.ls i.lp i.thetaS i.phiS i.pp).z)
    (hc : 0 < (closingScaled i.ns i.np i.ls i.lp i.thetaS i.phiS i.pp).normSq)
    (ke : ℝ) (hke : kEff i.pp = .ok ke) (ni wi : ℝ) :
    deltaK (dirFromPolar i.phiS i.thetaS) o.dir ⟨0, 0, 1⟩ i.ns ni i.np
        (freqOfWavelength i.ls) wi (freqOfWavelength i.lp) i.pp =
      .ok (Vec3.smul
        (2 * π / i.ls * Real.sqrt (closingScaled i.ns i.np i.ls i.lp i.thetaS i.phiS i.pp).normSq
          - ni * wi / c0) o.dir) := by
  have hlt := (optimumIdler_ok h).1
  have hls : i.ls ≠ 0 := (hlp.trans hlt).ne'
  have hpar := idler_parallel_closing i o h hcp h0 h1 hz hc
  have hcl := closingScaled_eq i.ns i.np i.ls i.lp i.thetaS i.phiS i.pp ke hls hlp.ne' hke
  set c := closingScaled i.ns i.np i.ls i.lp i.thetaS i.phiS i.pp with hcdef
  set N := Real.sqrt c.normSq with hN
  have hNpos : 0 < N := Real.sqrt_pos.mpr hc
  have hpi : (π : ℝ) ≠ 0 := Real.pi_ne_zero
  have hc0 : (c0 : ℝ) ≠ 0 := c0_pos.ne'
  rw [deltaK_def _ _ _ _ _ _ _ _ _ _ ke hke, hpar]
  simp only at hcl
  -- components of c in terms of the wave vectors
  have hx : c.x = i.ls / (2 * π) * (i.np * freqOfWavelength i.lp / c0 * 0
      - i.ns * freqOfWavelength i.ls / c0 * (dirFromPolar i.phiS i.thetaS).x) := by
    rw [hcl]; simp [Vec3.smul, Vec3.sub, wavevector]
  have hy : c.y = i.ls / (2 * π) * (i.np * freqOfWavelength i.lp / c0 * 0
      - i.ns * freqOfWavelength i.ls / c0 * (dirFromPolar i.phiS i.thetaS).y) := by
    rw [hcl]; simp [Vec3.smul, Vec3.sub, wavevector]
  have hzc : c.z = i.ls / (2 * π) * (i.np * freqOfWavelength i.lp / c0 * 1
      - i.ns * freqOfWavelength i.ls / c0 * (dirFromPolar i.phiS i.thetaS).z - ke) := by
    rw [hcl]; simp [Vec3.smul, Vec3.sub, wavevector]
  simp only [Vec3.smul, Outcome.ok.injEq, Vec3.mk.injEq]
  refine ⟨?_, ?_, ?_⟩
  · rw [hx]; field_simp
  · rw [hy]; field_simp
  · rw [hzc]; field_simp; ring

/-! ## T4 — error -/

/-- an idler is refused exactly when the signal wavelength is not longer than the pump's;
the function never panics -/
theorem idler_err_iff (i : IdlerIn ℝ) :
    ((∃ m, optimumIdler i = .err m) ↔ i.ls ≤ i.lp) ∧ (optimumIdler i).isPanic = false := by
  by_cases hle : i.ls ≤ i.lp
  · rw [optimumIdler_of_le hle]
    exact ⟨⟨fun _ => hle, fun _ => ⟨_, rfl⟩⟩, rfl⟩
  · rw [optimumIdler_of_lt (not_le.mp hle)]
    refine ⟨⟨fun ⟨m, hm⟩ => (by cases hm), fun h => absurd h hle⟩, rfl⟩

/-! ## non-vacuity -/

/-- a concrete non-collinear, poled configuration satisfying the hypotheses of
`idler_parallel_closing` (BBO-like indices, 775 → 1550 nm, θ_s = −0.1, φ_s = 1, Λ = −20 µm) -/
example : ∃ i : IdlerIn ℝ, i.cp = false ∧ -(π / 2) < i.thetaS ∧ i.thetaS < π / 2 ∧ i.lp < i.ls ∧
    i.thetaS < 0 ∧ (∃ ke, kEff i.pp = .ok ke) ∧
    0 ≤ (closingScaled i.ns i.np i.ls i.lp i.thetaS i.phiS i.pp).z ∧
    0 < (closingScaled i.ns i.np i.ls i.lp i.thetaS i.phiS i.pp).normSq := by
  have hz : (0 : ℝ) < (closingScaled (1.6 : ℝ) 1.65 1550e-9 775e-9 (-0.1) 1 (.on 20e-6 true)).z := by
    have hcos := Real.cos_le_one (1 / 10 : ℝ)
    simp only [closingScaled, kpp, signMul_eq, tcos]
    norm_num
    linarith
  refine ⟨⟨.t2_e_eo, false, 1550e-9, 775e-9, 1.6, 1.65, -0.1, 1, .on 20e-6 true, 1e-4, 1e-4⟩,
    rfl, ?_, ?_, by norm_num, by norm_num, ?_, hz.le, ?_⟩
  · have := Real.one_le_pi_div_two; norm_num; linarith
  · have := Real.one_le_pi_div_two; norm_num; linarith
  · exact ⟨_, DeltaK.kEff_on true (by norm_num)⟩
  · simp only [Vec3.normSq, Vec3.dot]
    nlinarith [mul_self_nonneg (closingScaled (1.6 : ℝ) 1.65 1550e-9 775e-9 (-0.1) 1 (.on 20e-6 true)).x,
      mul_self_nonneg (closingScaled (1.6 : ℝ) 1.65 1550e-9 775e-9 (-0.1) 1 (.on 20e-6 true)).y,
      mul_pos hz hz]

/-! ## composed model

The theorems above take the refractive indices as inputs.  The theorems below are about the COMPOSED
model (`Spdc/Model/Compose.lean`), whose only inputs are the primitive setup `Compose.Setup`: the
indices are computed by the crystal layer (Sellmeier) and the index layer (Fresnel quadratic along the
beam direction in the crystal frame), the directions by the beam layer, `k_eff` by the poling layer.
Assumptions: the idler beam exists (`idlerBeam S = .ok i`: always for an explicit idler, `λ_p < λ_s`
for `"auto"`), `k_eff` does not panic (positive stored period). -/

/-- composed model, T1 lifted: `spdc.delta_k(ω_s, ω_i)` computed from the primitives is
`k_p − k_s − k_i − k_Λ ẑ` with every wave vector `n ω / c` along the beam's direction, the `n`'s being
the COMPOSED direction-dependent indices `index_along(get_indices(2πc/ω, T), θ_c, φ_c, dir, pol)`;
the pump points along `ẑ` and is evaluated at its own centre frequency `2πc/λ_p`. -/
theorem compose_deltaK_def (S : Compose.Setup ℝ) (i : Beam.Beam ℝ) (hi : Compose.idlerBeam S = .ok i)
    (ke : ℝ) (hk : Compose.kEff S = .ok ke) (ωs ωi : ℝ) :
    let s := Compose.signalBeam S
    let p := Compose.pumpBeam S
    let ωp := 2 * π * 299792458 / S.lamP
    let ns := Compose.refractiveIndex S s ωs
    let ni := Compose.refractiveIndex S i ωi
    let np := Compose.refractiveIndex S p ωp
    Compose.deltaK S ωs ωi = .ok
        ⟨-(ns * ωs / c0 * s.direction.x) - ni * ωi / c0 * i.direction.x,
         -(ns * ωs / c0 * s.direction.y) - ni * ωi / c0 * i.direction.y,
         np * ωp / c0 - ns * ωs / c0 * s.direction.z - ni * ωi / c0 * i.direction.z - ke⟩
      ∧ Compose.deltaK S ωs ωi = .ok
        (Vec3.sub (Vec3.sub (Vec3.sub (Compose.wavevector S p ωp) (Compose.wavevector S s ωs))
          (Compose.wavevector S i ωi)) ⟨0, 0, ke⟩) := by
  intro s p ωp ns ni np
  have hp : p.frequency = ωp := Compose.omegaP_formula S
  have hd : p.direction = ⟨0, 0, 1⟩ := Compose.pump_direction S
  have h1 : Compose.deltaK S ωs ωi = .ok
      ⟨np * ωp / c0 * p.direction.x - ns * ωs / c0 * s.direction.x - ni * ωi / c0 * i.direction.x,
       np * ωp / c0 * p.direction.y - ns * ωs / c0 * s.direction.y - ni * ωi / c0 * i.direction.y,
       np * ωp / c0 * p.direction.z - ns * ωs / c0 * s.direction.z - ni * ωi / c0 * i.direction.z - ke⟩ := by
    unfold Compose.deltaK
    rw [hi]
    simp only [Outcome.bind]
    rw [deltaK_def _ _ _ _ _ _ _ _ _ _ ke (Compose.kEff_ppDK_of_ok hk)]
    rw [show (Compose.pumpBeam S).frequency = ωp from hp]
  refine ⟨?_, ?_⟩
  · rw [h1, hd]; simp
  · rw [h1]
    simp only [Compose.wavevector, wavevector, Vec3.sub, Vec3.smul]
    congr 1
    simp only [hd]
    congr 1 <;> ring

/-- composed model, T2 lifted: for `"idler": "auto"` the idler computed by the composition conserves
energy in terms of the PRIMITIVE wavelengths, `1/λ_i = 1/λ_p − 1/λ_s`, equivalently
`ω_i + ω_s = ω_p`; it has the polarization of the PM table and keeps the configured idler waist. -/
theorem compose_idler_energy (S : Compose.Setup ℝ) (h : S.idlerAuto = true) (i : Beam.Beam ℝ)
    (hi : Compose.idlerBeam S = .ok i) (hp : 0 < S.lamP) (hs : 0 < S.sig.lam) :
    1 / Beam.vacuumWavelength i = 1 / S.lamP - 1 / S.sig.lam
      ∧ i.frequency + (Compose.signalBeam S).frequency = Compose.omegaP S
      ∧ i.polarization = Compose.polIndex S.pm.idlerPol
      ∧ i.waist.x = S.idl.wx ∧ i.waist.y = S.idl.wy := by
  obtain ⟨o, ho, rfl⟩ := Compose.idlerBeam_auto S h i hi
  have hlp : (Compose.idlerIn S).lp = S.lamP := Compose.pump_wavelength S hp.ne'
  have hls : (Compose.idlerIn S).ls = S.sig.lam := Compose.signal_wavelength S hs.ne'
  have he := idler_energy (Compose.idlerIn S) o ho (by rw [hlp]; exact hp)
  rw [hlp, hls, Compose.wavelengthOfFreq_units] at he
  obtain ⟨hlt, ho'⟩ := optimumIdler_ok ho
  rw [hlp, hls] at hlt
  refine ⟨he, ?_, ?_, rfl, rfl⟩
  · show o.omega + _ = _
    rw [ho']
    simp only [hlp, hls, Compose.signal_frequency, Compose.omegaP_eq, ← Compose.freqOfWavelength_units,
      freqOfWavelength_eq, idlerLambda]
    have hd : S.sig.lam - S.lamP ≠ 0 := (sub_pos.mpr hlt).ne'
    field_simp
    ring
  · show Compose.polOfDK o.pol = _
    rw [ho']
    exact Compose.pmDK_idlerPol S.pm

/-- non-vacuity of the composed statements: a poled setup with an `"auto"` idler -/
def exAuto : Compose.Setup ℝ where
  crystal := .KTP
  cTheta := 1.5
  cPhi := 0
  L := 0.01
  T := 293
  counterProp := false
  pm := .t2_e_eo
  lamP := 775e-9
  wpx := 1e-4
  wpy := 1e-4
  bandwidth := 1e-9
  power := 1
  threshold := 0.01
  deff := 1e-12
  sig := ⟨1500e-9, 0.01, 0, 5e-5, 5e-5, -0.003⟩
  idl := ⟨0, 0, 0, 6e-5, 6e-5, -0.002⟩
  idlerAuto := true
  poling := .on (-46e-6) .off

/-- its `k_eff` is a value, its primitive wavelengths are positive with `λ_p < λ_s`, and its idler
beam exists -/
example : Compose.kEff exAuto = .ok (Poling.twoPi * 1.0 / (46e-6 * -1.0))
    ∧ (0 : ℝ) < exAuto.lamP ∧ exAuto.lamP < exAuto.sig.lam ∧ exAuto.idlerAuto = true := by
  refine ⟨?_, by norm_num [exAuto], by norm_num [exAuto], rfl⟩
  simp only [Compose.kEff, Compose.pp, exAuto, Poling.PP.new, Poling.PP.kEff, Poling.Sign.mul]
  norm_num

end Spdc.Props.C03
