import Spdc.Real.TwoSrcLemmas
import Spdc.Real.ComposeGridLemmas
/-!
# C10 — two-source HOM visibility equals the heralded-photon purity

Property theorems only; all are about the executable model `Spdc.Hom.twoRate` /
`homTwoSourceSeries` / `twoSourceVisibilities` (eight flat grids, `get_2d_indices` /
`get_1d_index` permutations) at the ℝ instance.  Matrix form: `Fmat f n s i = f[i·n + s]`,
`G = FᴴF`.  Helper lemmas: `Spdc/Real/TwoSrcLemmas.lean`.
-/
namespace Spdc.Props.C10
open Spdc Spdc.Grid Spdc.Hom Spdc.HomLemmas Spdc.TwoSrcLemmas Matrix

/-- the `assert!(col < cols)` of `get_1d_index` cannot fail for a column obtained as a remainder,
so the model's plain index formula `idx1` is what the code computes -/
theorem idx1_never_panics (k row cols : Nat) (h : 0 < cols) :
    get1dIndex (k % cols) row cols = .ok (idx1 (k % cols) row cols) := by
  simp [get1dIndex, idx1, Nat.mod_lt _ h]

/-- the model panics exactly when one of the three `assert_eq!` on the step counts fails -/
theorem series_ok_iff (r1 r2 : Steps2D ℝ) (G : TwoSrc ℝ) (τs : List ℝ) :
    (homTwoSourceSeries r1 r2 G τs).isOk = true ↔
      (r1.x.n = r1.y.n ∧ r2.x.n = r2.y.n ∧ r1.x.n = r2.x.n) := by
  unfold homTwoSourceSeries
  split_ifs with h1 h2 h3 <;> simp_all [Outcome.isOk]

/-- T1. `ss_trace` and `ii_eq_ss`: two identical sources on one range (the six signal×idler grids
coincide), zero delay: `rate_ss = rate_ii = ½(1 − tr(G²)/tr(G)²)`. -/
theorem ss_trace (n : ℕ) (r1 r2 : Steps2D ℝ) (h1 : r1.len = n * n) (h2 : r2.len = n * n)
    (f P Q : Array (Cx ℝ)) (hf : f.size = n * n) (hN : jsiNorm f ≠ 0) :
    let Gm := (Fmat f n)ᴴ * Fmat f n
    (twoRate n r1 r2 (sixEq f P Q) 0).1 = 1 / 2 * (1 - (Gm * Gm).trace.re / (Gm.trace.re) ^ 2) ∧
      (twoRate n r1 r2 (sixEq f P Q) 0).2.1 = (twoRate n r1 r2 (sixEq f P Q) 0).1 := by
  intro Gm
  have hz := twoSum_zero_delay r1 r2 h1 h2 f P Q hf
  have htr : Gm.trace.re = jsiNorm f := by
    simp only [Gm, trace_gram_re f n hf, Complex.ofReal_re]
  rw [twoRate_eq]
  refine ⟨?_, ?_⟩
  · show (twoSum n r1 r2 (sixEq f P Q) 0).1 / 4 /
        (jsiNorm (sixEq f P Q).first_s1_i1 * jsiNorm (sixEq f P Q).second_s2_i2) = _
    rw [hz.1, htr]
    simp only [sixEq]
    field_simp
    ring
  · simp only [hz.2]

/-- T1 (visibilities). `twoSourceVisibilities` for identical sources returns
`V_ss = V_ii = tr(G²)/tr(G)²`. -/
theorem identical_visibilities (n : ℕ) (r : Steps2D ℝ) (hx : r.x.n = n) (hy : r.y.n = n)
    (f P Q : Array (Cx ℝ)) (hf : f.size = n * n) (hN : jsiNorm f ≠ 0) (δ1 δ2 δ3 : ℝ) :
    let Gm := (Fmat f n)ᴴ * Fmat f n
    ∃ vsi, twoSourceVisibilities true r r (sixEq f P Q) δ1 δ2 δ3 =
      .ok ((Gm * Gm).trace.re / (Gm.trace.re) ^ 2, (Gm * Gm).trace.re / (Gm.trace.re) ^ 2, vsi) := by
  intro Gm
  have hlen : r.len = n * n := by simp [Steps2D.len, hx, hy]
  have h := ss_trace n r r hlen hlen f P Q hf hN
  simp only at h
  refine ⟨visibilityOf (twoRate n r r (sixEq f P Q) 0).2.2, ?_⟩
  simp only [twoSourceVisibilities, if_true, homTwoSourceSeries, hx, hy, ne_eq, not_true_eq_false,
    if_false, Outcome.map, lit_zero]
  have e : ∀ T N : ℝ, 1 - 2 * (1 / 2 * (1 - T / N ^ 2)) = T / N ^ 2 := by intros; ring
  rw [h.2, h.1, visibilityOf_eq, e]

/-- T2. `purity_eigen`: `tr(G²)/tr(G)² = Σλ²/(Σλ)²` over the (non-negative) eigenvalues `λ = σ²` of
the Hermitian positive semi-definite `G = FᴴF`, i.e. `Σσ⁴/(Σσ²)²` over the singular values of the
complex amplitude matrix. -/
theorem purity_eigen (n : ℕ) (F : Matrix (Fin n) (Fin n) ℂ) :
    let hG := Matrix.isHermitian_conjTranspose_mul_self F
    (∀ i, 0 ≤ hG.eigenvalues i) ∧
      ((Fᴴ * F) * (Fᴴ * F)).trace.re / ((Fᴴ * F).trace.re) ^ 2 =
        (∑ i, (hG.eigenvalues i) ^ 2) / (∑ i, hG.eigenvalues i) ^ 2 := by
  intro hG
  refine ⟨fun i => Matrix.eigenvalues_conjTranspose_mul_self_nonneg F i, ?_⟩
  have h1 := hG.trace_eq_sum_eigenvalues
  have h2 := SchmidtLemmas.trace_mul_self_eq_sum_sq hG
  rw [h1, h2]
  congr 1
  · rw [Complex.re_sum]
    apply Finset.sum_congr rfl; intro i _
    show ((((hG.eigenvalues i : ℝ) : ℂ)) ^ 2).re = _
    rw [← Complex.ofReal_pow, Complex.ofReal_re]
  · rw [Complex.re_sum]
    congr 1

/-- the eight grids the code evaluates for two identical sources on one range: the six signal×idler
grids coincide; the other two live on (idler axis)² and (signal axis)² -/
theorem identical_sources_grids (J : ℝ → ℝ → Cx ℝ) (r : Steps2D ℝ) :
    twoSrcOf J J r r = sixEq (sampled J r) (sampled J ⟨r.y, r.y⟩) (sampled J ⟨r.x, r.x⟩) := rfl

/-- T1+T2 combined: for two identical sources (amplitude function `J`, any square range `r`, non-zero
spectrum) the model of `hom_two_source_visibilities` returns `V_ss = V_ii = Σλ²/(Σλ)² = Σσ⁴/(Σσ²)²`,
`λ = σ²` the eigenvalues of `FᴴF`, `F` the sampled complex amplitude matrix. -/
theorem visibility_eq_purity (J : ℝ → ℝ → Cx ℝ) (n : ℕ) (r : Steps2D ℝ) (hx : r.x.n = n)
    (hy : r.y.n = n) (hN : jsiNorm (sampled J r) ≠ 0) (δ1 δ2 δ3 : ℝ) :
    let hG := Matrix.isHermitian_conjTranspose_mul_self (Fmat (sampled J r) n)
    ∃ vsi, twoSourceVisibilities true r r (twoSrcOf J J r r) δ1 δ2 δ3 =
      .ok ((∑ i, (hG.eigenvalues i) ^ 2) / (∑ i, hG.eigenvalues i) ^ 2,
           (∑ i, (hG.eigenvalues i) ^ 2) / (∑ i, hG.eigenvalues i) ^ 2, vsi) := by
  intro hG
  have hs : (sampled J r).size = n * n := by rw [size_sampled]; simp [Steps2D.len, hx, hy]
  obtain ⟨vsi, hv⟩ := identical_visibilities n r hx hy (sampled J r) (sampled J ⟨r.y, r.y⟩)
    (sampled J ⟨r.x, r.x⟩) hs hN δ1 δ2 δ3
  refine ⟨vsi, ?_⟩
  rw [identical_sources_grids, hv, (purity_eigen n (Fmat (sampled J r) n)).2]

/-- T3. `ss_ii_mem_unit`: for identical spectra on identical ranges the signal–signal and
idler–idler rates lie in `[0, 1]` at every delay. -/
theorem ss_ii_mem_unit (n : ℕ) (r1 r2 : Steps2D ℝ) (h1 : r1.len = n * n) (h2 : r2.len = n * n)
    (f P Q : Array (Cx ℝ)) (hf : f.size = n * n) (hP : P.size = n * n) (hQ : Q.size = n * n)
    (hN : 0 < jsiNorm f) (δ : ℝ) :
    (0 ≤ (twoRate n r1 r2 (sixEq f P Q) δ).1 ∧ (twoRate n r1 r2 (sixEq f P Q) δ).1 ≤ 1) ∧
      (0 ≤ (twoRate n r1 r2 (sixEq f P Q) δ).2.1 ∧ (twoRate n r1 r2 (sixEq f P Q) δ).2.1 ≤ 1) := by
  have hNN : 0 < jsiNorm f * jsiNorm f := mul_pos hN hN
  have h := twoRate_bounds r1 r2 h1 h2 (sixEq f P Q) hf hf hf hf hf hf hP hQ hNN δ
  simp only [sixEq] at h
  have e : 1 / 2 * (1 + jsiNorm f * jsiNorm f / (jsiNorm f * jsiNorm f)) = 1 := by
    rw [div_self (ne_of_gt hNN)]; norm_num
  rw [e] at h
  exact ⟨h.1, h.2.1⟩

/-- T4. `si_mem_unit_partial`: for *any* eight grids and every delay the signal–idler rate lies in
`[0, ½(1 + N₁′N₂′/(N₁N₂))]`, where `N₁′`, `N₂′` are the norms of the (idler-axis × idler-axis) grid
of source 1 and the (signal-axis × signal-axis) grid of source 2; hence `≤ 1` under the explicit
hypothesis `N₁′N₂′ ≤ N₁N₂`.  Without it the bound exceeds 1 and so can the rate (finding D30). -/
theorem si_mem_unit_partial (n : ℕ) (r1 r2 : Steps2D ℝ) (h1 : r1.len = n * n) (h2 : r2.len = n * n)
    (G : TwoSrc ℝ)
    (z1 : G.first_s1_i1.size = n * n) (z2 : G.second_s2_i2.size = n * n)
    (z3 : G.first_s2_i1.size = n * n) (z4 : G.second_s1_i2.size = n * n)
    (z5 : G.first_s1_i2.size = n * n) (z6 : G.second_s2_i1.size = n * n)
    (z7 : G.first_i2_i1.size = n * n) (z8 : G.second_s2_s1.size = n * n)
    (hN : 0 < jsiNorm G.first_s1_i1 * jsiNorm G.second_s2_i2) (δ : ℝ) :
    0 ≤ (twoRate n r1 r2 G δ).2.2 ∧
      (twoRate n r1 r2 G δ).2.2 ≤ 1 / 2 * (1 + jsiNorm G.first_i2_i1 * jsiNorm G.second_s2_s1 /
        (jsiNorm G.first_s1_i1 * jsiNorm G.second_s2_i2)) ∧
      (jsiNorm G.first_i2_i1 * jsiNorm G.second_s2_s1 ≤
          jsiNorm G.first_s1_i1 * jsiNorm G.second_s2_i2 → (twoRate n r1 r2 G δ).2.2 ≤ 1) := by
  have h := (twoRate_bounds r1 r2 h1 h2 G z1 z2 z3 z4 z5 z6 z7 z8 hN δ).2.2
  refine ⟨h.1, h.2, fun hle => le_trans h.2 ?_⟩
  have : jsiNorm G.first_i2_i1 * jsiNorm G.second_s2_s1 /
      (jsiNorm G.first_s1_i1 * jsiNorm G.second_s2_i2) ≤ 1 := by
    rw [div_le_one hN]; exact hle
  linarith

/-- T4 (identical axes). When the signal and idler axes of the common range coincide, all eight
grids the code evaluates are the same array, so all three rates of two identical sources lie in
`[0, 1]` at every delay. -/
theorem all_mem_unit_identical_axes (J : ℝ → ℝ → Cx ℝ) (n : ℕ) (ax : Steps ℝ) (hn : ax.n = n)
    (hN : 0 < jsiNorm (sampled J ⟨ax, ax⟩)) (δ : ℝ) :
    let r : Steps2D ℝ := ⟨ax, ax⟩
    let R := twoRate n r r (twoSrcOf J J r r) δ
    (0 ≤ R.1 ∧ R.1 ≤ 1) ∧ (0 ≤ R.2.1 ∧ R.2.1 ≤ 1) ∧ (0 ≤ R.2.2 ∧ R.2.2 ≤ 1) := by
  intro r R
  have hlen : r.len = n * n := by simp [r, Steps2D.len, hn]
  have hs : (sampled J r).size = n * n := by rw [size_sampled, hlen]
  have hG : twoSrcOf J J r r = sixEq (sampled J r) (sampled J r) (sampled J r) := rfl
  have hNN : 0 < jsiNorm (sampled J r) * jsiNorm (sampled J r) := mul_pos hN hN
  have h := twoRate_bounds r r hlen hlen (sixEq (sampled J r) (sampled J r) (sampled J r))
    hs hs hs hs hs hs hs hs hNN δ
  simp only [sixEq] at h
  have e : 1 / 2 * (1 + jsiNorm (sampled J r) * jsiNorm (sampled J r) /
      (jsiNorm (sampled J r) * jsiNorm (sampled J r))) = 1 := by
    rw [div_self (ne_of_gt hNN)]; norm_num
  rw [e] at h
  simp only [R, hG, sixEq]
  exact h

/-- the by-name views of a two-source result (`HashMap::from(result)`, the serde map of the struct) file every
channel under its own name, carry nothing else, and both ways back (`HomTwoSourceResult::from(map)`, serde
`Deserialize`) return the result; so the identities and bounds above hold verbatim for the values addressed as
`"ss"`, `"ii"`, `"si"` -/
theorem named_view_faithful {β : Type} (r : TwoRes β) (d : β) :
    (r.toNamed.lookup "ss" = some r.ss ∧ r.toNamed.lookup "ii" = some r.ii ∧ r.toNamed.lookup "si" = some r.si) ∧
      r.toNamed.length = 3 ∧ TwoRes.ofNamed d r.toNamed = r ∧ TwoRes.ofNamedStrict r.toNamed = .ok r := by
  refine ⟨⟨?_, ?_, ?_⟩, rfl, ?_, ?_⟩ <;>
    simp [TwoRes.toNamed, TwoRes.ofNamed, TwoRes.ofNamedStrict, List.lookup]

/-- a map that lacks a channel gives the default there (`unwrap_or(T::default())`), and fails strictly -/
example : TwoRes.ofNamed (0 : ℝ) [("si", 3), ("ss", 1)] = ⟨1, 0, 3⟩ ∧
    TwoRes.ofNamedStrict [("si", (3 : ℝ)), ("ss", 1)] = .err "missing field `ii`" := by
  constructor <;> simp [TwoRes.ofNamed, TwoRes.ofNamedStrict, List.lookup]

/-! ### non-vacuity -/

/-- a concrete 2×2 spectrum satisfying the hypotheses of `ss_trace` / `ss_ii_mem_unit` -/
example : let f : Array (Cx ℝ) := #[⟨1, 0⟩, ⟨0, 1⟩, ⟨2, 0⟩, ⟨0, 0⟩]
    let r : Steps2D ℝ := ⟨⟨1, 2, 2⟩, ⟨3, 5, 2⟩⟩
    (0 ≤ (twoRate 2 r r (sixEq f f f) 0.7).1 ∧ (twoRate 2 r r (sixEq f f f) 0.7).1 ≤ 1) ∧
      (0 ≤ (twoRate 2 r r (sixEq f f f) 0.7).2.1 ∧ (twoRate 2 r r (sixEq f f f) 0.7).2.1 ≤ 1) := by
  intro f r
  exact ss_ii_mem_unit 2 r r rfl rfl f f f rfl rfl rfl (by norm_num [f, jsiNorm, sumList, Cx.normSq]) _

/-- the hypotheses of `visibility_eq_purity` are satisfiable (constant amplitude on a 2×2 grid with
unequal axes) -/
example : ∃ p vsi, twoSourceVisibilities true (⟨⟨1, 2, 2⟩, ⟨3, 5, 2⟩⟩ : Steps2D ℝ) ⟨⟨1, 2, 2⟩, ⟨3, 5, 2⟩⟩
    (twoSrcOf (fun _ _ => ⟨1, 0⟩) (fun _ _ => ⟨1, 0⟩) ⟨⟨1, 2, 2⟩, ⟨3, 5, 2⟩⟩ ⟨⟨1, 2, 2⟩, ⟨3, 5, 2⟩⟩) 0 0 0 =
      .ok (p, p, vsi) := by
  obtain ⟨vsi, h⟩ := visibility_eq_purity (fun _ _ => (⟨1, 0⟩ : Cx ℝ)) 2 ⟨⟨1, 2, 2⟩, ⟨3, 5, 2⟩⟩ rfl rfl
    (by norm_num [sampled, Steps2D.len, jsiNorm, sumList, Cx.normSq, List.range, List.range.loop]) 0 0 0
  exact ⟨_, vsi, h⟩

/-! ## composed model (grid level)

The theorems above take the eight amplitude grids (or an amplitude function `J`) as inputs.  Below
they are lifted to the COMPOSED model (`Spdc/Model/ComposeGrid.lean`): `homTwoSourceVisibilities` and
`homTwoSourceSeries` are `SPDC::hom_two_source_visibilities` / `hom_two_source_rate_series` of a
primitive setup against itself — spectrum objects through the composed `try_as_optimum`, the eight
grids by mapping the composed `jsa` over the eight axis pairs in the code's order. -/

/-- the three `assert_eq!` pass on a square range and the eight composed grids are the layer's
`twoSrcOf` of the total composed amplitude function -/
theorem compose_twoSrc_eq (js : Compose.JS ℝ) (J : PM.JSetup ℝ) (hJ : Compose.jsetup js.S = .ok J)
    (q : List (ℝ × ℝ) × ℝ) (hq : Compose.simpsonRule js.divs = .ok q) (r : Steps2D ℝ)
    (hxy : r.x.n = r.y.n) :
    Compose.twoSrcChecked js js r r = .ok (twoSrcOf (PM.jsa J q.1 q.2) (PM.jsa J q.1 q.2) r r) := by
  unfold Compose.twoSrcChecked
  simp only [hxy, ne_eq, not_true_eq_false, if_false]
  exact Compose.twoSrc_eq hJ hJ hq hq r r

/-- composed model, T1+T2 lifted: for ANY primitive setup against itself on a square range (non-zero
composed spectrum), the signal–signal and idler–idler visibilities returned by the composed
`SPDC::hom_two_source_visibilities` both equal the purity `Σλ²/(Σλ)²` of the composed amplitude
matrix (`λ` the eigenvalues of `FᴴF`). -/
theorem compose_visibility_eq_purity (S : Compose.Setup ℝ) (divs : Nat) (js : Compose.JS ℝ)
    (hjs : Compose.jointSpectrum S divs = .ok js) (J : PM.JSetup ℝ) (hJ : Compose.jsetup S = .ok J)
    (q : List (ℝ × ℝ) × ℝ) (hq : Compose.simpsonRule divs = .ok q)
    (n : ℕ) (r : Steps2D ℝ) (hx : r.x.n = n) (hy : r.y.n = n)
    (hN : jsiNorm (sampled (PM.jsa J q.1 q.2) r) ≠ 0) :
    let hG := Matrix.isHermitian_conjTranspose_mul_self (Fmat (sampled (PM.jsa J q.1 q.2) r) n)
    ∃ vsi, Compose.homTwoSourceVisibilities S divs (.freq r) =
      .ok ((∑ i, (hG.eigenvalues i) ^ 2) / (∑ i, hG.eigenvalues i) ^ 2,
           (∑ i, (hG.eigenvalues i) ^ 2) / (∑ i, hG.eigenvalues i) ^ 2, vsi) := by
  intro hG
  obtain ⟨hS, hd, -⟩ := Compose.jointSpectrum_ok hjs
  obtain ⟨vsi, hv⟩ := visibility_eq_purity (PM.jsa J q.1 q.2) n r hx hy hN (0.0 : ℝ) (0.0 : ℝ) (0.0 : ℝ)
  refine ⟨vsi, ?_⟩
  unfold Compose.homTwoSourceVisibilities
  rw [hjs]
  simp only [Outcome.bind, Compose.Ranges.toFrequencySpace]
  rw [compose_twoSrc_eq js J (hS ▸ hJ) q (hd ▸ hq) r (hx.trans hy.symm)]
  exact hv

/-- composed model, T4 lifted: on a range with identical signal and idler axes all three rates of the
composed `SPDC::hom_two_source_rate_series` lie in `[0, 1]` at every delay. -/
theorem compose_two_source_mem_unit (S : Compose.Setup ℝ) (divs : Nat) (js : Compose.JS ℝ)
    (hjs : Compose.jointSpectrum S divs = .ok js) (J : PM.JSetup ℝ) (hJ : Compose.jsetup S = .ok J)
    (q : List (ℝ × ℝ) × ℝ) (hq : Compose.simpsonRule divs = .ok q)
    (n : ℕ) (ax : Steps ℝ) (hn : ax.n = n)
    (hN : 0 < jsiNorm (sampled (PM.jsa J q.1 q.2) ⟨ax, ax⟩)) (δ : ℝ) :
    ∃ ss ii si, Compose.homTwoSourceSeries S divs (.freq ⟨ax, ax⟩) [δ] = .ok ([ss], [ii], [si]) ∧
      (0 ≤ ss ∧ ss ≤ 1) ∧ (0 ≤ ii ∧ ii ≤ 1) ∧ (0 ≤ si ∧ si ≤ 1) := by
  obtain ⟨hS, hd, -⟩ := Compose.jointSpectrum_ok hjs
  have hb := all_mem_unit_identical_axes (PM.jsa J q.1 q.2) n ax hn hN δ
  refine ⟨_, _, _, ?_, hb⟩
  unfold Compose.homTwoSourceSeries Compose.homTwoSourceSeriesJS
  rw [hjs]
  simp only [Outcome.bind, Compose.Ranges.toFrequencySpace]
  rw [compose_twoSrc_eq js J (hS ▸ hJ) q (hd ▸ hq) ⟨ax, ax⟩ rfl]
  simp [homTwoSourceSeries, hn]

/-- non-vacuity of the structural hypotheses: a 2×2 range with identical axes -/
example : (⟨⟨1, 2, 2⟩, ⟨1, 2, 2⟩⟩ : Steps2D ℝ).x.n = 2 ∧ (⟨⟨1, 2, 2⟩, ⟨1, 2, 2⟩⟩ : Steps2D ℝ).y.n = 2 :=
  ⟨rfl, rfl⟩

/-- non-vacuity of the outcome hypotheses (`hjs`, `hJ`, `hq`): for the concrete unpoled KTP setup
`Compose.exGrid` (explicit idler, 775 → 1500 + 1603 nm) the spectrum object (Simpson-50), the
joint-spectrum view and the Simpson rule all exist over ℝ (`Compose.grid_hypotheses_satisfiable`
shows the same for every unpoled explicit-idler setup with `0 ≠ λ_p < λ_s`) -/
example : ∃ js J q, Compose.jointSpectrum Compose.exGrid 50 = .ok js ∧ Compose.jsetup Compose.exGrid = .ok J ∧
    (Compose.simpsonRule 50 : Outcome (List (ℝ × ℝ) × ℝ)) = .ok q := Compose.exGrid_available

end Spdc.Props.C10
