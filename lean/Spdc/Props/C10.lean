import Spdc.Real.HomLemmas
namespace Spdc.Props.C10
open Spdc Spdc.Grid Spdc.Hom

/-- the assert of `get_1d_index` cannot fail for a column obtained as a remainder -/
theorem idx1_never_panics (k row cols : Nat) (h : 0 < cols) :
    get1dIndex (k % cols) row cols = .ok (idx1 (k % cols) row cols) := by
  simp [get1dIndex, idx1, Nat.mod_lt _ h]

end Spdc.Props.C10
