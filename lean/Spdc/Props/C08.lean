import Spdc.Real.Counts
import Spdc.Real.Singles
import Spdc.Real.ComposeGridLemmas
/-!
# C08 — fibre-coupled coincidences never exceed singles; rates and efficiencies consistent

Property theorems only (helper lemmas live in `Spdc/Real/Counts.lean`).

**The pointwise inequality `0 ≤ jsi ≤ min(jsi_singles_signal, jsi_singles_idler)` between the two
independent closed forms is NOT proved here: it is the hypothesis `hpt` of `sum_lift` (validated only by
search on the real code, and violated on the pinned tree for strongly focused beams — finding D9).**
What is proved is everything the statement derives from it, and the efficiency algebra.
-/
namespace Spdc.Props.C08
open Spdc Spdc.Counts Spdc.Grid

/-- **T1a.** For positive singles rates the three efficiencies are `C/Ri`, `C/Rs`, `C/√(Rs·Ri)`. -/
theorem eff_formulas (c rs ri : ℝ) (hs : 0 < rs) (hi : 0 < ri) :
    (efficienciesFromCounts c rs ri).signal = c / ri ∧
    (efficienciesFromCounts c rs ri).idler = c / rs ∧
    (efficienciesFromCounts c rs ri).symmetric = c / Real.sqrt (rs * ri) := by
  have h1 : (rs == (0.0 : ℝ)) = false := by
    rw [← Bool.not_eq_true, beq_zero_real]; exact hs.ne'
  have h2 : (ri == (0.0 : ℝ)) = false := by
    rw [← Bool.not_eq_true, beq_zero_real]; exact hi.ne'
  simp only [efficienciesFromCounts, h1, h2, Bool.false_eq_true, if_false, Bool.or_false,
    transc_sqrt_real, Real.sqrt_mul hs.le, and_self]

section anyScalar
variable {α : Type} [Mul α] [Div α] [OfScientific α] [BEq α] [Transc α]

/-- **T1b (zero guards, any scalar type — in particular `Float`).** When a singles rate compares equal to
zero the affected efficiencies are the *literal* `0.0`: no quotient is formed, so the result cannot be
NaN or infinite whatever the other two rates are (even NaN). -/
theorem eff_zero_guard (c rs ri : α) :
    ((ri == (0.0 : α)) = true →
      (efficienciesFromCounts c rs ri).signal = (0.0 : α) ∧
      (efficienciesFromCounts c rs ri).symmetric = (0.0 : α)) ∧
    ((rs == (0.0 : α)) = true →
      (efficienciesFromCounts c rs ri).idler = (0.0 : α) ∧
      (efficienciesFromCounts c rs ri).symmetric = (0.0 : α)) := by
  constructor
  · intro h; simp [efficienciesFromCounts, h]
  · intro h; simp [efficienciesFromCounts, h]

/-- the rates are passed through unchanged -/
theorem eff_rates (c rs ri : α) :
    (efficienciesFromCounts c rs ri).coincidences = c ∧
    (efficienciesFromCounts c rs ri).signalSingles = rs ∧
    (efficienciesFromCounts c rs ri).idlerSingles = ri := ⟨rfl, rfl, rfl⟩

end anyScalar

section spectrumGuard
variable {α : Type} [Add α] [Mul α] [OfScientific α] [BEq α]

/-- **Zero guards of the spectra (any scalar type — in particular `Float`).** Where the raw singles value
(`jsi_singles_raw`: forced to 0 outside the validity box and below the pump threshold) compares equal to zero,
`JointSpectrum::jsi_singles` is the *literal* `0.0` whatever the normalisation is — in particular when the
normalisation is NaN because the Sellmeier equations are undefined at that frequency (ω → 0) —, and likewise
`JointSpectrum::jsi` where `jsa_raw` is zero: a grid may contain such pairs without poisoning the summed rates. -/
theorem spectrum_zero_guard (raw re im n : α) :
    ((raw == (0.0 : α)) = true → jsiSinglesPoint raw n = (0.0 : α)) ∧
    ((re == (0.0 : α)) = true → (im == (0.0 : α)) = true → jsiPoint re im n = (0.0 : α)) := by
  constructor
  · intro h; simp [jsiSinglesPoint, h]
  · intro h1 h2; simp [jsiPoint, h1, h2]

end spectrumGuard

/-- over ℝ the guards change nothing (`n·0 = 0`): they matter only in floating point, where `NaN·0 = NaN` — the
faithful forms `jsiSinglesPoint` / `jsiPoint` and the spec forms `n·raw`, `n·|jsa|²` agree in exact arithmetic. -/
theorem spectrum_guard_redundant_real (raw re im n : ℝ) :
    jsiSinglesPoint raw n = n * raw ∧ jsiPoint re im n = n * (re * re + im * im) := by
  constructor
  · unfold jsiSinglesPoint
    split
    · rename_i h
      have : raw = 0 := (beq_zero_real raw).mp h
      rw [this, lit_zero, mul_zero]
    · rfl
  · unfold jsiPoint
    split
    · rename_i h
      rw [Bool.and_eq_true] at h
      have h1 : re = 0 := (beq_zero_real re).mp h.1
      have h2 : im = 0 := (beq_zero_real im).mp h.2
      rw [h1, h2, lit_zero]; ring
    · rfl

/-- **T1b over ℝ**: a zero singles rate gives efficiency 0 (where `x/0 = 0` in Mathlib would have hidden
a division by zero, the model does not divide at all — see `eff_zero_guard`). -/
theorem eff_zero_guard_real (c rs ri : ℝ) :
    (ri = 0 → (efficienciesFromCounts c rs ri).signal = 0 ∧ (efficienciesFromCounts c rs ri).symmetric = 0) ∧
    (rs = 0 → (efficienciesFromCounts c rs ri).idler = 0 ∧ (efficienciesFromCounts c rs ri).symmetric = 0) := by
  refine ⟨fun hr => ?_, fun hr => ?_⟩
  · have h := (eff_zero_guard c rs ri).1 ((beq_zero_real ri).mpr hr)
    simpa only [lit_zero] using h
  · have h := (eff_zero_guard c rs ri).2 ((beq_zero_real rs).mpr hr)
    simpa only [lit_zero] using h

/-- **T2a.** All three efficiencies lie in `[0,1]` whenever `0 ≤ C ≤ min(Rs, Ri)` (`C² ≤ Rs·Ri` gives the
symmetric one), including the guarded cases. -/
theorem eff_in_unit_interval (c rs ri : ℝ) (h0 : 0 ≤ c) (hs : c ≤ rs) (hi : c ≤ ri) :
    let e := efficienciesFromCounts c rs ri
    (0 ≤ e.signal ∧ e.signal ≤ 1) ∧ (0 ≤ e.idler ∧ e.idler ≤ 1) ∧ (0 ≤ e.symmetric ∧ e.symmetric ≤ 1) := by
  have hrs : 0 ≤ rs := h0.trans hs
  have hri : 0 ≤ ri := h0.trans hi
  have ratio : ∀ r : ℝ, c ≤ r → 0 ≤ r →
      0 ≤ (if (r == (0.0 : ℝ)) then (0.0 : ℝ) else c / r) ∧ (if (r == (0.0 : ℝ)) then (0.0 : ℝ) else c / r) ≤ 1 := by
    intro r hr hr0
    by_cases hz : r = 0
    · have : (r == (0.0 : ℝ)) = true := (beq_zero_real r).mpr hz
      rw [if_pos this, lit_zero]; exact ⟨le_refl 0, zero_le_one⟩
    · have hb : (r == (0.0 : ℝ)) = false := by rw [← Bool.not_eq_true, beq_zero_real]; exact hz
      have hpos : 0 < r := lt_of_le_of_ne hr0 (Ne.symm hz)
      simp only [hb, Bool.false_eq_true, if_false]
      exact ⟨div_nonneg h0 hr0, (div_le_one hpos).mpr hr⟩
  refine ⟨ratio ri hi hri, ratio rs hs hrs, ?_⟩
  show 0 ≤ (efficienciesFromCounts c rs ri).symmetric ∧ (efficienciesFromCounts c rs ri).symmetric ≤ 1
  by_cases hz : rs = 0 ∨ ri = 0
  · have : ((rs == (0.0 : ℝ)) || (ri == (0.0 : ℝ))) = true := by
      rw [Bool.or_eq_true, beq_zero_real, beq_zero_real]; exact hz
    rw [show (efficienciesFromCounts c rs ri).symmetric =
        if ((rs == (0.0 : ℝ)) || (ri == (0.0 : ℝ))) then (0.0 : ℝ) else c / (Transc.sqrt rs * Transc.sqrt ri)
        from rfl, if_pos this, lit_zero]
    exact ⟨le_refl 0, zero_le_one⟩
  · rw [not_or] at hz
    have hb : ((rs == (0.0 : ℝ)) || (ri == (0.0 : ℝ))) = false := by
      rw [← Bool.not_eq_true, Bool.or_eq_true, beq_zero_real, beq_zero_real]; tauto
    have hps : 0 < rs := lt_of_le_of_ne hrs (Ne.symm hz.1)
    have hpi : 0 < ri := lt_of_le_of_ne hri (Ne.symm hz.2)
    have hden : 0 < Real.sqrt rs * Real.sqrt ri := mul_pos (Real.sqrt_pos.mpr hps) (Real.sqrt_pos.mpr hpi)
    simp only [efficienciesFromCounts, hb, Bool.false_eq_true, if_false, transc_sqrt_real]
    exact ⟨div_nonneg h0 hden.le, (div_le_one hden).mpr (le_sqrt_mul_sqrt h0 hs hi)⟩

/-- **T2b (lifting).** If at every grid point `0 ≤ jsi ≤ singles_signal` and `jsi ≤ singles_idler`
(hypothesis `hpt` — the residual of this property), the correction factor and the cell area are
non-negative, then the three rates satisfy `0 ≤ C ≤ min(Rs, Ri)` and all three efficiencies computed by
`spdc::efficiencies` lie in `[0,1]`. -/
theorem sum_lift (corr : ℝ) (g : Steps2D ℝ) (jsi ss si : List ℝ)
    (hcorr : 0 ≤ corr) (harea : 0 ≤ cellArea g)
    (hpos : ∀ x ∈ jsi, 0 ≤ x)
    (hpt : List.Forall₂ (· ≤ ·) jsi ss ∧ List.Forall₂ (· ≤ ·) jsi si) :
    let e := efficiencies corr g jsi ss si
    0 ≤ e.coincidences ∧ e.coincidences ≤ e.signalSingles ∧ e.coincidences ≤ e.idlerSingles ∧
    (0 ≤ e.signal ∧ e.signal ≤ 1) ∧ (0 ≤ e.idler ∧ e.idler ≤ 1) ∧ (0 ≤ e.symmetric ∧ e.symmetric ≤ 1) := by
  have hC0 : 0 ≤ counts corr g jsi := by
    rw [counts_eq]; exact mul_nonneg hcorr (mul_nonneg (sum_nonneg_of_forall hpos) harea)
  have hCs : counts corr g jsi ≤ counts corr g ss := by
    rw [counts_eq, counts_eq]
    exact mul_le_mul_of_nonneg_left (mul_le_mul_of_nonneg_right (sum_le_sum_of_forall₂ hpt.1) harea) hcorr
  have hCi : counts corr g jsi ≤ counts corr g si := by
    rw [counts_eq, counts_eq]
    exact mul_le_mul_of_nonneg_left (mul_le_mul_of_nonneg_right (sum_le_sum_of_forall₂ hpt.2) harea) hcorr
  have h := eff_in_unit_interval _ _ _ hC0 hCs hCi
  exact ⟨hC0, hCs, hCi, h⟩

/-- **T3a (definition of the rates).** Each rate is the common correction factor times the rectangle sum
of the spectrum over the grid: `corr · Σ_k value_k · dω_s dω_i`. -/
theorem counts_def (corr : ℝ) (g : Steps2D ℝ) (vals : List ℝ) :
    counts corr g vals = corr * (vals.sum * (g.x.divisionWidth * g.y.divisionWidth)) :=
  counts_eq corr g vals

/-- **T3b.** The same correction factor multiplies all three rates, so it cancels in every efficiency. -/
theorem eff_corr_cancels (k c rs ri : ℝ) (hk : 0 < k) :
    (efficienciesFromCounts (k * c) (k * rs) (k * ri)).signal = (efficienciesFromCounts c rs ri).signal ∧
    (efficienciesFromCounts (k * c) (k * rs) (k * ri)).idler = (efficienciesFromCounts c rs ri).idler ∧
    ((0 ≤ rs ∧ 0 ≤ ri) →
      (efficienciesFromCounts (k * c) (k * rs) (k * ri)).symmetric = (efficienciesFromCounts c rs ri).symmetric) := by
  have hz : ∀ r : ℝ, (k * r == (0.0 : ℝ)) = (r == (0.0 : ℝ)) := by
    intro r
    by_cases h : r = 0
    · simp [h, lit_zero]
    · have h1 : (r == (0.0 : ℝ)) = false := by rw [← Bool.not_eq_true, beq_zero_real]; exact h
      have h2 : (k * r == (0.0 : ℝ)) = false := by
        rw [← Bool.not_eq_true, beq_zero_real]; exact mul_ne_zero hk.ne' h
      rw [h1, h2]
  refine ⟨?_, ?_, ?_⟩
  · simp only [efficienciesFromCounts, hz]
    split
    · rfl
    · exact mul_div_mul_left c ri hk.ne'
  · simp only [efficienciesFromCounts, hz]
    split
    · rfl
    · exact mul_div_mul_left c rs hk.ne'
  · rintro ⟨hs, hi⟩
    simp only [efficienciesFromCounts, hz, transc_sqrt_real]
    split
    · rfl
    · rw [Real.sqrt_mul hk.le, Real.sqrt_mul hk.le]
      have : Real.sqrt k * Real.sqrt rs * (Real.sqrt k * Real.sqrt ri) = k * (Real.sqrt rs * Real.sqrt ri) := by
        have hkk : Real.sqrt k * Real.sqrt k = k := Real.mul_self_sqrt hk.le
        calc Real.sqrt k * Real.sqrt rs * (Real.sqrt k * Real.sqrt ri)
            = (Real.sqrt k * Real.sqrt k) * (Real.sqrt rs * Real.sqrt ri) := by ring
          _ = k * (Real.sqrt rs * Real.sqrt ri) := by rw [hkk]
      rw [this]
      exact mul_div_mul_left c _ hk.ne'

/-- **D13 (repaired).** The pinned tree's `√(Rs·Ri)` and the repaired `√Rs·√Ri` agree over ℝ for
non-negative rates — they differ only in `f64`, where the product leaves the range. -/
theorem symmetric_repair_is_conservative (c rs ri : ℝ) (hs : 0 ≤ rs) :
    symmetricPinned c rs ri = (efficienciesFromCounts c rs ri).symmetric := by
  simp only [symmetricPinned, efficienciesFromCounts, transc_sqrt_real, Real.sqrt_mul hs]

/-- **T4 (partial).** Skeleton of the no-diffraction clause, proved exactly: for a collinear signal
(`θ_s = θ_s,ext = 0`) and no pump walk-off (`tan ρ = 0`) the numerator of the singles integrand is the pure
phase `exp(i·(L·Δk/2)·(z₁ − z₂))`, `Δk = k_p − (±k_s ± k_i + k_eff)` — the tilt terms `GG`, `IIgam`, `Γ₄` and
the walk-off terms `HH`, `IIrho` vanish identically; so it has modulus 1 and equals 1 at perfect phase
matching (this is "F = R = 1 without walk-off" on the numerator side), and the integrand is
`a(z₁)a(z₂)·phase / denominator`.
**Missing (hence `_partial`; validated by search only, `C08.limit`, 1e-4):** (i) that in the large-waist limit
`k_p W² ≫ L` the denominator `8√(AA1·BB1·AA2·BB2·EE·FF)` tends to the Gaussian mode-overlap constant that
gives `η`, and (ii) that with walk-off the numerator tends to the Gaussian whose double integral is `R`; both are
asymptotic statements about ~25 complex sub-expressions under a principal square root, not identities. -/
theorem singles_ideal_partial (p : Singles.SinglesIn ℝ) (hθ : p.thetaS = 0) (hθe : p.thetaSe = 0)
    (hρ : Real.tan p.rho = 0) (a1 a2 z1 z2 : ℝ) :
    let Δk := p.kp - (p.signKs * p.ksAbs + p.signKi * p.kiAbs + p.keff)
    let nd := Singles.numDen (Singles.coef p) z1 z2
    nd.1.toC = Complex.exp (((1 / 2 * (p.len * Δk) * (z1 - z2) : ℝ) : ℂ) * Complex.I) ∧
    ‖nd.1.toC‖ = 1 ∧
    (Δk = 0 → nd.1.toC = 1) ∧
    (Singles.integrand (Singles.coef p) a1 a2 z1 z2).toC = ((a1 * a2 : ℝ) : ℂ) * nd.1.toC / nd.2.toC := by
  obtain ⟨h3, hl, hl2, hg, hc3⟩ := Singles.coef_collinear p hθ hθe hρ
  have hnum := Singles.numerator_of (Singles.coef p) h3 hl hl2 hg z1 z2
  rw [hc3] at hnum
  refine ⟨hnum, ?_, ?_, ?_⟩
  · rw [hnum, Complex.norm_exp_ofReal_mul_I]
  · intro h0
    rw [hnum, h0]; simp
  · simp [Singles.integrand]

/-! ## non-vacuity -/

example : ∃ p : Singles.SinglesIn ℝ, p.thetaS = 0 ∧ p.thetaSe = 0 ∧ Real.tan p.rho = 0 ∧ p.len = 1 :=
  ⟨⟨1, 0, 0, 0, 1, 1, 1, 1, 1, 2, 3, 1, 1, 0, 0, 0⟩, rfl, rfl, by simp, rfl⟩


example : (efficienciesFromCounts (2 : ℝ) 4 9).symmetric = 1 / 3 := by
  have h := (eff_formulas 2 4 9 (by norm_num) (by norm_num)).2.2
  rw [h, show (4 : ℝ) * 9 = 6 ^ 2 by norm_num, Real.sqrt_sq (by norm_num)]
  norm_num

example :
    let e := efficiencies (1 / 2 : ℝ) ⟨⟨0, 1, 2⟩, ⟨0, 3, 2⟩⟩ [1, 0, 2] [2, 0, 2] [1, 1, 5]
    0 ≤ e.symmetric ∧ e.symmetric ≤ 1 := by
  have h := sum_lift (1 / 2 : ℝ) ⟨⟨0, 1, 2⟩, ⟨0, 3, 2⟩⟩ [1, 0, 2] [2, 0, 2] [1, 1, 5]
    (by norm_num)
    (by simp [cellArea, Steps.divisionWidth])
    (by intro x hx; simp at hx; rcases hx with rfl | rfl | rfl <;> norm_num)
    ⟨by repeat (first | exact List.Forall₂.nil | apply List.Forall₂.cons <;> try norm_num),
     by repeat (first | exact List.Forall₂.nil | apply List.Forall₂.cons <;> try norm_num)⟩
  exact h.2.2.2.2.2

/-! ## composed model (grid level)

The theorems above take the three spectra on the grid and the correction factor as inputs.  Below they
are lifted to the COMPOSED model (`Spdc/Model/ComposeGrid.lean`): `countsCoincidences`,
`countsSinglesSignal`, `countsSinglesIdler`, `efficiencies` are the `SPDC::counts_*` /
`SPDC::efficiencies` calls on a primitive setup — spectrum objects through the composed
`try_as_optimum`, spectra through all layers, the correction factor from the composed phase and group
indices, `dω_s·dω_i` from the range.  The pointwise inequality stays a hypothesis (see the header). -/

/-- composed model, T3a lifted: the composed coincidence rate of ANY primitive setup over ANY range
with non-empty axes is the composed correction factor times the sum of the composed `jsi` over the
row-major enumeration of the frequency space times `dω_s·dω_i`. -/
theorem compose_counts_def (S : Compose.Setup ℝ) (divs : Nat) (js : Compose.JS ℝ)
    (hjs : Compose.jointSpectrum S divs = .ok js) (J : PM.JSetup ℝ) (hJ : Compose.jsetup S = .ok J)
    (q : List (ℝ × ℝ) × ℝ) (hq : Compose.simpsonRule divs = .ok q) (R : Compose.Ranges ℝ)
    (hx : R.toFrequencySpace.x.n ≠ 0) (hy : R.toFrequencySpace.y.n ≠ 0) :
    Compose.countsCoincidences S divs R = (Compose.countsCorrection S).map fun corr =>
      corr * ((R.toFrequencySpace.collect.map fun p => PM.jsi J q.1 q.2 p.1 p.2).sum *
        (R.toFrequencySpace.x.divisionWidth * R.toFrequencySpace.y.divisionWidth)) := by
  obtain ⟨hS, hd, -⟩ := Compose.jointSpectrum_ok hjs
  unfold Compose.countsCoincidences
  rw [hjs]
  simp only [Outcome.bind]
  rw [Compose.countsOf_eq S _ hx hy,
    Compose.mapPoints_ok js.jsi (PM.jsi J q.1 q.2) _
      (fun p _ => Compose.jsi_eq_of_ok (hS ▸ hJ) (hd ▸ hq) p.1 p.2)]
  cases Compose.countsCorrection S with
  | ok corr => simp only [Outcome.bind, Outcome.map, counts_def]
  | err e => rfl
  | panic e => rfl

/-- composed model, C07-T1 + T3 lifted: scaling the primitive pump power by `a` and `deff` by `b`
multiplies the composed coincidence rate and the composed signal-singles rate by `a·b²` (the
correction factor reads neither), whenever a spectrum object exists for both setups. -/
theorem compose_counts_linear (S : Compose.Setup ℝ) (a b : ℝ) (divs : Nat) (R : Compose.Ranges ℝ)
    (js js' : Compose.JS ℝ) (hjs : Compose.jointSpectrum S divs = .ok js)
    (hjs' : Compose.jointSpectrum (S.scaled a b) divs = .ok js') :
    Compose.countsCoincidences (S.scaled a b) divs R
        = (Compose.countsCoincidences S divs R).map (fun x => a * b ^ 2 * x)
      ∧ Compose.countsSinglesSignal (S.scaled a b) divs R
        = (Compose.countsSinglesSignal S divs R).map (fun x => a * b ^ 2 * x) := by
  obtain ⟨hS, hd, -⟩ := Compose.jointSpectrum_ok hjs
  obtain ⟨hS', hd', -⟩ := Compose.jointSpectrum_ok hjs'
  have hc : ∀ f, Compose.countsOf (S.scaled a b) R.toFrequencySpace f
      = Compose.countsOf S R.toFrequencySpace f := fun _ => rfl
  constructor
  · unfold Compose.countsCoincidences
    rw [hjs, hjs']
    simp only [Outcome.bind]
    rw [hc, ← Compose.countsOf_map]
    congr 1
    funext ωs ωi
    simp only [Compose.JS.jsi, hS, hd, hS', hd', Compose.jsi_scaled]
  · unfold Compose.countsSinglesSignal
    rw [hjs, hjs']
    simp only [Outcome.bind]
    rw [hc, ← Compose.countsOf_map]
    congr 1
    funext ωs ωi
    simp only [Compose.JS.jsiSingles, hS, hd, hS', hd', Compose.jsiSingles_scaled]

/-- composed model: the same for the idler-singles rate (spectrum objects of the exchanged setups) -/
theorem compose_counts_idler_linear (S : Compose.Setup ℝ) (a b : ℝ) (divs : Nat) (R : Compose.Ranges ℝ)
    (sw sw' : Compose.JS ℝ) (hsw : Compose.jointSpectrum S.swap divs = .ok sw)
    (hsw' : Compose.jointSpectrum (S.scaled a b).swap divs = .ok sw') :
    Compose.countsSinglesIdler (S.scaled a b) divs R
        = (Compose.countsSinglesIdler S divs R).map (fun x => a * b ^ 2 * x) := by
  obtain ⟨hS, hd, -⟩ := Compose.jointSpectrum_ok hsw
  obtain ⟨hS', hd', -⟩ := Compose.jointSpectrum_ok hsw'
  have hc : ∀ f, Compose.countsOf (S.scaled a b) R.toFrequencySpace f
      = Compose.countsOf S R.toFrequencySpace f := fun _ => rfl
  unfold Compose.countsSinglesIdler
  rw [hsw, hsw']
  simp only [Outcome.bind]
  rw [hc, ← Compose.countsOf_map]
  congr 1
  funext ωs ωi
  simp only [Compose.JS.jsiSingles, hS, hd, hS', hd', Compose.swap_scaled, Compose.jsiSingles_scaled]

/-- composed model, T1a lifted: the composed `SPDC::efficiencies` is `efficiencies_from_counts` of the
three composed rates; for positive singles rates the three efficiencies are `C/Ri`, `C/Rs`,
`C/√(Rs·Ri)`. -/
theorem compose_efficiencies_formula (S : Compose.Setup ℝ) (divs : Nat) (R : Compose.Ranges ℝ)
    (c rs ri : ℝ) (hc : Compose.countsCoincidences S divs R = .ok c)
    (hs : Compose.countsSinglesSignal S divs R = .ok rs) (hi : Compose.countsSinglesIdler S divs R = .ok ri) :
    Compose.efficiencies S divs R = .ok (efficienciesFromCounts c rs ri) ∧
      (0 < rs → 0 < ri →
        (efficienciesFromCounts c rs ri).signal = c / ri ∧ (efficienciesFromCounts c rs ri).idler = c / rs ∧
        (efficienciesFromCounts c rs ri).symmetric = c / Real.sqrt (rs * ri)) := by
  refine ⟨?_, fun h1 h2 => eff_formulas c rs ri h1 h2⟩
  unfold Compose.efficiencies
  rw [hc, hs, hi]
  rfl

/-- composed model, T2b lifted (**partial**: the pointwise inequality `hpt` between the composed
coincidence spectrum and the two composed singles spectra on the grid is a hypothesis, as in
`sum_lift`; so are a non-negative correction factor and cell area).  Then the three composed rates
satisfy `0 ≤ C ≤ min(Rs, Ri)` and all three composed efficiencies lie in `[0, 1]`. -/
theorem compose_efficiencies_unit_partial (S : Compose.Setup ℝ) (divs : Nat) (R : Compose.Ranges ℝ)
    (js sw : Compose.JS ℝ) (hjs : Compose.jointSpectrum S divs = .ok js)
    (hsw : Compose.jointSpectrum S.swap divs = .ok sw)
    (hx : R.toFrequencySpace.x.n ≠ 0) (hy : R.toFrequencySpace.y.n ≠ 0)
    (corr : ℝ) (hcorr : Compose.countsCorrection S = .ok corr) (hcorr0 : 0 ≤ corr)
    (harea : 0 ≤ cellArea R.toFrequencySpace)
    (vj vs vi : List ℝ)
    (hvj : Compose.mapPoints js.jsi R.toFrequencySpace.collect = .ok vj)
    (hvs : Compose.mapPoints js.jsiSingles R.toFrequencySpace.collect = .ok vs)
    (hvi : Compose.mapPoints (fun ωs ωi => sw.jsiSingles ωi ωs) R.toFrequencySpace.collect = .ok vi)
    (hpos : ∀ x ∈ vj, 0 ≤ x)
    (hpt : List.Forall₂ (· ≤ ·) vj vs ∧ List.Forall₂ (· ≤ ·) vj vi) :
    ∃ e, Compose.efficiencies S divs R = .ok e ∧
      0 ≤ e.coincidences ∧ e.coincidences ≤ e.signalSingles ∧ e.coincidences ≤ e.idlerSingles ∧
      (0 ≤ e.signal ∧ e.signal ≤ 1) ∧ (0 ≤ e.idler ∧ e.idler ≤ 1) ∧ (0 ≤ e.symmetric ∧ e.symmetric ≤ 1) := by
  refine ⟨_, ?_, sum_lift corr R.toFrequencySpace vj vs vi hcorr0 harea hpos hpt⟩
  unfold Compose.efficiencies Compose.countsCoincidences Compose.countsSinglesSignal Compose.countsSinglesIdler
  rw [hjs, hsw]
  simp only [Outcome.bind, Compose.countsOf_eq S _ hx hy, hcorr, hvj, hvs, hvi, Outcome.map]
  rfl

/-! ### non-vacuity (grid level) -/

/-- a concrete range with non-empty axes and non-negative cell area, in each of the three range kinds -/
example : (Compose.Ranges.freq (⟨⟨1, 2, 3⟩, ⟨1, 3, 2⟩⟩ : Steps2D ℝ)).toFrequencySpace.x.n ≠ 0 ∧
    0 ≤ cellArea (Compose.Ranges.freq (⟨⟨1, 2, 3⟩, ⟨1, 3, 2⟩⟩ : Steps2D ℝ)).toFrequencySpace := by
  constructor
  · simp [Compose.Ranges.toFrequencySpace]
  · simp [Compose.Ranges.toFrequencySpace, cellArea, Steps.divisionWidth]

example : (Compose.Ranges.sumDiff (⟨⟨1, 2, 3⟩, ⟨0, 1, 4⟩⟩ : Steps2D ℝ)).toFrequencySpace.y.n = 4 := rfl

/-- non-vacuity of the outcome hypotheses (`hjs`, `hJ`, `hq`): for the concrete unpoled KTP setup
`Compose.exGrid` (explicit idler, 775 → 1500 + 1603 nm) the spectrum object (Simpson-50), the
joint-spectrum view and the Simpson rule all exist over ℝ (`Compose.grid_hypotheses_satisfiable`
shows the same for every unpoled explicit-idler setup with `0 ≠ λ_p < λ_s`) -/
example : ∃ js J q, Compose.jointSpectrum Compose.exGrid 50 = .ok js ∧ Compose.jsetup Compose.exGrid = .ok J ∧
    (Compose.simpsonRule 50 : Outcome (List (ℝ × ℝ) × ℝ)) = .ok q := Compose.exGrid_available

/-- … and so does the spectrum object of the exchanged setup (idler-singles route) -/
example : ∃ sw, Compose.jointSpectrum Compose.exGrid.swap 50 = .ok sw := Compose.exGrid_swap_available

example : jsiSinglesPoint (0 : ℝ) 7 = 0 ∧ jsiSinglesPoint (2 : ℝ) 7 = 14 := by
  have h := spectrum_guard_redundant_real
  constructor
  · rw [(h 0 0 0 7).1]; norm_num
  · rw [(h 2 0 0 7).1]; norm_num

end Spdc.Props.C08
