import Spdc.Real.PM
/-!
# C05 — plane-wave limit of the coincidence phase-matching integral (first theorems; see below)
-/
namespace Spdc.Props.C05
open Spdc Spdc.PM

/-- T3. `ff = (L/2)·Δk_z` with `Δk_z` the z-component of `delta_k` for a pump at `ω_s + ω_i`
(collinear beams: `cos θ = sign of the direction's z`, covering counter-propagation; the poling
term `k_eff` enters with the sign of `delta_k`). -/
theorem ff_is_dkz (S : Setup ℝ) (ωs ωi : ℝ)
    (hs : Real.cos S.sig.theta = S.sig.sgn) (hi : Real.cos S.idl.theta = S.idl.sgn) :
    (pre S ωs ωi).ff = halfDkzL S ωs ωi := by
  simp only [pre, chain, halfDkzL, deltaKz, Transc.cos, hs, hi, lit_05]
  ring

end Spdc.Props.C05
