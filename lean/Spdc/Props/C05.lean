import Spdc.Real.PlaneWave
/-!
# C05 — plane-wave limit of the coincidence phase-matching integral

Property theorems only (helper lemmas: `Spdc/Real/PM.lean`, `Spdc/Real/PlaneWave.lean`).  All
statements are about the executable model of `get_pm_integrand` (`Spdc/Model/PM.lean`) at
`α := ℝ`, for every dispersion law (`Beam.n`, `Setup.nP` arbitrary functions: "every crystal and
phase-matching type"), every length and every poling term `k_eff`.  `pmIdeal` is the integrand with
the diffraction terms (imaginary parts of `A1 … A4`, `A8`, `A9`) removed.

Notation: `Ws² = wx·wy` of the signal (`Beam.w2`), `Σ = Wp²Ws² + Wp²Wi² + Ws²Wi²`
(`Setup.sigmaX/Y` with the pump's x / y waist), `n = ½·L·tan ρ` (`Setup.nn`),
`x′² = n²(Ws²+Wi²)/Σ` (`Setup.xp2`), `φ₀ = ks_f·z0s + ki_f·z0i` (`Setup.phi0`).
-/
namespace Spdc.Props.C05
open Spdc Spdc.PM

/-- T1. Collinear beams: without diffraction `denom1 = Σx/4`, `denom2 = Σy/4`; for a circular pump
the prefactor `1/sqrt(denom1·denom2)` is `4/Σ`. -/
theorem denoms_ideal (S : Setup ℝ) (h : S.Collinear) (ωs ωi z : ℝ) :
    (coef S ωs ωi z).ideal.denom1.toC = ((S.sigmaX / 4 : ℝ) : ℂ)
    ∧ (coef S ωs ωi z).ideal.denom2.toC = ((S.sigmaY / 4 : ℝ) : ℂ)
    ∧ (S.wpx = S.wpy → 0 ≤ S.sigmaY →
        (((coef S ωs ωi z).ideal.denom1 * (coef S ωs ωi z).ideal.denom2).sqrt).toC
          = ((S.sigmaY / 4 : ℝ) : ℂ)) :=
  ⟨(denoms_ideal' S h ωs ωi z).1, (denoms_ideal' S h ωs ωi z).2,
    fun hc hp => sqrt_denoms_ideal S h ωs ωi z hc hp⟩

/-- T2. Collinear beams: without diffraction the exponent is
`i(ee + ff·z) + i·φ₀ − x′²(1+z)²`. -/
theorem exponent_ideal (S : Setup ℝ) (h : S.Collinear) (ωs ωi z : ℝ)
    (ha : S.wpy * S.wpy + S.sig.w2 ≠ 0) (hS : S.sigmaY ≠ 0) :
    (coef S ωs ωi z).ideal.exponent.toC
      = ((S.phi0 ωs ωi + (pre S ωs ωi).ee + (pre S ωs ωi).ff * z : ℝ) : ℂ) * Complex.I
        - ((S.xp2 * (1 + z) ^ 2 : ℝ) : ℂ) :=
  exponent_ideal' S h ωs ωi z ha hS

/-- T3. `ff = (L/2)·Δk_z` with `Δk_z` the z-component of `delta_k` for a pump at `ω_s + ω_i`
(collinear beams: `cos θ = sign of the direction's z`, covering counter-propagation; the poling
term `k_eff` enters with the sign it has in `delta_k`). -/
theorem ff_is_dkz (S : Setup ℝ) (ωs ωi : ℝ)
    (hs : Real.cos S.sig.theta = S.sig.sgn) (hi : Real.cos S.idl.theta = S.idl.sgn) :
    (pre S ωs ωi).ff = halfDkzL S ωs ωi := by
  simp only [pre, chain, halfDkzL, deltaKz, Transc.cos, hs, hi, lit_05]
  ring

/-- the closed form of the diffraction-free integrand (T1 and T2 combined):
`pmIdeal = w(z)·(4/Σ)·exp(i(φ₀ + ee + ff·z) − x′²(1+z)²)` -/
theorem pmIdeal_closed_form (S : Setup ℝ) (h : S.Collinear) (ωs ωi z : ℝ) (hc : S.wpx = S.wpy)
    (ha : S.wpy * S.wpy + S.sig.w2 ≠ 0) (hpos : 0 < S.sigmaY) :
    (pmIdeal S ωs ωi z).toC
      = ((S.apod z : ℝ) : ℂ) * Complex.exp
          (((S.phi0 ωs ωi + (pre S ωs ωi).ee + (pre S ωs ωi).ff * z : ℝ) : ℂ) * Complex.I
            - ((S.xp2 * (1 + z) ^ 2 : ℝ) : ℂ)) / ((S.sigmaY / 4 : ℝ) : ℂ) :=
  pmIdeal_collinear S h ωs ωi z hc ha hpos

/-- T4. Without walk-off (`ρ = 0`), for co-propagating collinear beams, a circular pump and no
apodisation: `|½∫_{-1}^{1} pmIdeal dz| = (4/Σ)·|sinc(Δk_z·L/2)|`, `Δk_z` for a pump at `ω_s + ω_i`. -/
theorem sinc_limit (S : Setup ℝ) (h : S.PlaneWave) (hρ : S.rho = 0) (ωs ωi : ℝ)
    (hs : S.sig.sgn = 1) (hi : S.idl.sgn = 1) :
    ‖(1 / 2 : ℂ) * ∫ z in (-1:ℝ)..1, (pmIdeal S ωs ωi z).toC‖
      = 4 / S.sigmaY * |Real.sinc (halfDkzL S ωs ωi)| := by
  rw [sinc_limit' S h hρ ωs ωi, ff_is_dkz S ωs ωi]
  · rw [h.col.sig.theta, Real.cos_zero, hs]
  · rw [h.col.idl.theta, Real.cos_zero, hi]

/-- T5. At perfect phase matching (`ff = 0`) with pump walk-off the value is
`(4/Σ)·½∫_{-1}^{1} e^{−x′²(1+z)²} dz = (4/Σ)·(1/x)∫₀ˣ e^{−u²} du` with `x = 2x′`; the identification
of `(1/x)∫₀ˣ e^{−u²} du` with `√π·erf(x)/(2x)` is the definition of `erf` (Mathlib has none), hence
`_partial`. -/
theorem peak_partial (S : Setup ℝ) (h : S.PlaneWave) (ωs ωi : ℝ) (hff : (pre S ωs ωi).ff = 0) :
    ‖(1 / 2 : ℂ) * ∫ z in (-1:ℝ)..1, (pmIdeal S ωs ωi z).toC‖
        = 4 / S.sigmaY * (1 / 2 * ∫ z in (-1:ℝ)..1, Real.exp (-(S.xp2 * (1 + z) ^ 2)))
    ∧ ∀ xp : ℝ, xp ≠ 0 → xp ^ 2 = S.xp2 →
        ‖(1 / 2 : ℂ) * ∫ z in (-1:ℝ)..1, (pmIdeal S ωs ωi z).toC‖
          = 4 / S.sigmaY * (1 / (2 * xp) * ∫ u in (0:ℝ)..(2 * xp), Real.exp (-(u ^ 2))) := by
  refine ⟨peak_integral S h ωs ωi hff, ?_⟩
  intro xp hx hxp
  rw [peak_integral S h ωs ωi hff, ← hxp, walkoff_integral xp hx]

/-- the walk-off parameter: `x′² = (½·L·tan ρ)²·(Ws²+Wi²)/Σ`, i.e. the statement's
`x = 2x′ = L·|tan ρ|·√((Ws²+Wi²)/Σ)` -/
theorem walkoff_parameter (S : Setup ℝ) :
    S.xp2 = (1 / 2 * S.L * Real.tan S.rho) ^ 2 * (S.sig.w2 + S.idl.w2) / S.sigmaY
    ∧ (S.rho = 0 → S.xp2 = 0) :=
  ⟨rfl, xp2_zero_of_rho S⟩

/-! ### non-vacuity -/

/-- a collinear plane-wave setup with unequal waists exists -/
example : ∃ S : Setup ℝ, S.PlaneWave ∧ S.rho = 0 ∧ S.sig.sgn = 1 ∧ S.idl.sgn = 1
    ∧ S.sig.w2 ≠ S.idl.w2 := by
  refine ⟨⟨1, ⟨0, 0, 0, 2, 2, 0, 1, fun _ => 1, 1, .o⟩, ⟨0, 0, 0, 3, 3, 0, 1, fun _ => 1, 1, .o⟩, 5, 5,
    fun _ => 1, 0, 0, fun _ => 1, .t0_o_oo⟩, ?_, rfl, rfl, rfl, ?_⟩
  · exact ⟨⟨⟨rfl, rfl⟩, ⟨rfl, rfl⟩⟩, rfl, by norm_num, by norm_num [Beam.w2], by norm_num [Beam.w2],
      fun _ => rfl⟩
  · norm_num [Beam.w2]

end Spdc.Props.C05
