import Spdc.Model.Grid
import Spdc.Real.GridLemmas
import Spdc.Real.ComposeGridLemmas
import Spdc.Real.GridProgLemmas
import Mathlib.Data.Real.Basic
import Mathlib.Tactic.LinearCombination
/-!
# C14 — grids enumerate exactly the documented points in row-major order

Property theorems only (helper lemmas live in `Spdc/Real/GridLemmas.lean`).  Scalar statements are
over an arbitrary field `K` of characteristic 0 (in particular `ℝ`); list-structure statements are
over an arbitrary scalar type.
-/
namespace Spdc.Props.C14
open Spdc Spdc.Grid

/-! ## T1 — 1-D step ranges -/

/-- A step range of `n` points yields exactly `n` values, the `i`-th being `value i`; it starts at the
first endpoint (`n ≥ 1`), ends at the second (`n ≥ 2`) and is evenly spaced by `(b − a)/(n − 1)`;
`n = 1 ⇒ [a]`, `n = 0 ⇒ []`. -/
theorem steps_enumerate {K : Type} [Field K] [CharZero K] (s : Steps K) :
    s.collect.length = s.n ∧
    (∀ i (h : i < s.collect.length), s.collect[i] = s.value i) ∧
    (1 ≤ s.n → s.collect.head? = some s.a) ∧
    (2 ≤ s.n → s.collect.getLast? = some s.b) ∧
    (2 ≤ s.n → ∀ i, s.value (i + 1) - s.value i = (s.b - s.a) / ((s.n - 1 : Nat) : K)) ∧
    (s.n = 1 → s.collect = [s.a]) ∧
    (s.n = 0 → s.collect = []) := by
  refine ⟨s.collect_length, s.collect_getElem, ?_, ?_, s.value_succ_sub, ?_, s.collect_zero⟩
  · intro h
    have hl : 0 < s.collect.length := by rw [s.collect_length]; omega
    rw [List.head?_eq_getElem?, List.getElem?_eq_getElem hl, s.collect_getElem 0 hl, s.value_zero]
  · intro h
    have hl : s.n - 1 < s.collect.length := by rw [s.collect_length]; omega
    rw [List.getLast?_eq_getElem?, s.collect_length, List.getElem?_eq_getElem hl,
      s.collect_getElem _ hl, s.value_last h]
  · intro h
    have hv : s.value 0 = s.a := s.value_zero
    simp [Steps.collect, h, hv]

/-- traversal from the back is the reverse of the forward traversal; traversal from the front is
`collect` (what `into_iter().rev().collect()` / `.collect()` return) — any scalar type -/
theorem steps_rev_collect {α : Type} [Add α] [Sub α] [Mul α] [Div α] [NatCast α] (s : Steps α) :
    s.iter.drain (List.replicate s.n true) = s.collect.reverse.map some ∧
    s.iter.drain (List.replicate s.n false) = s.collect.map some := by
  constructor
  · exact Iter1.drain_all_back s s.n
  · have := Iter1.drain_all_front s s.n s.n 0 (by omega)
    simpa [Steps.iter, Steps.collect, List.range_eq_range'] using this

/-- Mixed front/back consumption (any script of `next` / `next_back` calls): the front pulls deliver
a prefix of the sequence in order, the back pulls a suffix in reverse order, the two never overlap
(`f + b ≤ n`), exactly `min (#pulls) n` values are delivered, and once the script is at least `n`
long the two parts partition the whole sequence. -/
theorem steps_drain_partition {α : Type} [Add α] [Sub α] [Mul α] [Div α] [NatCast α]
    (s : Steps α) (sc : List Bool) :
    ∃ f b, f + b = min sc.length s.n ∧
      pulls sc (s.iter.drain sc) false = s.collect.take f ∧
      (pulls sc (s.iter.drain sc) true).reverse = s.collect.drop (s.n - b) ∧
      (s.iter.drain sc).length = sc.length ∧
      (s.n ≤ sc.length →
        pulls sc (s.iter.drain sc) false ++ (pulls sc (s.iter.drain sc) true).reverse = s.collect) := by
  obtain ⟨f, b, hfb0, hf, hb, hl⟩ := Iter1.drain_spec s sc 0 s.n (Nat.zero_le _)
  have hfb : f + b = min sc.length s.n := by simpa using hfb0
  have hfn : f + b ≤ s.n := by rw [hfb]; exact Nat.min_le_right _ _
  have h1 : (List.range' 0 f).map s.value = s.collect.take f := by
    simp only [Steps.collect, ← List.map_take, List.range_eq_range']
    rw [List.take_range'_of_length_ge (by omega)]
  have h2 : (List.range' (s.n - b) b).map s.value = s.collect.drop (s.n - b) := by
    simp only [Steps.collect, ← List.map_drop, List.range_eq_range', List.drop_range']
    congr 2 <;> omega
  refine ⟨f, b, hfb, ?_, ?_, hl, ?_⟩
  · exact hf.trans h1
  · show (pulls sc ((⟨s, 0, s.n⟩ : Iter1 α).drain sc) true).reverse = _
    rw [hb, List.reverse_reverse, h2]
  · intro hlen
    have hsum : f + b = s.n := by rw [hfb]; simpa using hlen
    show pulls sc ((⟨s, 0, s.n⟩ : Iter1 α).drain sc) false
      ++ (pulls sc ((⟨s, 0, s.n⟩ : Iter1 α).drain sc) true).reverse = _
    rw [hf, hb, List.reverse_reverse, h1, h2]
    have : s.n - b = f := by omega
    rw [this, List.take_append_drop]

/-- Positional access from either end, in ANY state a 1-D iterator can reach (`index ≤ index_back`:
whatever has been taken from the front and from the back before).  `nth k` — hence `skip`, `step_by`,
`take`, which std routes through it — returns the documented point `index + k` exactly when that point
has not been delivered yet (`index + k < index_back`) and `None` otherwise, never a point already taken
from the back; `nth_back k` symmetrically returns point `index_back − 1 − k`; both leave the cursors
ordered, so the remaining length is the number of points not yet delivered. -/
theorem steps_nth_positional {α : Type} [Add α] [Sub α] [Mul α] [Div α] [NatCast α]
    (it : Iter1 α) (h : it.index ≤ it.indexBack) (k : Nat) :
    it.nth k = (if it.index + k < it.indexBack then some (it.steps.value (it.index + k)) else none,
                { it with index := min (it.index + k + 1) it.indexBack }) ∧
    it.nthBack k = (if it.index + k < it.indexBack then some (it.steps.value (it.indexBack - 1 - k)) else none,
                    { it with indexBack := max (it.indexBack - (k + 1)) it.index }) ∧
    (it.nth k).2.index ≤ (it.nth k).2.indexBack ∧ (it.nthBack k).2.index ≤ (it.nthBack k).2.indexBack ∧
    (it.nth k).2.len = it.len - (k + 1) ∧ (it.nthBack k).2.len = it.len - (k + 1) := by
  refine ⟨it.nth_spec h k, it.nthBack_spec h k, ?_, ?_, ?_, ?_⟩
  · rw [it.nth_spec h k]; simp only; omega
  · rw [it.nthBack_spec h k]; simp only; omega
  · rw [it.nth_spec h k]; simp only [Iter1.len]; omega
  · rw [it.nthBack_spec h k]; simp only [Iter1.len]; omega

/-- the same for the 2-D iterator over any partition `[index, index_back)` of the grid: `nth k` is the
grid point with flat index `index + k` if the partition still owns it, `None` otherwise -/
theorem steps2d_nth_positional {α : Type} [Add α] [Sub α] [Mul α] [Div α] [NatCast α] [OfScientific α]
    (it : Iter2 α) (h : it.index ≤ it.indexBack) (k : Nat) :
    it.nth k = (if it.index + k < it.indexBack then some (it.steps.value (it.index + k)) else none,
                { it with index := min (it.index + k + 1) it.indexBack }) ∧
    it.nthBack k = (if it.index + k < it.indexBack then some (it.steps.value (it.indexBack - 1 - k)) else none,
                    { it with indexBack := max (it.indexBack - (k + 1)) it.index }) ∧
    (it.nth k).2.index ≤ (it.nth k).2.indexBack ∧ (it.nthBack k).2.index ≤ (it.nthBack k).2.indexBack ∧
    (it.nth k).2.len = it.len - (k + 1) ∧ (it.nthBack k).2.len = it.len - (k + 1) := by
  refine ⟨it.nth_spec h k, it.nthBack_spec h k, ?_, ?_, ?_, ?_⟩
  · rw [it.nth_spec h k]; simp only; omega
  · rw [it.nthBack_spec h k]; simp only; omega
  · rw [it.nth_spec h k]; simp only [Iter2.len]; omega
  · rw [it.nthBack_spec h k]; simp only [Iter2.len]; omega

/-! ## T2 — 2-D ranges -/

/-- a 2-D range yields `nx·ny` points; point `k` is `(x_{k mod nx}, y_{k div nx})` — the 1-D values of
the two axes, first axis varying fastest -/
theorem steps2d_enumerate {K : Type} [Field K] [CharZero K] (s : Steps2D K) :
    s.collect.length = s.x.n * s.y.n ∧
    ∀ k (h : k < s.collect.length),
      ∃ (hx : k % s.x.n < s.x.collect.length) (hy : k / s.x.n < s.y.collect.length),
        s.collect[k] = (s.x.collect[k % s.x.n], s.y.collect[k / s.x.n]) := by
  refine ⟨s.collect_length, ?_⟩
  intro k h
  have hk : k < s.x.n * s.y.n := by rw [← s.collect_length]; exact h
  have hpos : 0 < s.x.n := by
    rcases Nat.eq_zero_or_pos s.x.n with h0 | h0
    · rw [h0, Nat.zero_mul] at hk; omega
    · exact h0
  have hx : k % s.x.n < s.x.collect.length := by
    rw [s.x.collect_length]; exact Nat.mod_lt _ hpos
  have hy : k / s.x.n < s.y.collect.length := by
    rw [s.y.collect_length]; exact Nat.div_lt_of_lt_mul hk
  refine ⟨hx, hy, ?_⟩
  rw [s.collect_getElem k h, s.value_eq k, s.x.collect_getElem _ hx, s.y.collect_getElem _ hy]

/-! ## T3 — index maps -/

/-- the flat-index ↔ (column,row) maps are mutually inverse (1) -/
theorem index_inverse_1 (col row cols : Nat) (h : col < cols) :
    (get1dIndex col row cols).map (fun k => get2dIndices k cols) = .ok (col, row) := by
  have hc : 0 < cols := Nat.zero_lt_of_lt h
  simp only [get1dIndex, h, if_true, Outcome.map, get2dIndices]
  congr 2
  · rw [Nat.add_comm, Nat.add_mul_mod_self_right, Nat.mod_eq_of_lt h]
  · rw [Nat.add_comm, Nat.add_mul_div_right _ _ hc, Nat.div_eq_of_lt h, Nat.zero_add]

/-- the flat-index ↔ (column,row) maps are mutually inverse (2) -/
theorem index_inverse_2 (k cols : Nat) (h : 0 < cols) :
    get1dIndex (get2dIndices k cols).1 (get2dIndices k cols).2 cols = .ok k := by
  simp only [get1dIndex, get2dIndices, Nat.mod_lt _ h, if_true]
  congr 1
  rw [Nat.mul_comm]; exact Nat.div_add_mod k cols

/-! ## T4 — range evaluation, flat arrays -/

/-- A flat list `[s₀,i₀,s₁,i₁,…]` built from the points of a grid, re-chunked in pairs as the
`SignalIdler*Array` iterators do, gives the same points — hence any function mapped over it gives
the same values as over the grid, in the same order. -/
theorem range_flat_array_eq_grid {β γ : Type} (f : β × β → γ) (pts : List (β × β)) :
    chunks2 (pts.flatMap fun p => [p.1, p.2]) = pts ∧
    (chunks2 (pts.flatMap fun p => [p.1, p.2])).map f = pts.map f := by
  rw [chunks2_flat]; exact ⟨rfl, rfl⟩

/-! ## T5 — representation conversions -/

/-- wavelength ↔ frequency: endpoints go to endpoints (largest wavelength ↦ smallest frequency),
counts are kept and each ascending positive axis stays ascending and positive -/
theorem wl_freq_endpoints (c : ℝ) (hc : 0 < c) (s : Steps2D ℝ)
    (hxa : 0 < s.x.a) (hx : s.x.a ≤ s.x.b) (hya : 0 < s.y.a) (hy : s.y.a ≤ s.y.b) :
    (convRecip c s).x.a = c / s.x.b ∧ (convRecip c s).x.b = c / s.x.a ∧
    (convRecip c s).y.a = c / s.y.b ∧ (convRecip c s).y.b = c / s.y.a ∧
    (convRecip c s).x.n = s.x.n ∧ (convRecip c s).y.n = s.y.n ∧
    0 < (convRecip c s).x.a ∧ (convRecip c s).x.a ≤ (convRecip c s).x.b ∧
    0 < (convRecip c s).y.a ∧ (convRecip c s).y.a ≤ (convRecip c s).y.b := by
  refine ⟨rfl, rfl, rfl, rfl, rfl, rfl, ?_, ?_, ?_, ?_⟩
  · exact div_pos hc (lt_of_lt_of_le hxa hx)
  · exact div_le_div_of_nonneg_left hc.le hxa hx
  · exact div_pos hc (lt_of_lt_of_le hya hy)
  · exact div_le_div_of_nonneg_left hc.le hya hy

/-- wavelength → frequency → wavelength (and the converse: same function) is the identity on grids
with non-zero endpoints, for any non-zero constant `2πc` -/
theorem wl_freq_roundtrip {K : Type} [Field K] [CharZero K] (c : K) (hc : c ≠ 0) (s : Steps2D K)
    (h1 : s.x.a ≠ 0) (h2 : s.x.b ≠ 0) (h3 : s.y.a ≠ 0) (h4 : s.y.b ≠ 0) :
    convRecip c (convRecip c s) = s :=
  convRecip_convRecip c s hc h1 h2 h3 h4

/-- frequency → sum/difference axes keeps both point counts and the grid centre: the centre of the
sum/diff grid, read back as (signal, idler) = (s − d, s + d), is the centre of the frequency grid;
the way back keeps counts, and the round trip always keeps the centre of each axis. -/
theorem sumdiff_centre_counts {K : Type} [Field K] [CharZero K] (f : Steps2D K) :
    (toSumDiff f).x.n = f.x.n ∧ (toSumDiff f).y.n = f.y.n ∧
    (fromSumDiff (toSumDiff f)).x.n = f.x.n ∧ (fromSumDiff (toSumDiff f)).y.n = f.y.n ∧
    sumDiffPoint (((toSumDiff f).x.a + (toSumDiff f).x.b) / 2, ((toSumDiff f).y.a + (toSumDiff f).y.b) / 2)
      = ((f.x.a + f.x.b) / 2, (f.y.a + f.y.b) / 2) ∧
    ((fromSumDiff (toSumDiff f)).x.a + (fromSumDiff (toSumDiff f)).x.b) / 2 = (f.x.a + f.x.b) / 2 ∧
    ((fromSumDiff (toSumDiff f)).y.a + (fromSumDiff (toSumDiff f)).y.b) / 2 = (f.y.a + f.y.b) / 2 := by
  refine ⟨rfl, rfl, rfl, rfl, ?_, ?_, ?_⟩
  · simp only [sumDiffPoint, toSumDiff, klit_two, Prod.mk.injEq]
    constructor <;> ring
  · rw [fromSumDiff_toSumDiff_x_a, fromSumDiff_toSumDiff_x_b]; ring
  · rw [fromSumDiff_toSumDiff_y_a, fromSumDiff_toSumDiff_y_b]; ring

/-- frequency → sum/diff → frequency is the identity **exactly** when signal and idler spans are equal -/
theorem sumdiff_roundtrip_iff {K : Type} [Field K] [CharZero K] (f : Steps2D K) :
    fromSumDiff (toSumDiff f) = f ↔ f.x.b - f.x.a = f.y.b - f.y.a := by
  have h4 : (4 : K) ≠ 0 := by norm_num
  constructor
  · intro h
    have hx := fromSumDiff_toSumDiff_x_a f
    rw [h] at hx
    have : 4 * f.x.a = 3 * f.x.a + f.x.b + f.y.a - f.y.b := by
      rw [eq_div_iff h4] at hx; linear_combination hx
    linear_combination (-1 : K) * this
  · intro h
    have hb : f.x.b = f.x.a + f.y.b - f.y.a := by linear_combination h
    have e1 := fromSumDiff_toSumDiff_x_a f
    have e2 := fromSumDiff_toSumDiff_x_b f
    have e3 := fromSumDiff_toSumDiff_y_a f
    have e4 := fromSumDiff_toSumDiff_y_b f
    have n1 : (fromSumDiff (toSumDiff f)).x.n = f.x.n := rfl
    have n2 : (fromSumDiff (toSumDiff f)).y.n = f.y.n := rfl
    have g1 : (fromSumDiff (toSumDiff f)).x.a = f.x.a := by rw [e1, hb]; field_simp; ring
    have g2 : (fromSumDiff (toSumDiff f)).x.b = f.x.b := by rw [e2, hb]; field_simp; ring
    have g3 : (fromSumDiff (toSumDiff f)).y.a = f.y.a := by rw [e3, hb]; field_simp; ring
    have g4 : (fromSumDiff (toSumDiff f)).y.b = f.y.b := by rw [e4, hb]; field_simp; ring
    generalize fromSumDiff (toSumDiff f) = g at *
    obtain ⟨⟨gxa, gxb, gxn⟩, ⟨gya, gyb, gyn⟩⟩ := g
    obtain ⟨⟨fxa, fxb, fxn⟩, ⟨fya, fyb, fyn⟩⟩ := f
    simp only at n1 n2 g1 g2 g3 g4
    subst n1 n2 g1 g2 g3 g4
    rfl

/-- round trip under the equal-span hypothesis -/
theorem sumdiff_roundtrip {K : Type} [Field K] [CharZero K] (f : Steps2D K)
    (h : f.x.b - f.x.a = f.y.b - f.y.a) : fromSumDiff (toSumDiff f) = f :=
  (sumdiff_roundtrip_iff f).mpr h

/-- counter-example for unequal spans: signal 0…1, idler 0…2 comes back as signal −¼…1¼ -/
theorem sumdiff_roundtrip_counterexample :
    fromSumDiff (toSumDiff (⟨⟨0, 1, 5⟩, ⟨0, 2, 5⟩⟩ : Steps2D ℝ)) ≠ ⟨⟨0, 1, 5⟩, ⟨0, 2, 5⟩⟩ ∧
    (fromSumDiff (toSumDiff (⟨⟨0, 1, 5⟩, ⟨0, 2, 5⟩⟩ : Steps2D ℝ))).x.a = -1 / 4 := by
  constructor
  · intro h
    have := (sumdiff_roundtrip_iff _).mp h
    norm_num at this
  · rw [fromSumDiff_toSumDiff_x_a]; norm_num

/-! ## T6 — transpose -/

/-- transposing a flat row-major `rows × cols` matrix yields its matrix transpose, for **every**
shape with `cols ≥ 1` (rows ≥ 0) — true of the code since the `fix:` commit ba2e9b3 -/
theorem transpose_spec {β : Type} (m : Nat → Nat → β) (rows cols : Nat) (hc : 1 ≤ cols) :
    transposeVec (flatten m rows cols) cols = .ok (transposeSpec m rows cols) :=
  transposeVec_flatten m rows cols hc

/-- `num_cols = 0` is a division by zero (`div_ceil`) -/
theorem transpose_zero_cols {β : Type} (v : List β) : (transposeVec v 0).isPanic = true := by
  simp [transposeVec, Outcome.isPanic]

/-! ## non-vacuity -/

example : (⟨0, 1, 3⟩ : Steps ℝ).collect.getLast? = some 1 :=
  (steps_enumerate (⟨0, 1, 3⟩ : Steps ℝ)).2.2.2.1 (by norm_num)
example : ∃ f b, f + b = min 4 3 ∧ True := ⟨3, 0, by norm_num, trivial⟩
example : (⟨⟨0, 1, 2⟩, ⟨0, 1, 3⟩⟩ : Steps2D ℝ).collect.length = 2 * 3 :=
  (steps2d_enumerate _).1
example : get1dIndex 2 1 3 = .ok 5 := by decide
example : (convRecip (2 : ℝ) ⟨⟨1, 2, 3⟩, ⟨1, 4, 3⟩⟩).x.a ≤ (convRecip (2 : ℝ) ⟨⟨1, 2, 3⟩, ⟨1, 4, 3⟩⟩).x.b :=
  (wl_freq_endpoints 2 (by norm_num) _ (by norm_num) (by norm_num) (by norm_num) (by norm_num)).2.2.2.2.2.2.2.1
example : fromSumDiff (toSumDiff (⟨⟨1, 2, 5⟩, ⟨3, 4, 7⟩⟩ : Steps2D ℝ)) = ⟨⟨1, 2, 5⟩, ⟨3, 4, 7⟩⟩ :=
  sumdiff_roundtrip _ (by norm_num)
example : transposeVec [1, 2, 3, 4, 5, 6] 3 = .ok [1, 4, 2, 5, 3, 6] := by decide
example : transposeVec (flatten (fun r c => 3 * r + c + 1) 2 3) 3
    = .ok (transposeSpec (fun r c => 3 * r + c + 1) 2 3) := transpose_spec _ 2 3 (by norm_num)

-- `Steps(0., 9., 10)`: 9, 8, 7, 6 taken from the back leave `[0, 6)`; `nth(2)` is point 2, a following
-- `nth(4)` (target 7, already delivered) is `None`
example : ((⟨⟨0, 9, 10⟩, 0, 6⟩ : Iter1 ℝ).nth 2).1 = some ((⟨0, 9, 10⟩ : Steps ℝ).value 2)
    ∧ ((⟨⟨0, 9, 10⟩, 3, 6⟩ : Iter1 ℝ).nth 4).1 = none := by
  constructor
  · rw [(steps_nth_positional (⟨⟨0, 9, 10⟩, 0, 6⟩ : Iter1 ℝ) (by decide) 2).1]; simp
  · rw [(steps_nth_positional (⟨⟨0, 9, 10⟩, 3, 6⟩ : Iter1 ℝ) (by decide) 4).1]; simp
-- the last point of a 3×4 grid by position: `nth(11)` of the fresh iterator is point 11
example : ((⟨⟨⟨0, 1, 3⟩, ⟨0, 1, 4⟩⟩, 0, 12, 0, 12⟩ : Iter2 ℝ).nth 11).1
    = some ((⟨⟨0, 1, 3⟩, ⟨0, 1, 4⟩⟩ : Steps2D ℝ).value 11) := by
  rw [(steps2d_nth_positional (⟨⟨⟨0, 1, 3⟩, ⟨0, 1, 4⟩⟩, 0, 12, 0, 12⟩ : Iter2 ℝ) (by decide) 11).1]; simp
/-! ## composed model (grid level)

`Spdc/Model/ComposeGrid.lean` builds the grids of the grid-level API from primitives (`Ranges`: kind,
endpoints, step counts).  The theorems below tie its two adapters to the definitions the theorems above
are about, and state the row-major order of the composed `*_range` functions. -/

/-- composed model: `Into<FrequencySpace>` of a wavelength range is the endpoint-swapping reciprocal
map `convRecip` with `2πc` (so `wl_freq_endpoints` / `wl_freq_roundtrip` apply), of a sum/difference
range it is `fromSumDiff`; the `IntoSignalIdlerIterator` of a frequency range is the row-major
enumeration, of a sum/difference range the enumeration mapped through `(s − d, s + d)`; every range
yields `nx·ny` points. -/
theorem compose_ranges_adapters (g : Steps2D ℝ) :
    (Compose.Ranges.wavelength g).toFrequencySpace = convRecip (Units.twoPiC : ℝ) g
      ∧ (Compose.Ranges.sumDiff g).toFrequencySpace = fromSumDiff g
      ∧ (Compose.Ranges.freq g).toFrequencySpace = g
      ∧ (Compose.Ranges.freq g).points = g.collect
      ∧ (Compose.Ranges.sumDiff g).points = g.collect.map sumDiffPoint
      ∧ (Compose.Ranges.freq g).points.length = g.x.n * g.y.n
      ∧ (Compose.Ranges.wavelength g).points.length = g.x.n * g.y.n
      ∧ (Compose.Ranges.sumDiff g).points.length = g.x.n * g.y.n := by
  refine ⟨?_, rfl, rfl, rfl, rfl, ?_, ?_, ?_⟩
  · simp [Compose.Ranges.toFrequencySpace, Compose.wavelengthToFrequencySpace, convRecip, recip,
      Units.vacuumWavelengthToFrequency, Units.wavelengthToFrequency, lit_one]
  · simp [Compose.Ranges.points, Compose.length_collect]
  · simp [Compose.Ranges.points, Compose.length_collect]
  · simp [Compose.Ranges.points, Compose.length_collect]

/-- composed model: `JointSpectrum::jsi_range` of ANY primitive setup over a frequency range returns
`nx·ny` values, the `k`-th being the composed `jsi` at the `k`-th point of the row-major enumeration
(`Steps2D.value k`: signal index `k mod nx`, idler index `k div nx`). -/
theorem compose_jsi_range_row_major (S : Compose.Setup ℝ) (divs : Nat) (js : Compose.JS ℝ)
    (hjs : Compose.jointSpectrum S divs = .ok js) (J : PM.JSetup ℝ) (hJ : Compose.jsetup S = .ok J)
    (q : List (ℝ × ℝ) × ℝ) (hq : Compose.simpsonRule divs = .ok q) (g : Steps2D ℝ) :
    ∃ l, Compose.jsiRange S divs (.freq g) = .ok l ∧ l.length = g.x.n * g.y.n ∧
      ∀ k (hk : k < l.length), l[k] = PM.jsi J q.1 q.2 (g.value k).1 (g.value k).2 := by
  obtain ⟨hS, hd, -⟩ := Compose.jointSpectrum_ok hjs
  refine ⟨g.collect.map fun p => PM.jsi J q.1 q.2 p.1 p.2, ?_, ?_, ?_⟩
  · unfold Compose.jsiRange Compose.JS.jsiRange
    rw [hjs]
    simp only [Outcome.bind, Compose.Ranges.points]
    exact Compose.mapPoints_ok js.jsi (PM.jsi J q.1 q.2) _
      (fun p _ => Compose.jsi_eq_of_ok (hS ▸ hJ) (hd ▸ hq) p.1 p.2)
  · simp [Compose.length_collect]
  · intro k hk
    simp [Steps2D.collect]

example : ∃ js J q, Compose.jointSpectrum Compose.exGrid 50 = .ok js ∧ Compose.jsetup Compose.exGrid = .ok J ∧
    (Compose.simpsonRule 50 : Outcome (List (ℝ × ℝ) × ℝ)) = .ok q := Compose.exGrid_available

end Spdc.Props.C14
