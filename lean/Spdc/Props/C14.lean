import Spdc.Model.Grid
/-!
# C14 — grids enumerate exactly the documented points in row-major order

Property theorems only (helper lemmas live in `Spdc/Real/`).
-/
namespace Spdc.Props.C14
open Spdc Spdc.Grid

/-- the flat-index ↔ (column,row) maps are mutually inverse (1) -/
theorem index_inverse_1 (col row cols : Nat) (h : col < cols) :
    (get1dIndex col row cols).map (fun k => get2dIndices k cols) = .ok (col, row) := by
  have hc : 0 < cols := Nat.zero_lt_of_lt h
  simp only [get1dIndex, h, if_true, Outcome.map, get2dIndices]
  congr 2
  · rw [Nat.add_comm, Nat.add_mul_mod_self_right, Nat.mod_eq_of_lt h]
  · rw [Nat.add_comm, Nat.add_mul_div_right _ _ hc, Nat.div_eq_of_lt h, Nat.zero_add]

/-- the flat-index ↔ (column,row) maps are mutually inverse (2) -/
theorem index_inverse_2 (k cols : Nat) (h : 0 < cols) :
    get1dIndex (get2dIndices k cols).1 (get2dIndices k cols).2 cols = .ok k := by
  simp only [get1dIndex, get2dIndices, Nat.mod_lt _ h, if_true]
  congr 1
  rw [Nat.mul_comm]; exact Nat.div_add_mod k cols

end Spdc.Props.C14
