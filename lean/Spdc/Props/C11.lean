import Spdc.Real.SchmidtLemmas
import Spdc.Real.ComposeGridLemmas
/-!
# C11 — the Schmidt number is a proper effective-mode count

Property theorems only; all are about the executable trace-form model `Spdc.Schmidt.schmidt` at the
ℝ instance.  `magMat amps d` is the entry-wise magnitude matrix `A i j = |F[i·d + j]|` and
`M = AᵀA`.  Helper lemmas: `Spdc/Real/SchmidtLemmas.lean`.
-/
namespace Spdc.Props.C11
open Spdc Spdc.Schmidt Spdc.SchmidtLemmas Matrix

/-- T1. Singular-value form.  With `λ_i = σ_i²` the (non-negative) eigenvalues of `AᵀA`, i.e. the
squared singular values of the magnitude matrix, the model returns `(Σσ²)²/Σσ⁴`. -/
theorem K_eq_sv (amps : Array (Cx ℝ)) (d : ℕ) (hd : 0 < d) (h : amps.size = d * d) :
    (∀ i, 0 ≤ (isHermitian_gram (magMat amps d)).eigenvalues i) ∧
      schmidt amps = .ok ((∑ i, (isHermitian_gram (magMat amps d)).eigenvalues i) ^ 2 /
        ∑ i, ((isHermitian_gram (magMat amps d)).eigenvalues i) ^ 2) := by
  refine ⟨gram_eigenvalues_nonneg _, ?_⟩
  rw [schmidt_square amps d hd h, K_eq_eigen]

/-- T2. `1 ≤ K ≤ n` for every non-zero square array of side `n`. -/
theorem one_le_K_le_n (amps : Array (Cx ℝ)) (n : ℕ) (h : amps.size = n * n)
    (hnz : ∃ k, k < amps.size ∧ (amps.getD k Cx.zero).toC ≠ 0) :
    ∃ K, schmidt amps = .ok K ∧ 1 ≤ K ∧ K ≤ n := by
  have hn : 0 < n := by
    obtain ⟨k, hk, _⟩ := hnz
    rcases Nat.eq_zero_or_pos n with h0 | h0
    · subst h0; rw [h] at hk; simp at hk
    · exact h0
  refine ⟨_, schmidt_square amps n hn h, ?_⟩
  exact K_bounds _ (magMat_ne_zero amps n h hnz)

/-- T3a. A separable (outer-product) array has `K = 1`. -/
theorem K_rank_one (amps : Array (Cx ℝ)) (n : ℕ) (h : amps.size = n * n) (u v : ℕ → ℂ)
    (hsep : ∀ i j, i < n → j < n → (amps.getD (i * n + j) Cx.zero).toC = u i * v j)
    (hu : ∃ i, i < n ∧ u i ≠ 0) (hv : ∃ j, j < n ∧ v j ≠ 0) :
    schmidt amps = .ok 1 := by
  have hn : 0 < n := by obtain ⟨i, hi, _⟩ := hu; omega
  rw [schmidt_square amps n hn h]
  congr 1
  set A := magMat amps n with hA
  have hAij : ∀ i j : Fin n, A i j = ‖u i‖ * ‖v j‖ := by
    intro i j; simp only [hA, magMat, hsep i j i.isLt j.isLt, norm_mul]
  set U : ℝ := ∑ i : Fin n, ‖u i‖ ^ 2 with hU
  set V : ℝ := ∑ j : Fin n, ‖v j‖ ^ 2 with hV
  have hM : ∀ j k : Fin n, (Aᵀ * A) j k = U * (‖v j‖ * ‖v k‖) := by
    intro j k
    rw [gram_apply, hU, Finset.sum_mul]
    apply Finset.sum_congr rfl; intro i _
    rw [hAij, hAij]; ring
  have htr : (Aᵀ * A).trace = U * V := by
    rw [trace_gram, hV, Finset.mul_sum]
    apply Finset.sum_congr rfl; intro j _
    rw [hM]; ring
  have htr2 : ((Aᵀ * A) * (Aᵀ * A)).trace = (U * V) * (U * V) := by
    rw [trace_gram_sq]
    have : ∀ j k : Fin n, ((Aᵀ * A) j k) ^ 2 = (U * ‖v j‖ ^ 2) * (U * ‖v k‖ ^ 2) := by
      intro j k; rw [hM]; ring
    simp only [this]
    rw [← Finset.sum_mul_sum, ← Finset.mul_sum, ← hV]
  have hUpos : 0 < U := by
    obtain ⟨i, hi, hne⟩ := hu
    apply lt_of_lt_of_le (pow_pos (norm_pos_iff.mpr hne) 2)
    exact Finset.single_le_sum (f := fun i : Fin n => ‖u i‖ ^ 2) (fun _ _ => sq_nonneg _)
      (Finset.mem_univ (⟨i, hi⟩ : Fin n))
  have hVpos : 0 < V := by
    obtain ⟨j, hj, hne⟩ := hv
    apply lt_of_lt_of_le (pow_pos (norm_pos_iff.mpr hne) 2)
    exact Finset.single_le_sum (f := fun j : Fin n => ‖v j‖ ^ 2) (fun _ _ => sq_nonneg _)
      (Finset.mem_univ (⟨j, hj⟩ : Fin n))
  rw [htr, htr2]
  exact div_self (ne_of_gt (mul_pos (mul_pos hUpos hVpos) (mul_pos hUpos hVpos)))

/-- T3b. A diagonal array of equal non-zero magnitudes has `K = n`. -/
theorem K_diag_equal (amps : Array (Cx ℝ)) (n : ℕ) (hn : 0 < n) (h : amps.size = n * n) (m : ℝ)
    (hm : 0 < m)
    (hdiag : ∀ i j, i < n → j < n →
      ‖(amps.getD (i * n + j) Cx.zero).toC‖ = if i = j then m else 0) :
    schmidt amps = .ok n := by
  rw [schmidt_square amps n hn h]
  congr 1
  set A := magMat amps n with hA
  have hAeq : A = m • (1 : Matrix (Fin n) (Fin n) ℝ) := by
    ext i j
    simp only [hA, magMat, hdiag i j i.isLt j.isLt, Matrix.smul_apply, Matrix.one_apply,
      Fin.ext_iff, smul_eq_mul]
    split <;> simp
  have hM : Aᵀ * A = (m * m) • (1 : Matrix (Fin n) (Fin n) ℝ) := by
    rw [hAeq]; simp [Matrix.transpose_smul, smul_smul]
  have hMM : (Aᵀ * A) * (Aᵀ * A) = (m * m * (m * m)) • (1 : Matrix (Fin n) (Fin n) ℝ) := by
    rw [hM]; simp [smul_smul]
  rw [hMM, hM]
  simp only [Matrix.trace_smul, Matrix.trace_one, Fintype.card_fin, smul_eq_mul]
  have hn' : (n : ℝ) ≠ 0 := Nat.cast_ne_zero.mpr (Nat.pos_iff_ne_zero.mp hn)
  have hm' : m ≠ 0 := ne_of_gt hm
  field_simp

/-- T4a. `K` is unchanged by a global non-zero complex factor. -/
theorem K_scale (c : Cx ℝ) (hc : c.toC ≠ 0) (amps : Array (Cx ℝ)) (n : ℕ) (h : amps.size = n * n) :
    schmidt (scaleArr c amps) = schmidt amps := by
  have hs : (scaleArr c amps).size = n * n := by simp [scaleArr, h]
  rcases Nat.eq_zero_or_pos n with h0 | hn
  · subst h0; rw [schmidt_empty _ (by simpa using hs), schmidt_empty _ (by simpa using h)]
  rw [schmidt_square _ n hn hs, schmidt_square amps n hn h, magMat_scaleArr c n amps h]
  congr 1
  have hcn : ‖c.toC‖ ≠ 0 := norm_ne_zero_iff.mpr hc
  simp only [Matrix.transpose_smul, Matrix.smul_mul, Matrix.mul_smul, Matrix.trace_smul, smul_eq_mul]
  rw [show ‖c.toC‖ * (‖c.toC‖ * ((magMat amps n)ᵀ * magMat amps n).trace) *
      (‖c.toC‖ * (‖c.toC‖ * ((magMat amps n)ᵀ * magMat amps n).trace)) =
      (‖c.toC‖ * ‖c.toC‖ * (‖c.toC‖ * ‖c.toC‖)) *
      (((magMat amps n)ᵀ * magMat amps n).trace * ((magMat amps n)ᵀ * magMat amps n).trace) by ring]
  rw [show ‖c.toC‖ * (‖c.toC‖ * (‖c.toC‖ * (‖c.toC‖ *
      ((magMat amps n)ᵀ * magMat amps n * ((magMat amps n)ᵀ * magMat amps n)).trace))) =
      (‖c.toC‖ * ‖c.toC‖ * (‖c.toC‖ * ‖c.toC‖)) *
      ((magMat amps n)ᵀ * magMat amps n * ((magMat amps n)ᵀ * magMat amps n)).trace by ring]
  exact mul_div_mul_left _ _ (by positivity)

/-- T4b. `K` is unchanged by arbitrary element-wise phases. -/
theorem K_phase (θ : ℕ → ℝ) (amps : Array (Cx ℝ)) (n : ℕ) (h : amps.size = n * n) :
    schmidt (phaseArr θ amps) = schmidt amps := by
  have hs : (phaseArr θ amps).size = n * n := by simp [phaseArr, h]
  rcases Nat.eq_zero_or_pos n with h0 | hn
  · subst h0; rw [schmidt_empty _ (by simpa using hs), schmidt_empty _ (by simpa using h)]
  rw [schmidt_square _ n hn hs, schmidt_square amps n hn h, magMat_phaseArr θ n amps h]

/-- T4c. `K` is unchanged by transposition. -/
theorem K_transpose (amps : Array (Cx ℝ)) (n : ℕ) (h : amps.size = n * n) :
    schmidt (transposeArr n amps) = schmidt amps := by
  have hs : (transposeArr n amps).size = n * n := by simp [transposeArr]
  rcases Nat.eq_zero_or_pos n with h0 | hn
  · subst h0; rw [schmidt_empty _ (by simpa using hs), schmidt_empty _ (by simpa using h)]
  rw [schmidt_square _ n hn hs, schmidt_square amps n hn h, magMat_transposeArr,
    trace_gram_transpose, trace_gram_sq_transpose]

/-- T5. A flat array is rejected exactly when its length is not a perfect square. -/
theorem nonsquare_err (amps : Array (Cx ℝ)) :
    (¬ ∃ d, amps.size = d * d) ↔ schmidt amps = .err "not-square" :=
  schmidt_nonsquare amps

/-- T5'. Outcomes: a value on every non-empty square length, the error on non-square lengths; the
only panic is the empty array (nalgebra refuses the SVD of a 0×0 matrix — outside the statement,
which speaks of non-zero arrays). -/
theorem schmidt_outcomes (amps : Array (Cx ℝ)) :
    (0 < amps.size ∧ ∃ K, schmidt amps = .ok K) ∨ schmidt amps = .err "not-square" ∨
      (amps.size = 0 ∧ (schmidt amps).isPanic = true) := by
  by_cases hsq : ∃ d, amps.size = d * d
  · obtain ⟨d, hd⟩ := hsq
    rcases Nat.eq_zero_or_pos d with h0 | hpos
    · subst h0
      exact Or.inr (Or.inr ⟨by simpa using hd, by rw [schmidt_empty _ (by simpa using hd)]; rfl⟩)
    · exact Or.inl ⟨by rw [hd]; exact Nat.mul_pos hpos hpos, _, schmidt_square amps d hpos hd⟩
  · exact Or.inr (Or.inl ((schmidt_nonsquare amps).mp hsq))

/-- T6. The setup-level Schmidt number is the array-level function applied to the setup's sampled
amplitudes; in particular it errs exactly when the number of grid points is not a perfect square. -/
theorem setup_wrapper (J : ℝ → ℝ → Cx ℝ) (points : List (ℝ × ℝ)) :
    schmidtSetup J points = schmidt ((points.map fun p => J p.1 p.2).toArray) ∧
      ((¬ ∃ d, points.length = d * d) ↔ schmidtSetup J points = .err "not-square") := by
  refine ⟨rfl, ?_⟩
  have := nonsquare_err ((points.map fun p => J p.1 p.2).toArray)
  simpa [schmidtSetup] using this

/-! ### non-vacuity -/

/-- a concrete 2×2 non-zero array: the hypotheses of `one_le_K_le_n` are satisfiable -/
example : ∃ K, schmidt (#[⟨1, 0⟩, ⟨0, 2⟩, ⟨0, 0⟩, ⟨1, 1⟩] : Array (Cx ℝ)) = .ok K ∧ 1 ≤ K ∧ K ≤ (2 : ℕ) :=
  one_le_K_le_n _ 2 rfl ⟨0, by simp, by simp [Cx.toC, Complex.ext_iff]⟩

/-- a concrete equal-magnitude diagonal -/
example : schmidt (#[⟨0, 3⟩, ⟨0, 0⟩, ⟨0, 0⟩, ⟨3, 0⟩] : Array (Cx ℝ)) = .ok (2 : ℕ) :=
  K_diag_equal _ 2 (by norm_num) rfl 3 (by norm_num) (by
    intro i j hi hj
    have hi' : i = 0 ∨ i = 1 := by omega
    have hj' : j = 0 ∨ j = 1 := by omega
    rcases hi' with rfl | rfl <;> rcases hj' with rfl | rfl <;>
      simp [Cx.toC, Complex.norm_def, Complex.normSq_apply, Cx.zero, lit_zero])

/-- a length that is not a perfect square is rejected -/
example : schmidt (#[⟨1, 0⟩, ⟨0, 2⟩, ⟨0, 0⟩] : Array (Cx ℝ)) = .err "not-square" :=
  (nonsquare_err _).mp (by
    rintro ⟨d, hd⟩
    have h3 : d * d = 3 := by simpa using hd.symm
    have : d ≤ 3 := by nlinarith
    interval_cases d <;> omega)

/-! ## composed model (grid level)

The theorems above are about the trace-form Schmidt number of an arbitrary flat array.  Below they are
lifted to the COMPOSED model (`Spdc/Model/ComposeGrid.lean`): `schmidtNumber S divs R` is
`spdc.joint_spectrum(Simpson{divs}).schmidt_number(R)` computed from the primitive setup — the spectrum
object through the composed `try_as_optimum`, the amplitude array by mapping the composed `jsa` over
the row-major enumeration of the frequency space `R` converts to.  Note that the code (and the model)
reshape the `nx·ny` amplitudes into a `√(nx·ny)`-sided square whatever the two step counts are. -/

/-- the composed Schmidt number is the layer function applied to the composed amplitude array -/
theorem compose_schmidt_eq (S : Compose.Setup ℝ) (divs : Nat) (js : Compose.JS ℝ)
    (hjs : Compose.jointSpectrum S divs = .ok js) (J : PM.JSetup ℝ) (hJ : Compose.jsetup S = .ok J)
    (q : List (ℝ × ℝ) × ℝ) (hq : Compose.simpsonRule divs = .ok q) (R : Compose.Ranges ℝ) :
    Compose.schmidtNumber S divs R
      = schmidtSetup (PM.jsa J q.1 q.2) R.toFrequencySpace.collect := by
  obtain ⟨hS, hd, -⟩ := Compose.jointSpectrum_ok hjs
  unfold Compose.schmidtNumber Compose.JS.jsaRange
  rw [hjs]
  simp only [Outcome.bind, Compose.Ranges.points]
  rw [Compose.mapPoints_ok js.jsa (PM.jsa J q.1 q.2) _
    (fun p _ => Compose.jsa_eq_of_ok (hS ▸ hJ) (hd ▸ hq) p.1 p.2)]
  rfl

/-- composed model, T2 lifted: whenever the number of grid points is a perfect square `n²` and the
composed spectrum does not vanish at every grid point, the composed Schmidt number of ANY primitive
setup over ANY range satisfies `1 ≤ K ≤ n`. -/
theorem compose_schmidt_bounds (S : Compose.Setup ℝ) (divs : Nat) (js : Compose.JS ℝ)
    (hjs : Compose.jointSpectrum S divs = .ok js) (J : PM.JSetup ℝ) (hJ : Compose.jsetup S = .ok J)
    (q : List (ℝ × ℝ) × ℝ) (hq : Compose.simpsonRule divs = .ok q) (R : Compose.Ranges ℝ) (n : ℕ)
    (hlen : R.toFrequencySpace.x.n * R.toFrequencySpace.y.n = n * n)
    (hnz : ∃ p ∈ R.toFrequencySpace.collect, (PM.jsa J q.1 q.2 p.1 p.2).toC ≠ 0) :
    ∃ K, Compose.schmidtNumber S divs R = .ok K ∧ 1 ≤ K ∧ K ≤ n := by
  rw [compose_schmidt_eq S divs js hjs J hJ q hq R, (setup_wrapper _ _).1]
  apply one_le_K_le_n
  · simp [Compose.length_collect, hlen]
  · obtain ⟨p, hp, hne⟩ := hnz
    obtain ⟨k, hk, rfl⟩ := List.getElem_of_mem hp
    refine ⟨k, by simpa using hk, ?_⟩
    simpa [Array.getD, hk] using hne

/-- composed model, T5 lifted: a range whose number of grid points is not a perfect square is rejected
with the `Err` (and only then, given that the spectrum object and the amplitudes exist). -/
theorem compose_schmidt_nonsquare (S : Compose.Setup ℝ) (divs : Nat) (js : Compose.JS ℝ)
    (hjs : Compose.jointSpectrum S divs = .ok js) (J : PM.JSetup ℝ) (hJ : Compose.jsetup S = .ok J)
    (q : List (ℝ × ℝ) × ℝ) (hq : Compose.simpsonRule divs = .ok q) (R : Compose.Ranges ℝ) :
    (¬ ∃ d, R.toFrequencySpace.x.n * R.toFrequencySpace.y.n = d * d)
      ↔ Compose.schmidtNumber S divs R = .err "not-square" := by
  rw [compose_schmidt_eq S divs js hjs J hJ q hq R, ← (setup_wrapper _ _).2, Compose.length_collect]

/-- non-vacuity: a 2×3 range has a non-square number of points; a 1×4 range reshapes to side 2 -/
example : ¬ ∃ d, (2 : ℕ) * 3 = d * d := by
  rintro ⟨d, hd⟩
  have : d ≤ 3 := by nlinarith
  interval_cases d <;> omega

example : (1 : ℕ) * 4 = 2 * 2 := rfl

/-- non-vacuity of the outcome hypotheses (`hjs`, `hJ`, `hq`): for the concrete unpoled KTP setup
`Compose.exGrid` (explicit idler, 775 → 1500 + 1603 nm) the spectrum object (Simpson-50), the
joint-spectrum view and the Simpson rule all exist over ℝ (`Compose.grid_hypotheses_satisfiable`
shows the same for every unpoled explicit-idler setup with `0 ≠ λ_p < λ_s`) -/
example : ∃ js J q, Compose.jointSpectrum Compose.exGrid 50 = .ok js ∧ Compose.jsetup Compose.exGrid = .ok J ∧
    (Compose.simpsonRule 50 : Outcome (List (ℝ × ℝ) × ℝ)) = .ok q := Compose.exGrid_available

end Spdc.Props.C11
