import Spdc.Real.Auto
import Spdc.Real.ComposeAutoLemmas
/-!
# C04 — auto poling period and auto crystal angle null the longitudinal mismatch

Property theorems only (helper lemmas: `Spdc/Real/NM1D.lean`, `Spdc/Real/Auto.lean`).  All statements
are about the ℝ-instance of `Model/NM1D.lean` / `Model/Auto.lean`, whose `Float` instance is compared
bit-for-bit with `nelder_mead_1d`, `optimum_poling_period`, `compute_sign`, `optimum_theta`.

What is *not* proved (and cannot be in general — D3/D91 are counterexamples for the angle problem):
convergence of the simplex to a zero of `Δk_z` on the non-collinear period problem and on the angle
problem.  `dkz_bound_partial` states the full clause with that convergence as an explicit hypothesis.
-/
namespace Spdc.Props.C04
open Spdc Spdc.NM1D Spdc.Auto Spdc.DeltaK Real

/-! ## T1 — the bounded optimiser -/

/-- one Nelder–Mead iteration never fails on a NaN-free cost, keeps every vertex's cost consistent
and the simplex sorted, and **the best vertex's cost never increases** -/
theorem nm_best_monotone (c : ℝ → Cost ℝ) (hc : ∀ x, c x ≠ .nan) (s : Simplex ℝ) (hs : Inv c s) :
    ∃ s', step c s = some s' ∧ Inv c s' ∧ Cost.le s'.b.f s.b.f = true :=
  step_inv c hc hs

/-- `nelder_mead_1d` on a cost that is NaN-free inside the bounds returns a value (no panic) whose
bounded cost is not above that of either seed -/
theorem nm_result_le_seeds (f : ℝ → Cost ℝ) (g0 g1 : ℝ) (maxIter : Nat) (lo hi tol : ℝ)
    (hf : ∀ x, lo ≤ x → x ≤ hi → f x ≠ .nan) :
    ∃ x, run f g0 g1 maxIter lo hi tol = .ok x ∧
      Cost.le (cost1d f lo hi x) (cost1d f lo hi g0) = true ∧
      Cost.le (cost1d f lo hi x) (cost1d f lo hi g1) = true :=
  run_spec f g0 g1 maxIter lo hi tol hf

/-- … and lies inside the bounds as soon as one seed does with a finite cost -/
theorem nm_result_in_bounds (f : ℝ → Cost ℝ) (g0 g1 : ℝ) (maxIter : Nat) (lo hi tol : ℝ)
    (hf : ∀ x, lo ≤ x → x ≤ hi → f x ≠ .nan)
    (hseed : (∃ v, cost1d f lo hi g0 = .fin v) ∨ (∃ v, cost1d f lo hi g1 = .fin v)) :
    ∃ x, run f g0 g1 maxIter lo hi tol = .ok x ∧ lo ≤ x ∧ x ≤ hi := by
  obtain ⟨x, hx, h0, h1⟩ := run_spec f g0 g1 maxIter lo hi tol hf
  refine ⟨x, hx, ?_⟩
  rcases hseed with ⟨v, hv⟩ | ⟨v, hv⟩
  · rw [hv] at h0
    obtain ⟨y, hy, -⟩ := Cost.fin_of_le_fin h0
    exact mem_bounds_of_cost1d_fin hy
  · rw [hv] at h1
    obtain ⟨y, hy, -⟩ := Cost.fin_of_le_fin h1
    exact mem_bounds_of_cost1d_fin hy

/-! ## T2 — sign, length and error rules of `optimum_poling_period` -/

/-- the sign of the poling is the sign of the unpoled mismatch (`compute_sign`) -/
theorem compute_sign_iff (z : ℝ) : computeSign z = true ↔ z < 0 := computeSign_iff z

/-- a returned period carries the sign of the unpoled `Δk_z` -/
theorem period_sign (z L v : ℝ) (cost : Bool → ℝ → Cost ℝ)
    (h : optimumPolingPeriod z cost L = .ok (Period.finite v)) :
    (v < 0 ↔ z < 0) ∧ v ≠ 0 := by
  obtain ⟨hz, p, -, hp0, -, -, rfl⟩ := optimumPolingPeriod_ok h
  have hp : 0 < p := minPositive_pos.trans_le hp0
  rw [signMul_eq]
  by_cases hneg : z < 0
  · simp [(computeSign_iff z).mpr hneg, hneg, hp, hp.ne']
  · have : computeSign z = false := by
      rw [Bool.eq_false_iff]; exact fun h => hneg ((computeSign_iff z).mp h)
    simp [this, hneg, hp.le, hp.ne']

/-- its magnitude does not exceed the crystal length — it even stays off the upper bound
(D92 repair) — and is at least `f64::MIN_POSITIVE` -/
theorem period_le_length (z L v : ℝ) (cost : Bool → ℝ → Cost ℝ)
    (h : optimumPolingPeriod z cost L = .ok (Period.finite v)) :
    |v| ≤ L ∧ |v| < L * (1 - 1e-9) ∧ 0 < |v| := by
  obtain ⟨-, p, -, hp0, hp1, hp2, rfl⟩ := optimumPolingPeriod_ok h
  have hp : 0 < p := minPositive_pos.trans_le hp0
  rw [abs_signMul, abs_of_pos hp]
  exact ⟨hp1, hp2, hp⟩

/-- **error rule**: when the period that would null the unpoled mismatch exceeds the crystal length
by more than the seed offset (`2π/|z| − 1e-6 > L`), an error is returned — for *every* cost closure
(every point the simplex can reach is out of bounds) -/
theorem period_err_of_too_long (z L : ℝ) (cost : Bool → ℝ → Cost ℝ) (hz : z ≠ 0)
    (h : L < |2 * π / z| - 1e-6) :
    optimumPolingPeriod z cost L =
      .err "Could not determine poling period from specified values" := by
  rw [optimumPolingPeriod_of_ne hz,
    run_all_out (cost (computeSign z)) |2 * π / z| 1e-6 (by norm_num) 1000 minPositive L 1e-12 h]
  have : L < |2 * π / z| := by linarith [show (0:ℝ) < 1e-6 by norm_num]
  simp [this]

/-- an exactly vanishing unpoled mismatch needs no poling: `Ok(∞)` -/
theorem period_infinite_of_zero (L : ℝ) (cost : Bool → ℝ → Cost ℝ) :
    optimumPolingPeriod 0 cost L = .ok Period.infinite := by
  simp [optimumPolingPeriod, lit_zero]

/-! ## T3 — collinear closed form -/

/-- for a collinear signal the idler is collinear for every poling (C03 `idler_collinear`), so
`Δk_z(Λ) = z − 2π/(sign z · Λ)`; its only zero `2π/|z|` is the first seed, hence (T1) the returned
period is exactly `2π/z` whenever that fits the crystal (strictly below the upper bound, cf. the D92
repair) -/
theorem collinear_period (z L : ℝ) (hz : z ≠ 0) (h0 : minPositive ≤ |2 * π / z|)
    (h2 : |2 * π / z| < L * (1 - 1e-9)) :
    optimumPolingPeriod z (collinearCost z) L = .ok (Period.finite (2 * π / z)) := by
  set g := |2 * π / z| with hg
  have hgpos : 0 < g := minPositive_pos.trans_le h0
  have h1 : g ≤ L := by
    have hL : 0 < L := by
      by_contra hn
      have : L * (1 - 1e-9) ≤ 0 := mul_nonpos_of_nonpos_of_nonneg (not_lt.mp hn) (by norm_num)
      linarith
    nlinarith
  set neg := computeSign z with hneg
  -- the signed seed is 2π/z
  have hsg : signMul neg g = 2 * π / z := by
    rw [signMul_eq, hg]
    by_cases hlt : z < 0
    · have : 2 * π / z < 0 := div_neg_of_pos_of_neg (by positivity) hlt
      simp [hneg, (computeSign_iff z).mpr hlt, abs_of_neg this]
    · have hpos : 0 < z := lt_of_le_of_ne (not_lt.mp hlt) (Ne.symm hz)
      have : 0 < 2 * π / z := by positivity
      have hf : computeSign z = false := by
        rw [Bool.eq_false_iff]; exact fun h => hlt ((computeSign_iff z).mp h)
      simp [hneg, hf, abs_of_pos this]
  -- the cost is NaN-free inside the bounds and vanishes at the seed
  have hf : ∀ x, minPositive ≤ x → x ≤ L → collinearCost z neg x ≠ .nan := by
    intro x hx _
    rw [collinearCost_eq neg (minPositive_pos.trans_le hx)]; simp
  have hcg : cost1d (collinearCost z neg) minPositive L g = .fin 0 := by
    rw [cost1d_of_mem h0 h1, collinearCost_eq neg hgpos, hsg]
    have : 2 * π / (2 * π / z) = z := by field_simp
    simp [this]
  obtain ⟨x, hx, hle, -⟩ := run_spec (collinearCost z neg) g (g + 1e-6) 1000 minPositive L 1e-12 hf
  rw [hcg] at hle
  obtain ⟨y, hy, hy0⟩ := Cost.fin_of_le_fin hle
  obtain ⟨hx0, hx1⟩ := mem_bounds_of_cost1d_fin hy
  have hxpos : 0 < x := minPositive_pos.trans_le hx0
  rw [cost1d_of_mem hx0 hx1, collinearCost_eq neg hxpos] at hy
  simp only [Cost.fin.injEq] at hy
  -- |z − 2π/(±x)| ≤ 0 ⇒ ±x = 2π/z
  have habs : z - 2 * π / signMul neg x = 0 := by
    have := abs_nonneg (z - 2 * π / signMul neg x)
    exact abs_eq_zero.mp (le_antisymm (hy ▸ hy0) this)
  have hsx : signMul neg x = 2 * π / z := by
    have hne : signMul neg x ≠ 0 := signMul_ne_zero neg hxpos.ne'
    have hz' : z = 2 * π / signMul neg x := by linarith
    rw [eq_div_iff hz]
    rw [hz'] ; field_simp
  rw [optimumPolingPeriod_of_ne hz, hx]
  have hxg : x = g := signMul_inj neg (hsx.trans hsg.symm)
  have hnot : ¬ (L * (1 - 1e-9) ≤ x ∨ L < x ∨ x < minPositive) := by
    rw [not_or, not_or, not_le, not_lt, not_lt]; exact ⟨hxg ▸ h2, hx1, hx0⟩
  have hsx' : signMul (computeSign z) x = 2 * π / z := hsx
  simp only [hnot, if_false, hsx']

/-- the closed form of the collinear mismatch used above: with every wave vector along `ẑ`,
`Δk_z(Λ) = Δk_z(off) − k_eff(Λ)` (C03's `deltaK_def`), and `collinearCost` is its absolute value -/
theorem collinear_dkz (ns ni np ws wi wp p : ℝ) (neg : Bool) (hp : 0 < p) :
    (deltaK ⟨0, 0, 1⟩ ⟨0, 0, 1⟩ ⟨0, 0, 1⟩ ns ni np ws wi wp (Poling.on p neg)).map (·.z) =
      (deltaK ⟨0, 0, 1⟩ ⟨0, 0, 1⟩ ⟨0, 0, 1⟩ ns ni np ws wi wp Poling.off).map
        (fun v => v.z - 2 * π / signMul neg p) ∧
    ∀ z, collinearCost z neg p = .fin |z - 2 * π / signMul neg p| := by
  refine ⟨?_, fun z => collinearCost_eq neg hp⟩
  simp [deltaK, DeltaK.kEff_off, DeltaK.kEff_on neg hp, Outcome.map, Vec3.sub, lit_zero, lit_one]

/-! ## T4 — range of the auto angle -/

/-- the auto crystal angle lies in `[0, π/2]` whenever the cost is NaN-free there and finite at the
seed `π/6` -/
theorem theta_in_range (cost : ℝ → Cost ℝ) (hf : ∀ x, 0 ≤ x → x ≤ π / 2 → cost x ≠ .nan)
    (hseed : ∃ v, cost (π / 6) = .fin v) :
    ∃ θ, optimumTheta cost = .ok θ ∧ 0 ≤ θ ∧ θ ≤ π / 2 := by
  have hpi := Real.pi_pos
  have h6 : cost1d cost 0 (π / 2) (π / 6) = cost (π / 6) :=
    cost1d_of_mem (by positivity) (by linarith)
  obtain ⟨v, hv⟩ := hseed
  obtain ⟨x, hx, h0, h1⟩ := nm_result_in_bounds cost (π / 6) (π / 6 + 1) 1000 0 (π / 2) 1e-6 hf
    (Or.inl ⟨v, by rw [h6, hv]⟩)
  refine ⟨x, ?_, h0, h1⟩
  have h60 : (6.0 : ℝ) = 6 := by norm_num
  simpa [optimumTheta, tpi, lit_zero, lit_one, lit_two, h60] using hx

/-! ## T5 — the full clause, convergence made explicit -/

/-- **full statement with the convergence hypothesis explicit** (`_partial`): if the optimiser's
result `p` has residual `|Δk_z(p)|·L/2 < 1e-3`, then the returned signed period `Λ` has that
residual, the sign of the unpoled mismatch, and magnitude at most `L`.  The hypothesis is a theorem
for collinear signals (`collinear_period`: residual exactly 0) and is searched by the S predicate
otherwise. -/
theorem dkz_bound_partial (z L v : ℝ) (dkz : Bool → ℝ → ℝ)
    (h : optimumPolingPeriod z (fun neg p => .fin |dkz neg p|) L = .ok (Period.finite v))
    (hconv : ∀ p, NM1D.run (fun p => Cost.fin |dkz (computeSign z) p|) |2 * π / z|
        (|2 * π / z| + 1e-6) 1000 minPositive L 1e-12 = .ok p →
        |dkz (computeSign z) p| * L / 2 < 1e-3) :
    |dkz (computeSign z) (abs v)| * L / 2 < 1e-3 ∧ (v < 0 ↔ z < 0) ∧ |v| ≤ L := by
  refine ⟨?_, (period_sign z L v _ h).1, (period_le_length z L v _ h).1⟩
  obtain ⟨-, p, hp, hp0, -, -, rfl⟩ := optimumPolingPeriod_ok h
  have hpos : 0 < p := minPositive_pos.trans_le hp0
  rw [abs_signMul, abs_of_pos hpos]
  exact hconv p hp

/-! ## non-vacuity -/

/-- `collinear_period` applies to KTP-like numbers: `z = 1.36e5 /m` (Λ = 46.2 µm), `L = 2 mm` -/
example : optimumPolingPeriod (136000 : ℝ) (collinearCost 136000) 2e-3 =
    .ok (Period.finite (2 * π / 136000)) := by
  have h3 := Real.pi_gt_d2
  have h4 := Real.pi_lt_d2
  have habs : |2 * π / (136000 : ℝ)| = 2 * π / 136000 := abs_of_pos (by positivity)
  apply collinear_period _ _ (by norm_num)
  · rw [habs]
    have : (minPositive : ℝ) ≤ 1e-6 := minPositive_le_micro
    refine this.trans ?_
    rw [le_div_iff₀ (by norm_num)]; norm_num; linarith
  · rw [habs, div_lt_iff₀ (by norm_num)]; norm_num; linarith

/-- `period_err_of_too_long` applies: `z = 100 /m` needs a 6.3 cm period in a 2 mm crystal -/
example : optimumPolingPeriod (100 : ℝ) (collinearCost 100) 2e-3 =
    .err "Could not determine poling period from specified values" := by
  have h3 := Real.pi_gt_d2
  apply period_err_of_too_long _ _ _ (by norm_num)
  rw [abs_of_pos (by positivity)]
  norm_num; linarith

/-- the hypotheses of `theta_in_range` / `nm_result_in_bounds` are satisfiable: `|θ − 0.7|` -/
example : ∃ θ, optimumTheta (fun x : ℝ => Cost.fin |x - 0.7|) = .ok θ ∧ 0 ≤ θ ∧ θ ≤ π / 2 :=
  theta_in_range _ (fun _ _ _ => by simp) ⟨_, rfl⟩

/-! ## composed model

Above, the cost closures (`|Δk_z|` as a function of the trial period / crystal angle) are
parameters.  In `Spdc/Model/ComposeAuto.lean` they are built from the composed model — crystal angle
substituted, signal re-aimed at its external angle through the nested Snell simplex, optimum idler
recomputed per trial, `Δk_z` from the composed indices — and the optimisers run on them:
`Compose.optimumThetaB`, `Compose.optimumPolingPeriodB`.  The layer theorems lift with their
hypotheses on the cost DISCHARGED (over ℝ the composed cost is a real number wherever `λp < λs`). -/

/-- composed model: the composed `optimum_theta` returns a value in `[0, π/2]` whenever `λp < λs`
(no hypothesis on the cost left: it is NaN-free and finite at the seed `π/6`) -/
theorem compose_theta_in_range (S : Compose.Setup ℝ) (s p : Beam.Beam ℝ)
    (h : Beam.vacuumWavelength p < Beam.vacuumWavelength s) :
    ∃ θ, Compose.optimumThetaB S s p = .ok θ ∧ 0 ≤ θ ∧ θ ≤ π / 2 :=
  theta_in_range (Compose.thetaCost S s p (Compose.thetaExternal S s))
    (fun θ _ _ => Compose.thetaCost_ne_nan S s p _ θ h) (Compose.thetaCost_fin S s p _ (π / 6) h)

/-- composed model: a finite period returned by the composed `optimum_poling_period` carries the
sign of the composed unpoled mismatch `Δk_z` (with its optimum idler), is non-zero, and is shorter
than the crystal length `(1 − 10⁻⁹)·L`; `+∞` is returned exactly when that mismatch is zero. -/
theorem compose_period_rules (S : Compose.Setup ℝ) (s p : Beam.Beam ℝ) (v : ℝ)
    (h : Compose.optimumPolingPeriodB S s p = .ok v) :
    ∃ z, Compose.dkzOptimum S s p .off = .ok z ∧
      ((z = 0 ∧ v = Compose.infinity) ∨
       (z ≠ 0 ∧ (v < 0 ↔ z < 0) ∧ v ≠ 0 ∧ |v| < S.L * (1 - 1e-9))) := by
  obtain ⟨z, r, hz, hr, rfl⟩ := Compose.optimumPolingPeriodB_ok h
  refine ⟨z, hz, ?_⟩
  cases r with
  | infinite =>
    left
    refine ⟨?_, rfl⟩
    by_contra hne
    rw [optimumPolingPeriod_of_ne hne] at hr
    split at hr
    · split at hr <;> cases hr
    · cases hr
    · cases hr
  | finite w =>
    right
    have hs := period_sign z S.L w _ hr
    have hl := period_le_length z S.L w _ hr
    refine ⟨?_, hs.1, hs.2, hl.2.1⟩
    rintro rfl
    rw [period_infinite_of_zero] at hr
    cases hr

end Spdc.Props.C04
