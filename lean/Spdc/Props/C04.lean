import Spdc.Real.Auto
/-!
# C04 — auto poling period and auto crystal angle null the longitudinal mismatch

Property theorems only (helper lemmas: `Spdc/Real/NM1D.lean`, `Spdc/Real/Auto.lean`).
-/
namespace Spdc.Props.C04
open Spdc Spdc.NM1D Spdc.Auto Spdc.DeltaK Real

/-- the sign of the poling is the sign of the unpoled mismatch -/
theorem compute_sign_iff (z : ℝ) : computeSign z = true ↔ z < 0 := by
  simp [computeSign, lit_zero]

end Spdc.Props.C04
