import Mathlib.Analysis.Complex.Basic
import Mathlib.Analysis.SpecialFunctions.Complex.Circle
import Mathlib.Algebra.BigOperators.Group.Finset.Basic
import Mathlib.Tactic

open Finset Complex

namespace Spk

variable {ι : Type} [Fintype ι]

/-- interference term of the HOM rate -/
noncomputable def homInterf (f g : ι → ℂ) (φ : ι → ℝ) : ℝ :=
  ∑ k, ((starRingEnd ℂ) (f k) * g k * Complex.exp (φ k * Complex.I)).re

noncomputable def jsiNorm (f : ι → ℂ) : ℝ := ∑ k, Complex.normSq (f k)

noncomputable def homRate (f g : ι → ℂ) (φ : ι → ℝ) : ℝ :=
  0.5 * (1 - homInterf f g φ / jsiNorm f)

theorem abs_homInterf_le (f : ι → ℂ) (σ : Equiv.Perm ι) (φ : ι → ℝ) :
    |homInterf f (f ∘ σ) φ| ≤ jsiNorm f := by
  unfold homInterf jsiNorm
  have hterm : ∀ k, |((starRingEnd ℂ) (f k) * (f ∘ σ) k * Complex.exp (φ k * Complex.I)).re|
      ≤ (Complex.normSq (f k) + Complex.normSq (f (σ k))) / 2 := by
    intro k
    have h1 := Complex.abs_re_le_norm ((starRingEnd ℂ) (f k) * (f ∘ σ) k * Complex.exp (φ k * Complex.I))
    have h2 : ‖(starRingEnd ℂ) (f k) * (f ∘ σ) k * Complex.exp (φ k * Complex.I)‖ = ‖f k‖ * ‖f (σ k)‖ := by
      rw [norm_mul, norm_mul, Complex.norm_exp_ofReal_mul_I, mul_one, RCLike.norm_conj]
      rfl
    rw [h2] at h1
    have h3 : ‖f k‖ * ‖f (σ k)‖ ≤ (‖f k‖^2 + ‖f (σ k)‖^2) / 2 := by nlinarith [sq_nonneg (‖f k‖ - ‖f (σ k)‖)]
    rw [Complex.normSq_eq_norm_sq, Complex.normSq_eq_norm_sq]
    linarith
  calc |∑ k, ((starRingEnd ℂ) (f k) * (f ∘ σ) k * Complex.exp (φ k * Complex.I)).re|
      ≤ ∑ k, |((starRingEnd ℂ) (f k) * (f ∘ σ) k * Complex.exp (φ k * Complex.I)).re| :=
        Finset.abs_sum_le_sum_abs _ _
    _ ≤ ∑ k, (Complex.normSq (f k) + Complex.normSq (f (σ k))) / 2 := Finset.sum_le_sum (fun k _ => hterm k)
    _ = ∑ k, Complex.normSq (f k) := by
        rw [← Finset.sum_div, Finset.sum_add_distrib]
        have : ∑ k, Complex.normSq (f (σ k)) = ∑ k, Complex.normSq (f k) :=
          Equiv.sum_comp σ (fun k => Complex.normSq (f k))
        rw [this]; ring

theorem homRate_mem (f : ι → ℂ) (σ : Equiv.Perm ι) (φ : ι → ℝ) (hN : 0 < jsiNorm f) :
    0 ≤ homRate f (f ∘ σ) φ ∧ homRate f (f ∘ σ) φ ≤ 1 := by
  have h := abs_homInterf_le f σ φ
  have hb := abs_le.mp h
  unfold homRate
  have h1 : homInterf f (f ∘ σ) φ / jsiNorm f ≤ 1 := by
    rw [div_le_one hN]; exact hb.2
  have h2 : -1 ≤ homInterf f (f ∘ σ) φ / jsiNorm f := by
    rw [le_div_iff₀ hN]; linarith [hb.1]
  constructor <;> norm_num <;> linarith

#print axioms homRate_mem
end Spk
