import Spk.Scalar
import Mathlib.Tactic
import Mathlib.Data.Rat.Cast.Order

namespace Spk

def neSq {α} [Add α] [Sub α] [Mul α] [Div α] [OfScientific α] (x : α) : α :=
  (2.3753 : α) + (0.01224 : α) / (x - (0.01667 : α)) - (0.01516 : α) * x

/-- partition points (x = λ² in µm²) -/
def pts : List ℚ := (List.range 300).map (fun i => (357 : ℚ) / 10000 + (i : ℚ) * (1222 : ℚ) / 29900)

def consecOK : List ℚ → Bool
  | p :: q :: rest => (decide (neSq p + (1/100 : ℚ) < bboNoSq q)) && consecOK (q :: rest)
  | _ => true

theorem cert : consecOK pts = true := by decide +kernel

theorem cast_bbo (q : ℚ) : ((bboNoSq q : ℚ) : ℝ) = bboNoSq (q : ℝ) := by
  unfold bboNoSq
  push_cast
  norm_num

#print axioms cert
end Spk
