import Spk.Scalar
import Mathlib.Analysis.SpecialFunctions.Trigonometric.Basic
import Mathlib.Analysis.SpecialFunctions.Sqrt
import Mathlib.Tactic

namespace Spk
open Real

noncomputable instance : Transc ℝ where
  sqrt := Real.sqrt
  sin := Real.sin
  cos := Real.cos
  exp := Real.exp
  pi := Real.pi

theorem fresnel_disc_nonneg (u v w bx b_y bz : ℝ) (hu : 0 ≤ u) (hv : 0 ≤ v) (hw : 0 ≤ w)
    (h1 : u + v + w = 1) : 0 ≤ fresnelDisc u v w bx b_y bz := by
  unfold fresnelDisc fresnelB fresnelC
  have h4 : (4.0:ℝ) = 4 := by norm_num
  rw [h4]
  -- homogenise
  have key : (u * (b_y + bz) + v * (bx + bz) + w * (bx + b_y)) * (u * (b_y + bz) + v * (bx + bz) + w * (bx + b_y))
      - 4 * (u * (b_y * bz) + v * (bx * bz) + w * (bx * b_y)) * (u + v + w)
      = (u*(b_y-bz))^2 + (v*(bz-bx))^2 + (w*(bx-b_y))^2 - 2*(u*(b_y-bz))*(v*(bz-bx))
        - 2*(v*(bz-bx))*(w*(bx-b_y)) - 2*(u*(b_y-bz))*(w*(bx-b_y)) := by ring
  rw [h1, mul_one] at key
  rw [key]
  set X := u*(b_y-bz)
  set Y := v*(bz-bx)
  set Z := w*(bx-b_y)
  -- among the three differences, two have opposite signs
  rcases le_total b_y bz with h12 | h12 <;> rcases le_total bz bx with h23 | h23 <;>
    rcases le_total bx b_y with h31 | h31
  all_goals
    first
    | (have : X * Y ≤ 0 := by
        apply mul_nonpos_iff.mpr
        first
        | (left; constructor <;> [apply mul_nonneg hu; apply mul_nonpos_of_nonneg_of_nonpos hv] <;> linarith)
        | (right; constructor <;> [apply mul_nonpos_of_nonneg_of_nonpos hu; apply mul_nonneg hv] <;> linarith)
       nlinarith [sq_nonneg (X + Y - Z)])
    | (have : Y * Z ≤ 0 := by
        apply mul_nonpos_iff.mpr
        first
        | (left; constructor <;> [apply mul_nonneg hv; apply mul_nonpos_of_nonneg_of_nonpos hw] <;> linarith)
        | (right; constructor <;> [apply mul_nonpos_of_nonneg_of_nonpos hv; apply mul_nonneg hw] <;> linarith)
       nlinarith [sq_nonneg (-X + Y + Z)])
    | (have : X * Z ≤ 0 := by
        apply mul_nonpos_iff.mpr
        first
        | (left; constructor <;> [apply mul_nonneg hu; apply mul_nonpos_of_nonneg_of_nonpos hw] <;> linarith)
        | (right; constructor <;> [apply mul_nonpos_of_nonneg_of_nonpos hu; apply mul_nonneg hw] <;> linarith)
       nlinarith [sq_nonneg (X - Y + Z)])

#print axioms fresnel_disc_nonneg

/-- BBO n_o² is antitone in x on the window (x > 0.01822) -/
theorem bboNoSq_antitone {x y : ℝ} (hx : 0.01822 < x) (hxy : x ≤ y) : bboNoSq y ≤ bboNoSq x := by
  unfold bboNoSq
  have hy : (0.01822:ℝ) < y := lt_of_lt_of_le hx hxy
  have h1 : (0.01878:ℝ) / (y - 0.01822) ≤ 0.01878 / (x - 0.01822) := by
    apply div_le_div_of_nonneg_left <;> linarith
  nlinarith

end Spk
