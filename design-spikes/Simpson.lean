import Mathlib.Tactic
import Mathlib.Algebra.BigOperators.Intervals
import Mathlib.Data.Complex.Basic

open Finset

namespace Spk

variable {K : Type} [Field K] [CharZero K]

/-- Simpson weight as coded: 1 at the ends, 4 at odd, 2 at even interior indices. -/
def simpsonW (i n : ℕ) : K := if i = 0 ∨ i = n then 1 else if i % 2 = 1 then 4 else 2

/-- weighted node sum Σ_{i=0}^{n} w(i,n) f(a + i·h) -/
def simpsonSum (f : K → K) (a h : K) (n : ℕ) : K :=
  ∑ i ∈ range (n + 1), simpsonW i n * f (a + (i : K) * h)

/-- panel form -/
def panelSum (f : K → K) (a h : K) (m : ℕ) : K :=
  ∑ j ∈ range m, (f (a + ((2 * j : ℕ) : K) * h) + 4 * f (a + ((2 * j + 1 : ℕ) : K) * h)
      + f (a + ((2 * j + 2 : ℕ) : K) * h))

theorem simpsonSum_eq_panelSum (f : K → K) (a h : K) (m : ℕ) (hm : 1 ≤ m) :
    simpsonSum f a h (2 * m) = panelSum f a h m := by
  induction m, hm using Nat.le_induction with
  | base =>
    simp [simpsonSum, panelSum, simpsonW, sum_range_succ]
  | succ m hm ih =>
    unfold simpsonSum panelSum at *
    rw [sum_range_succ (n := m), ← ih]
    have e : 2 * (m + 1) + 1 = (2 * m + 1) + 2 := by ring
    rw [e, sum_range_succ, sum_range_succ, sum_range_succ (n := 2 * m)]
    -- weights for i < 2m agree
    have hcongr : ∑ i ∈ range (2 * m), (simpsonW i (2 * (m + 1)) : K) * f (a + (i : K) * h)
        = ∑ i ∈ range (2 * m), (simpsonW i (2 * m) : K) * f (a + (i : K) * h) := by
      apply sum_congr rfl
      intro i hi
      have hi' : i < 2 * m := mem_range.mp hi
      have h1 : i ≠ 2 * (m + 1) := by omega
      have h2 : i ≠ 2 * m := by omega
      simp [simpsonW, h1, h2]
    rw [hcongr]
    have w1 : (simpsonW (2 * m) (2 * (m + 1)) : K) = 2 := by
      have : 2 * m ≠ 0 := by omega
      have h2 : 2 * m ≠ 2 * (m + 1) := by omega
      simp [simpsonW, this, h2]
    have w2 : (simpsonW (2 * m + 1) (2 * (m + 1)) : K) = 4 := by
      have h2 : 2 * m + 1 ≠ 2 * (m + 1) := by omega
      simp [simpsonW, h2]
    have w3 : (simpsonW (2 * m + 1 + 1) (2 * (m + 1)) : K) = 1 := by
      have : 2 * m + 1 + 1 = 2 * (m + 1) := by ring
      simp [simpsonW, this]
    have w0 : (simpsonW (2 * m) (2 * m) : K) = 1 := by simp [simpsonW]
    rw [w1, w2, w3]
    rw [sum_range_succ (fun i => (simpsonW i (2 * m) : K) * f (a + (i : K) * h)) (2 * m), w0]
    have c1 : ((2 * m + 1 + 1 : ℕ) : K) = ((2 * m + 2 : ℕ) : K) := by push_cast; ring
    rw [c1]
    ring

/-- one Simpson panel integrates cubics exactly -/
theorem panel_exact_cubic (c0 c1 c2 c3 x h : K) :
    let f : K → K := fun t => c0 + c1 * t + c2 * t ^ 2 + c3 * t ^ 3
    let F : K → K := fun t => c0 * t + c1 * t ^ 2 / 2 + c2 * t ^ 3 / 3 + c3 * t ^ 4 / 4
    (h / 3) * (f x + 4 * f (x + h) + f (x + 2 * h)) = F (x + 2 * h) - F x := by
  intro f F
  simp only [f, F]
  ring

#print axioms simpsonSum_eq_panelSum
end Spk
