/-! Polymorphic scalar interface: no Mathlib imports. -/
namespace Spk

/-- transcendental / non-field operations the model needs -/
class Transc (α : Type) where
  sqrt : α → α
  sin : α → α
  cos : α → α
  exp : α → α
  pi : α

/-- Float instance with Mathlib-style totalisation (sqrt of negative = 0). -/
instance : Transc Float where
  sqrt x := if x < 0 then 0 else Float.sqrt x
  sin := Float.sin
  cos := Float.cos
  exp := Float.exp
  pi := 3.141592653589793

section
variable {α : Type} [Add α] [Sub α] [Mul α] [Div α] [Neg α] [OfScientific α] [LT α]
  [DecidableRel (α := α) (· < ·)] [Transc α]

/-- BBO ordinary index squared as function of x = λ² (µm²) -/
def bboNoSq (x : α) : α := (2.7359 : α) + (0.01878 : α) / (x - (0.01822 : α)) - (0.01354 : α) * x

def bboNo (x : α) : α := Transc.sqrt (bboNoSq x)

/-- Fresnel quadratic discriminant. u v w are squared direction cosines, bx by bz inverse squared indices. -/
def fresnelB (u v w bx byy bz : α) : α := u * (byy + bz) + v * (bx + bz) + w * (bx + byy)
def fresnelC (u v w bx byy bz : α) : α := u * (byy * bz) + v * (bx * bz) + w * (bx * byy)
def fresnelDisc (u v w bx byy bz : α) : α :=
  fresnelB u v w bx byy bz * fresnelB u v w bx byy bz - (4.0 : α) * fresnelC u v w bx byy bz
end
end Spk
