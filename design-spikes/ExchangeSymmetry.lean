import Mathlib.Tactic
import Mathlib.Data.Complex.Basic

namespace Spk

theorem red1 (A1 A3 A5 A7 A8 d1 : ℂ) (h1 : A1 ≠ 0) (hd : d1 ≠ 0) (hdef : d1 = 4 * A1 * A3 - A8 * A8) :
    A1⁻¹ * (A5 * A5 + ((-2 * A1 * A7 + A5 * A8) * (-2 * A1 * A7 + A5 * A8)) / d1)
      = 4 * (A3 * A5 * A5 - A5 * A7 * A8 + A1 * A7 * A7) / d1 := by
  field_simp
  rw [hdef]; ring

theorem red2 (A2 A4 A6 A9 d2 : ℂ) (h2 : A2 ≠ 0) (hd : d2 ≠ 0) (hdef : d2 = 4 * A2 * A4 - A9 * A9) :
    A2⁻¹ * (A6 * A6) * (1 + ((-2 * A2 + A9) * (-2 * A2 + A9)) / d2)
      = 4 * (A6 * A6) * (A2 + A4 - A9) / d2 := by
  field_simp
  rw [hdef]; ring

/-- exponent of the coincidence integrand as coded -/
noncomputable def expo (A1 A2 A3 A4 A5 A6 A7 A8 A9 A10 : ℂ) : ℂ :=
  (4 * A10 - A1⁻¹ * (A5 * A5 + ((-2 * A1 * A7 + A5 * A8) * (-2 * A1 * A7 + A5 * A8)) / (4 * A1 * A3 - A8 * A8))
    - A2⁻¹ * (A6 * A6) * (1 + ((-2 * A2 + A9) * (-2 * A2 + A9)) / (4 * A2 * A4 - A9 * A9))) / 4

theorem expo_symm (A1 A2 A3 A4 A5 A6 A7 A8 A9 A10 : ℂ)
    (h1 : A1 ≠ 0) (h2 : A2 ≠ 0) (h3 : A3 ≠ 0) (h4 : A4 ≠ 0)
    (hd1 : 4 * A1 * A3 - A8 * A8 ≠ 0) (hd2 : 4 * A2 * A4 - A9 * A9 ≠ 0) :
    expo A3 A4 A1 A2 A7 A6 A5 A8 A9 A10 = expo A1 A2 A3 A4 A5 A6 A7 A8 A9 A10 := by
  unfold expo
  have e1 : 4 * A3 * A1 - A8 * A8 = 4 * A1 * A3 - A8 * A8 := by ring
  have e2 : 4 * A4 * A2 - A9 * A9 = 4 * A2 * A4 - A9 * A9 := by ring
  rw [red1 A1 A3 A5 A7 A8 _ h1 hd1 rfl, red2 A2 A4 A6 A9 _ h2 hd2 rfl,
      red1 A3 A1 A7 A5 A8 _ h3 (by rw [e1]; exact hd1) rfl,
      red2 A4 A2 A6 A9 _ h4 (by rw [e2]; exact hd2) rfl, e1, e2]
  ring

#print axioms expo_symm
end Spk
