import Mathlib.Tactic
import Mathlib.Data.Real.Basic

namespace Spk

structure Steps (K : Type) where
  a : K
  b : K
  n : Nat

variable {K : Type} [Field K] [CharZero K]

def Steps.value (s : Steps K) (i : Nat) : K :=
  if 1 < s.n then (s.a * (((s.n - 1 : Nat) : K) - (i : K)) + s.b * (i : K)) / ((s.n - 1 : Nat) : K) else s.a

def Steps.collect (s : Steps K) : List K := (List.range s.n).map s.value

def Steps.split (s : Steps K) (k : Nat) : Steps K × Steps K :=
  (⟨s.a, s.value (k - 1), k⟩, ⟨s.value k, s.b, s.n - k⟩)

theorem split_left_value (s : Steps K) (k j : Nat) (hk1 : 1 ≤ k) (hk : k < s.n) (hj : j < k) :
    (s.split k).1.value j = s.value j := by
  have hn : 1 < s.n := by omega
  simp only [Steps.split, Steps.value, hn, if_true]
  have hd : ((s.n - 1 : Nat) : K) ≠ 0 := by
    have : s.n - 1 ≠ 0 := by omega
    exact_mod_cast this
  by_cases hk2 : 1 < k
  · simp only [hk2, if_true]
    have hd2 : ((k - 1 : Nat) : K) ≠ 0 := by
      have : k - 1 ≠ 0 := by omega
      exact_mod_cast this
    have e1 : ((k - 1 : Nat) : K) = (k : K) - 1 := by
      rw [Nat.cast_sub hk1]; simp
    have e2 : ((s.n - 1 : Nat) : K) = (s.n : K) - 1 := by
      rw [Nat.cast_sub (by omega)]; simp
    rw [e1] at hd2 ⊢; rw [e2] at hd ⊢
    field_simp
    ring
  · have : k = 1 := by omega
    subst this
    have : j = 0 := by omega
    subst this
    simp
    field_simp

theorem split_right_value (s : Steps K) (k j : Nat) (hk1 : 1 ≤ k) (hk : k < s.n) (hj : j < s.n - k) :
    (s.split k).2.value j = s.value (k + j) := by
  have hn : 1 < s.n := by omega
  simp only [Steps.split, Steps.value, hn, if_true]
  have hd : ((s.n - 1 : Nat) : K) ≠ 0 := by
    have : s.n - 1 ≠ 0 := by omega
    exact_mod_cast this
  have e2 : ((s.n - 1 : Nat) : K) = (s.n : K) - 1 := by
    rw [Nat.cast_sub (by omega)]; simp
  by_cases hk2 : 1 < s.n - k
  · simp only [hk2, if_true]
    have hd2 : ((s.n - k - 1 : Nat) : K) ≠ 0 := by
      have : s.n - k - 1 ≠ 0 := by omega
      exact_mod_cast this
    have e1 : ((s.n - k - 1 : Nat) : K) = (s.n : K) - (k : K) - 1 := by
      rw [Nat.cast_sub (by omega), Nat.cast_sub (by omega)]; simp
    rw [e1] at hd2 ⊢; rw [e2] at hd ⊢
    push_cast
    field_simp
    ring
  · have h1 : s.n - k = 1 := by omega
    have : j = 0 := by omega
    subst this
    simp only [hk2, if_false]
    simp

end Spk
