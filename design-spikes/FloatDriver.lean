import Spk.Scalar
open Spk
def main : IO Unit := do
  IO.println (bboNo (1.55*1.55 : Float))
  IO.println (fresnelDisc (0.25:Float) 0.25 0.5 0.3 0.31 0.4)
