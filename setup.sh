#!/bin/sh
# MANIFEST.setup_cmd — offline build of the whole framework from files on disk.
set -e
cd "$(dirname "$0")"
export CARGO_NET_OFFLINE=true
mkdir -p .build evidence replays
(cd lean && lake build Spdc spdcmodel)
(cd harness && RUSTFLAGS="--cfg spdcalc_verif" CARGO_TARGET_DIR="$PWD/../.build/target" cargo build --release --offline)
echo setup-done
